open BinInt
open BinNat
open BinNums
open Byte
open Datatypes
open List
open Nat
open Prelude

type value =
| VInt of coq_Z
| VBytes of bytes
| VFloat of coq_N
| VText of bytes
| VBool of bool
| VNull
| VTag of coq_N * value
| VArray of value list
| VMap of (value * value) list

(** val be : nat -> coq_N -> bytes **)

let rec be k n =
  match k with
  | O -> []
  | S k' ->
    (n2b
      (N.div n
        (N.pow (Npos (Coq_xO (Coq_xO (Coq_xO (Coq_xO (Coq_xO (Coq_xO (Coq_xO
          (Coq_xO Coq_xH))))))))) (N.of_nat k')))) :: (be k' n)

(** val unbe : bytes -> coq_N **)

let rec unbe = function
| [] -> N0
| b :: r ->
  N.add
    (N.mul (b2n b)
      (N.pow (Npos (Coq_xO (Coq_xO (Coq_xO (Coq_xO (Coq_xO (Coq_xO (Coq_xO
        (Coq_xO Coq_xH))))))))) (N.of_nat (length r)))) (unbe r)

(** val head : coq_N -> coq_N -> bytes **)

let head mt n =
  if N.ltb n (Npos (Coq_xO (Coq_xO (Coq_xO (Coq_xI Coq_xH)))))
  then (n2b
         (N.add
           (N.mul mt (Npos (Coq_xO (Coq_xO (Coq_xO (Coq_xO (Coq_xO
             Coq_xH))))))) n)) :: []
  else if N.ltb n (Npos (Coq_xO (Coq_xO (Coq_xO (Coq_xO (Coq_xO (Coq_xO
            (Coq_xO (Coq_xO Coq_xH)))))))))
       then (n2b
              (N.add
                (N.mul mt (Npos (Coq_xO (Coq_xO (Coq_xO (Coq_xO (Coq_xO
                  Coq_xH))))))) (Npos (Coq_xO (Coq_xO (Coq_xO (Coq_xI
                Coq_xH))))))) :: (be (S O) n)
       else if N.ltb n (Npos (Coq_xO (Coq_xO (Coq_xO (Coq_xO (Coq_xO (Coq_xO
                 (Coq_xO (Coq_xO (Coq_xO (Coq_xO (Coq_xO (Coq_xO (Coq_xO
                 (Coq_xO (Coq_xO (Coq_xO Coq_xH)))))))))))))))))
            then (n2b
                   (N.add
                     (N.mul mt (Npos (Coq_xO (Coq_xO (Coq_xO (Coq_xO (Coq_xO
                       Coq_xH))))))) (Npos (Coq_xI (Coq_xO (Coq_xO (Coq_xI
                     Coq_xH))))))) :: (be (S (S O)) n)
            else if N.ltb n (Npos (Coq_xO (Coq_xO (Coq_xO (Coq_xO (Coq_xO
                      (Coq_xO (Coq_xO (Coq_xO (Coq_xO (Coq_xO (Coq_xO (Coq_xO
                      (Coq_xO (Coq_xO (Coq_xO (Coq_xO (Coq_xO (Coq_xO (Coq_xO
                      (Coq_xO (Coq_xO (Coq_xO (Coq_xO (Coq_xO (Coq_xO (Coq_xO
                      (Coq_xO (Coq_xO (Coq_xO (Coq_xO (Coq_xO (Coq_xO
                      Coq_xH)))))))))))))))))))))))))))))))))
                 then (n2b
                        (N.add
                          (N.mul mt (Npos (Coq_xO (Coq_xO (Coq_xO (Coq_xO
                            (Coq_xO Coq_xH))))))) (Npos (Coq_xO (Coq_xI
                          (Coq_xO (Coq_xI Coq_xH))))))) :: (be (S (S (S (S
                                                             O)))) n)
                 else (n2b
                        (N.add
                          (N.mul mt (Npos (Coq_xO (Coq_xO (Coq_xO (Coq_xO
                            (Coq_xO Coq_xH))))))) (Npos (Coq_xI (Coq_xI
                          (Coq_xO (Coq_xI Coq_xH))))))) :: (be (S (S (S (S (S
                                                             (S (S (S
                                                             O)))))))) n)

(** val takeN : coq_N -> bytes -> (bytes * bytes) option **)

let rec takeN n l =
  if N.eqb n N0
  then Some ([], l)
  else (match l with
        | [] -> None
        | b :: r ->
          (match takeN (N.pred n) r with
           | Some p -> let (a, r') = p in Some ((b :: a), r')
           | None -> None))

(** val dehead :
    bytes -> (((coq_N * coq_N) * coq_N option) * bytes) option **)

let dehead = function
| [] -> None
| b :: r ->
  let mt =
    N.div (b2n b) (Npos (Coq_xO (Coq_xO (Coq_xO (Coq_xO (Coq_xO Coq_xH))))))
  in
  let ai =
    N.modulo (b2n b) (Npos (Coq_xO (Coq_xO (Coq_xO (Coq_xO (Coq_xO
      Coq_xH))))))
  in
  if N.ltb ai (Npos (Coq_xO (Coq_xO (Coq_xO (Coq_xI Coq_xH)))))
  then Some (((mt, ai), (Some ai)), r)
  else if N.eqb ai (Npos (Coq_xO (Coq_xO (Coq_xO (Coq_xI Coq_xH)))))
       then (match takeN (Npos Coq_xH) r with
             | Some p ->
               let (a, r') = p in Some (((mt, ai), (Some (unbe a))), r')
             | None -> None)
       else if N.eqb ai (Npos (Coq_xI (Coq_xO (Coq_xO (Coq_xI Coq_xH)))))
            then (match takeN (Npos (Coq_xO Coq_xH)) r with
                  | Some p ->
                    let (a, r') = p in Some (((mt, ai), (Some (unbe a))), r')
                  | None -> None)
            else if N.eqb ai (Npos (Coq_xO (Coq_xI (Coq_xO (Coq_xI Coq_xH)))))
                 then (match takeN (Npos (Coq_xO (Coq_xO Coq_xH))) r with
                       | Some p ->
                         let (a, r') = p in
                         Some (((mt, ai), (Some (unbe a))), r')
                       | None -> None)
                 else if N.eqb ai (Npos (Coq_xI (Coq_xI (Coq_xO (Coq_xI
                           Coq_xH)))))
                      then (match takeN (Npos (Coq_xO (Coq_xO (Coq_xO
                                    Coq_xH)))) r with
                            | Some p ->
                              let (a, r') = p in
                              Some (((mt, ai), (Some (unbe a))), r')
                            | None -> None)
                      else if N.eqb ai (Npos (Coq_xI (Coq_xI (Coq_xI (Coq_xI
                                Coq_xH)))))
                           then Some (((mt, ai), None), r)
                           else None

(** val pow2 : coq_N -> coq_N **)

let pow2 k =
  N.pow (Npos (Coq_xO Coq_xH)) k

(** val widen16 : coq_N -> coq_N **)

let widen16 h =
  let s =
    N.div h (Npos (Coq_xO (Coq_xO (Coq_xO (Coq_xO (Coq_xO (Coq_xO (Coq_xO
      (Coq_xO (Coq_xO (Coq_xO (Coq_xO (Coq_xO (Coq_xO (Coq_xO (Coq_xO
      Coq_xH))))))))))))))))
  in
  let e =
    N.modulo
      (N.div h (Npos (Coq_xO (Coq_xO (Coq_xO (Coq_xO (Coq_xO (Coq_xO (Coq_xO
        (Coq_xO (Coq_xO (Coq_xO Coq_xH)))))))))))) (Npos (Coq_xO (Coq_xO
      (Coq_xO (Coq_xO (Coq_xO Coq_xH))))))
  in
  let m =
    N.modulo h (Npos (Coq_xO (Coq_xO (Coq_xO (Coq_xO (Coq_xO (Coq_xO (Coq_xO
      (Coq_xO (Coq_xO (Coq_xO Coq_xH)))))))))))
  in
  if N.eqb e (Npos (Coq_xI (Coq_xI (Coq_xI (Coq_xI Coq_xH)))))
  then if N.eqb m N0
       then N.add
              (N.mul s
                (pow2 (Npos (Coq_xI (Coq_xI (Coq_xI (Coq_xI (Coq_xI
                  Coq_xH))))))))
              (N.mul (Npos (Coq_xI (Coq_xI (Coq_xI (Coq_xI (Coq_xI (Coq_xI
                (Coq_xI (Coq_xI (Coq_xI (Coq_xI Coq_xH)))))))))))
                (pow2 (Npos (Coq_xO (Coq_xO (Coq_xI (Coq_xO (Coq_xI
                  Coq_xH))))))))
       else N.add
              (N.add
                (N.add
                  (N.mul s
                    (pow2 (Npos (Coq_xI (Coq_xI (Coq_xI (Coq_xI (Coq_xI
                      Coq_xH))))))))
                  (N.mul (Npos (Coq_xI (Coq_xI (Coq_xI (Coq_xI (Coq_xI
                    (Coq_xI (Coq_xI (Coq_xI (Coq_xI (Coq_xI Coq_xH)))))))))))
                    (pow2 (Npos (Coq_xO (Coq_xO (Coq_xI (Coq_xO (Coq_xI
                      Coq_xH)))))))))
                (pow2 (Npos (Coq_xI (Coq_xI (Coq_xO (Coq_xO (Coq_xI
                  Coq_xH))))))))
              (N.modulo
                (N.mul m
                  (pow2 (Npos (Coq_xO (Coq_xI (Coq_xO (Coq_xI (Coq_xO
                    Coq_xH))))))))
                (pow2 (Npos (Coq_xI (Coq_xI (Coq_xO (Coq_xO (Coq_xI
                  Coq_xH))))))))
  else if N.eqb e N0
       then if N.eqb m N0
            then N.mul s
                   (pow2 (Npos (Coq_xI (Coq_xI (Coq_xI (Coq_xI (Coq_xI
                     Coq_xH)))))))
            else let k = N.log2 m in
                 N.add
                   (N.add
                     (N.mul s
                       (pow2 (Npos (Coq_xI (Coq_xI (Coq_xI (Coq_xI (Coq_xI
                         Coq_xH))))))))
                     (N.mul
                       (N.add k (Npos (Coq_xI (Coq_xI (Coq_xI (Coq_xO (Coq_xO
                         (Coq_xI (Coq_xI (Coq_xI (Coq_xI Coq_xH)))))))))))
                       (pow2 (Npos (Coq_xO (Coq_xO (Coq_xI (Coq_xO (Coq_xI
                         Coq_xH)))))))))
                   (N.mul (N.sub m (pow2 k))
                     (pow2
                       (N.sub (Npos (Coq_xO (Coq_xO (Coq_xI (Coq_xO (Coq_xI
                         Coq_xH)))))) k)))
       else N.add
              (N.add
                (N.mul s
                  (pow2 (Npos (Coq_xI (Coq_xI (Coq_xI (Coq_xI (Coq_xI
                    Coq_xH))))))))
                (N.mul
                  (N.add e (Npos (Coq_xO (Coq_xO (Coq_xO (Coq_xO (Coq_xI
                    (Coq_xI (Coq_xI (Coq_xI (Coq_xI Coq_xH)))))))))))
                  (pow2 (Npos (Coq_xO (Coq_xO (Coq_xI (Coq_xO (Coq_xI
                    Coq_xH)))))))))
              (N.mul m
                (pow2 (Npos (Coq_xO (Coq_xI (Coq_xO (Coq_xI (Coq_xO
                  Coq_xH))))))))

(** val widen32 : coq_N -> coq_N **)

let widen32 f =
  let s = N.div f (pow2 (Npos (Coq_xI (Coq_xI (Coq_xI (Coq_xI Coq_xH)))))) in
  let e =
    N.modulo
      (N.div f (pow2 (Npos (Coq_xI (Coq_xI (Coq_xI (Coq_xO Coq_xH)))))))
      (Npos (Coq_xO (Coq_xO (Coq_xO (Coq_xO (Coq_xO (Coq_xO (Coq_xO (Coq_xO
      Coq_xH)))))))))
  in
  let m = N.modulo f (pow2 (Npos (Coq_xI (Coq_xI (Coq_xI (Coq_xO Coq_xH))))))
  in
  if N.eqb e (Npos (Coq_xI (Coq_xI (Coq_xI (Coq_xI (Coq_xI (Coq_xI (Coq_xI
       Coq_xH))))))))
  then if N.eqb m N0
       then N.add
              (N.mul s
                (pow2 (Npos (Coq_xI (Coq_xI (Coq_xI (Coq_xI (Coq_xI
                  Coq_xH))))))))
              (N.mul (Npos (Coq_xI (Coq_xI (Coq_xI (Coq_xI (Coq_xI (Coq_xI
                (Coq_xI (Coq_xI (Coq_xI (Coq_xI Coq_xH)))))))))))
                (pow2 (Npos (Coq_xO (Coq_xO (Coq_xI (Coq_xO (Coq_xI
                  Coq_xH))))))))
       else N.add
              (N.add
                (N.add
                  (N.mul s
                    (pow2 (Npos (Coq_xI (Coq_xI (Coq_xI (Coq_xI (Coq_xI
                      Coq_xH))))))))
                  (N.mul (Npos (Coq_xI (Coq_xI (Coq_xI (Coq_xI (Coq_xI
                    (Coq_xI (Coq_xI (Coq_xI (Coq_xI (Coq_xI Coq_xH)))))))))))
                    (pow2 (Npos (Coq_xO (Coq_xO (Coq_xI (Coq_xO (Coq_xI
                      Coq_xH)))))))))
                (pow2 (Npos (Coq_xI (Coq_xI (Coq_xO (Coq_xO (Coq_xI
                  Coq_xH))))))))
              (N.modulo
                (N.mul m
                  (pow2 (Npos (Coq_xI (Coq_xO (Coq_xI (Coq_xI Coq_xH)))))))
                (pow2 (Npos (Coq_xI (Coq_xI (Coq_xO (Coq_xO (Coq_xI
                  Coq_xH))))))))
  else if N.eqb e N0
       then if N.eqb m N0
            then N.mul s
                   (pow2 (Npos (Coq_xI (Coq_xI (Coq_xI (Coq_xI (Coq_xI
                     Coq_xH)))))))
            else let k = N.log2 m in
                 N.add
                   (N.add
                     (N.mul s
                       (pow2 (Npos (Coq_xI (Coq_xI (Coq_xI (Coq_xI (Coq_xI
                         Coq_xH))))))))
                     (N.mul
                       (N.add k (Npos (Coq_xO (Coq_xI (Coq_xO (Coq_xI (Coq_xO
                         (Coq_xI (Coq_xI (Coq_xO (Coq_xI Coq_xH)))))))))))
                       (pow2 (Npos (Coq_xO (Coq_xO (Coq_xI (Coq_xO (Coq_xI
                         Coq_xH)))))))))
                   (N.mul (N.sub m (pow2 k))
                     (pow2
                       (N.sub (Npos (Coq_xO (Coq_xO (Coq_xI (Coq_xO (Coq_xI
                         Coq_xH)))))) k)))
       else N.add
              (N.add
                (N.mul s
                  (pow2 (Npos (Coq_xI (Coq_xI (Coq_xI (Coq_xI (Coq_xI
                    Coq_xH))))))))
                (N.mul
                  (N.add e (Npos (Coq_xO (Coq_xO (Coq_xO (Coq_xO (Coq_xO
                    (Coq_xO (Coq_xO (Coq_xI (Coq_xI Coq_xH)))))))))))
                  (pow2 (Npos (Coq_xO (Coq_xO (Coq_xI (Coq_xO (Coq_xI
                    Coq_xH)))))))))
              (N.mul m
                (pow2 (Npos (Coq_xI (Coq_xO (Coq_xI (Coq_xI Coq_xH)))))))

(** val cand16 : coq_N -> coq_N **)

let cand16 x =
  let s =
    N.div x (pow2 (Npos (Coq_xI (Coq_xI (Coq_xI (Coq_xI (Coq_xI Coq_xH)))))))
  in
  let e =
    N.modulo
      (N.div x
        (pow2 (Npos (Coq_xO (Coq_xO (Coq_xI (Coq_xO (Coq_xI Coq_xH))))))))
      (Npos (Coq_xO (Coq_xO (Coq_xO (Coq_xO (Coq_xO (Coq_xO (Coq_xO (Coq_xO
      (Coq_xO (Coq_xO (Coq_xO Coq_xH))))))))))))
  in
  let m =
    N.modulo x
      (pow2 (Npos (Coq_xO (Coq_xO (Coq_xI (Coq_xO (Coq_xI Coq_xH)))))))
  in
  if N.eqb e (Npos (Coq_xI (Coq_xI (Coq_xI (Coq_xI (Coq_xI (Coq_xI (Coq_xI
       (Coq_xI (Coq_xI (Coq_xI Coq_xH)))))))))))
  then if N.eqb m N0
       then N.add
              (N.mul s (Npos (Coq_xO (Coq_xO (Coq_xO (Coq_xO (Coq_xO (Coq_xO
                (Coq_xO (Coq_xO (Coq_xO (Coq_xO (Coq_xO (Coq_xO (Coq_xO
                (Coq_xO (Coq_xO Coq_xH))))))))))))))))) (Npos (Coq_xO (Coq_xO
              (Coq_xO (Coq_xO (Coq_xO (Coq_xO (Coq_xO (Coq_xO (Coq_xO (Coq_xO
              (Coq_xI (Coq_xI (Coq_xI (Coq_xI Coq_xH)))))))))))))))
       else N.add
              (N.add
                (N.add
                  (N.mul s (Npos (Coq_xO (Coq_xO (Coq_xO (Coq_xO (Coq_xO
                    (Coq_xO (Coq_xO (Coq_xO (Coq_xO (Coq_xO (Coq_xO (Coq_xO
                    (Coq_xO (Coq_xO (Coq_xO Coq_xH))))))))))))))))) (Npos
                  (Coq_xO (Coq_xO (Coq_xO (Coq_xO (Coq_xO (Coq_xO (Coq_xO
                  (Coq_xO (Coq_xO (Coq_xO (Coq_xI (Coq_xI (Coq_xI (Coq_xI
                  Coq_xH)))))))))))))))) (Npos (Coq_xO (Coq_xO (Coq_xO
                (Coq_xO (Coq_xO (Coq_xO (Coq_xO (Coq_xO (Coq_xO
                Coq_xH)))))))))))
              (N.modulo
                (N.div m
                  (pow2 (Npos (Coq_xO (Coq_xI (Coq_xO (Coq_xI (Coq_xO
                    Coq_xH)))))))) (Npos (Coq_xO (Coq_xO (Coq_xO (Coq_xO
                (Coq_xO (Coq_xO (Coq_xO (Coq_xO (Coq_xO Coq_xH)))))))))))
  else if N.eqb e N0
       then N.mul s (Npos (Coq_xO (Coq_xO (Coq_xO (Coq_xO (Coq_xO (Coq_xO
              (Coq_xO (Coq_xO (Coq_xO (Coq_xO (Coq_xO (Coq_xO (Coq_xO (Coq_xO
              (Coq_xO Coq_xH))))))))))))))))
       else if (&&)
                 (N.leb (Npos (Coq_xI (Coq_xO (Coq_xO (Coq_xO (Coq_xI (Coq_xI
                   (Coq_xI (Coq_xI (Coq_xI Coq_xH)))))))))) e)
                 (N.leb e (Npos (Coq_xO (Coq_xI (Coq_xI (Coq_xI (Coq_xO
                   (Coq_xO (Coq_xO (Coq_xO (Coq_xO (Coq_xO Coq_xH))))))))))))
            then N.add
                   (N.add
                     (N.mul s (Npos (Coq_xO (Coq_xO (Coq_xO (Coq_xO (Coq_xO
                       (Coq_xO (Coq_xO (Coq_xO (Coq_xO (Coq_xO (Coq_xO
                       (Coq_xO (Coq_xO (Coq_xO (Coq_xO Coq_xH)))))))))))))))))
                     (N.mul
                       (N.sub e (Npos (Coq_xO (Coq_xO (Coq_xO (Coq_xO (Coq_xI
                         (Coq_xI (Coq_xI (Coq_xI (Coq_xI Coq_xH)))))))))))
                       (Npos (Coq_xO (Coq_xO (Coq_xO (Coq_xO (Coq_xO (Coq_xO
                       (Coq_xO (Coq_xO (Coq_xO (Coq_xO Coq_xH)))))))))))))
                   (N.div m
                     (pow2 (Npos (Coq_xO (Coq_xI (Coq_xO (Coq_xI (Coq_xO
                       Coq_xH))))))))
            else if (&&)
                      (N.leb (Npos (Coq_xI (Coq_xI (Coq_xI (Coq_xO (Coq_xO
                        (Coq_xI (Coq_xI (Coq_xI (Coq_xI Coq_xH)))))))))) e)
                      (N.leb e (Npos (Coq_xO (Coq_xO (Coq_xO (Coq_xO (Coq_xI
                        (Coq_xI (Coq_xI (Coq_xI (Coq_xI Coq_xH)))))))))))
                 then N.add
                        (N.mul s (Npos (Coq_xO (Coq_xO (Coq_xO (Coq_xO
                          (Coq_xO (Coq_xO (Coq_xO (Coq_xO (Coq_xO (Coq_xO
                          (Coq_xO (Coq_xO (Coq_xO (Coq_xO (Coq_xO
                          Coq_xH)))))))))))))))))
                        (N.div
                          (N.add
                            (pow2 (Npos (Coq_xO (Coq_xO (Coq_xI (Coq_xO
                              (Coq_xI Coq_xH))))))) m)
                          (pow2
                            (N.sub (Npos (Coq_xI (Coq_xI (Coq_xO (Coq_xI
                              (Coq_xI (Coq_xO (Coq_xO (Coq_xO (Coq_xO (Coq_xO
                              Coq_xH))))))))))) e)))
                 else N.mul s (Npos (Coq_xO (Coq_xO (Coq_xO (Coq_xO (Coq_xO
                        (Coq_xO (Coq_xO (Coq_xO (Coq_xO (Coq_xO (Coq_xO
                        (Coq_xO (Coq_xO (Coq_xO (Coq_xO Coq_xH))))))))))))))))

(** val cand32 : coq_N -> coq_N **)

let cand32 x =
  let s =
    N.div x (pow2 (Npos (Coq_xI (Coq_xI (Coq_xI (Coq_xI (Coq_xI Coq_xH)))))))
  in
  let e =
    N.modulo
      (N.div x
        (pow2 (Npos (Coq_xO (Coq_xO (Coq_xI (Coq_xO (Coq_xI Coq_xH))))))))
      (Npos (Coq_xO (Coq_xO (Coq_xO (Coq_xO (Coq_xO (Coq_xO (Coq_xO (Coq_xO
      (Coq_xO (Coq_xO (Coq_xO Coq_xH))))))))))))
  in
  let m =
    N.modulo x
      (pow2 (Npos (Coq_xO (Coq_xO (Coq_xI (Coq_xO (Coq_xI Coq_xH)))))))
  in
  if N.eqb e (Npos (Coq_xI (Coq_xI (Coq_xI (Coq_xI (Coq_xI (Coq_xI (Coq_xI
       (Coq_xI (Coq_xI (Coq_xI Coq_xH)))))))))))
  then if N.eqb m N0
       then N.add
              (N.mul s
                (pow2 (Npos (Coq_xI (Coq_xI (Coq_xI (Coq_xI Coq_xH)))))))
              (N.mul (Npos (Coq_xI (Coq_xI (Coq_xI (Coq_xI (Coq_xI (Coq_xI
                (Coq_xI Coq_xH))))))))
                (pow2 (Npos (Coq_xI (Coq_xI (Coq_xI (Coq_xO Coq_xH)))))))
       else N.add
              (N.add
                (N.add
                  (N.mul s
                    (pow2 (Npos (Coq_xI (Coq_xI (Coq_xI (Coq_xI Coq_xH)))))))
                  (N.mul (Npos (Coq_xI (Coq_xI (Coq_xI (Coq_xI (Coq_xI
                    (Coq_xI (Coq_xI Coq_xH))))))))
                    (pow2 (Npos (Coq_xI (Coq_xI (Coq_xI (Coq_xO Coq_xH))))))))
                (pow2 (Npos (Coq_xO (Coq_xI (Coq_xI (Coq_xO Coq_xH)))))))
              (N.modulo
                (N.div m
                  (pow2 (Npos (Coq_xI (Coq_xO (Coq_xI (Coq_xI Coq_xH)))))))
                (pow2 (Npos (Coq_xO (Coq_xI (Coq_xI (Coq_xO Coq_xH)))))))
  else if N.eqb e N0
       then N.mul s (pow2 (Npos (Coq_xI (Coq_xI (Coq_xI (Coq_xI Coq_xH))))))
       else if (&&)
                 (N.leb (Npos (Coq_xI (Coq_xO (Coq_xO (Coq_xO (Coq_xO (Coq_xO
                   (Coq_xO (Coq_xI (Coq_xI Coq_xH)))))))))) e)
                 (N.leb e (Npos (Coq_xO (Coq_xI (Coq_xI (Coq_xI (Coq_xI
                   (Coq_xI (Coq_xI (Coq_xO (Coq_xO (Coq_xO Coq_xH))))))))))))
            then N.add
                   (N.add
                     (N.mul s
                       (pow2 (Npos (Coq_xI (Coq_xI (Coq_xI (Coq_xI
                         Coq_xH)))))))
                     (N.mul
                       (N.sub e (Npos (Coq_xO (Coq_xO (Coq_xO (Coq_xO (Coq_xO
                         (Coq_xO (Coq_xO (Coq_xI (Coq_xI Coq_xH)))))))))))
                       (pow2 (Npos (Coq_xI (Coq_xI (Coq_xI (Coq_xO
                         Coq_xH))))))))
                   (N.div m
                     (pow2 (Npos (Coq_xI (Coq_xO (Coq_xI (Coq_xI Coq_xH)))))))
            else if (&&)
                      (N.leb (Npos (Coq_xO (Coq_xI (Coq_xO (Coq_xI (Coq_xO
                        (Coq_xI (Coq_xI (Coq_xO (Coq_xI Coq_xH)))))))))) e)
                      (N.leb e (Npos (Coq_xO (Coq_xO (Coq_xO (Coq_xO (Coq_xO
                        (Coq_xO (Coq_xO (Coq_xI (Coq_xI Coq_xH)))))))))))
                 then N.add
                        (N.mul s
                          (pow2 (Npos (Coq_xI (Coq_xI (Coq_xI (Coq_xI
                            Coq_xH)))))))
                        (N.div
                          (N.add
                            (pow2 (Npos (Coq_xO (Coq_xO (Coq_xI (Coq_xO
                              (Coq_xI Coq_xH))))))) m)
                          (pow2
                            (N.sub (Npos (Coq_xO (Coq_xI (Coq_xI (Coq_xI
                              (Coq_xI (Coq_xO (Coq_xO (Coq_xI (Coq_xI
                              Coq_xH)))))))))) e)))
                 else N.mul s
                        (pow2 (Npos (Coq_xI (Coq_xI (Coq_xI (Coq_xI
                          Coq_xH))))))

(** val ser_float : coq_N -> bytes **)

let ser_float x =
  if N.eqb (widen16 (cand16 x)) x
  then (n2b (Npos (Coq_xI (Coq_xO (Coq_xO (Coq_xI (Coq_xI (Coq_xI (Coq_xI
         Coq_xH))))))))) :: (be (S (S O)) (cand16 x))
  else if N.eqb (widen32 (cand32 x)) x
       then (n2b (Npos (Coq_xO (Coq_xI (Coq_xO (Coq_xI (Coq_xI (Coq_xI
              (Coq_xI Coq_xH))))))))) :: (be (S (S (S (S O)))) (cand32 x))
       else (n2b (Npos (Coq_xI (Coq_xI (Coq_xO (Coq_xI (Coq_xI (Coq_xI
              (Coq_xI Coq_xH))))))))) :: (be (S (S (S (S (S (S (S (S
                                           O)))))))) x)

(** val inr : coq_N -> coq_N -> byte -> bool **)

let inr lo hi b =
  (&&) (N.leb lo (b2n b)) (N.leb (b2n b) hi)

(** val cont : byte -> bool **)

let cont b =
  inr (Npos (Coq_xO (Coq_xO (Coq_xO (Coq_xO (Coq_xO (Coq_xO (Coq_xO
    Coq_xH)))))))) (Npos (Coq_xI (Coq_xI (Coq_xI (Coq_xI (Coq_xI (Coq_xI
    (Coq_xO Coq_xH)))))))) b

(** val utf8_valid : bytes -> bool **)

let rec utf8_valid = function
| [] -> true
| b0 :: r0 ->
  if N.ltb (b2n b0) (Npos (Coq_xO (Coq_xO (Coq_xO (Coq_xO (Coq_xO (Coq_xO
       (Coq_xO Coq_xH))))))))
  then utf8_valid r0
  else (match r0 with
        | [] -> false
        | b1 :: r1 ->
          if inr (Npos (Coq_xO (Coq_xI (Coq_xO (Coq_xO (Coq_xO (Coq_xO
               (Coq_xI Coq_xH)))))))) (Npos (Coq_xI (Coq_xI (Coq_xI (Coq_xI
               (Coq_xI (Coq_xO (Coq_xI Coq_xH)))))))) b0
          then (&&) (cont b1) (utf8_valid r1)
          else (match r1 with
                | [] -> false
                | b2 :: r2 ->
                  if N.eqb (b2n b0) (Npos (Coq_xO (Coq_xO (Coq_xO (Coq_xO
                       (Coq_xO (Coq_xI (Coq_xI Coq_xH))))))))
                  then (&&)
                         ((&&)
                           (inr (Npos (Coq_xO (Coq_xO (Coq_xO (Coq_xO (Coq_xO
                             (Coq_xI (Coq_xO Coq_xH)))))))) (Npos (Coq_xI
                             (Coq_xI (Coq_xI (Coq_xI (Coq_xI (Coq_xI (Coq_xO
                             Coq_xH)))))))) b1) (cont b2)) (utf8_valid r2)
                  else if (||)
                            (inr (Npos (Coq_xI (Coq_xO (Coq_xO (Coq_xO
                              (Coq_xO (Coq_xI (Coq_xI Coq_xH)))))))) (Npos
                              (Coq_xO (Coq_xO (Coq_xI (Coq_xI (Coq_xO (Coq_xI
                              (Coq_xI Coq_xH)))))))) b0)
                            (inr (Npos (Coq_xO (Coq_xI (Coq_xI (Coq_xI
                              (Coq_xO (Coq_xI (Coq_xI Coq_xH)))))))) (Npos
                              (Coq_xI (Coq_xI (Coq_xI (Coq_xI (Coq_xO (Coq_xI
                              (Coq_xI Coq_xH)))))))) b0)
                       then (&&) ((&&) (cont b1) (cont b2)) (utf8_valid r2)
                       else if N.eqb (b2n b0) (Npos (Coq_xI (Coq_xO (Coq_xI
                                 (Coq_xI (Coq_xO (Coq_xI (Coq_xI
                                 Coq_xH))))))))
                            then (&&)
                                   ((&&)
                                     (inr (Npos (Coq_xO (Coq_xO (Coq_xO
                                       (Coq_xO (Coq_xO (Coq_xO (Coq_xO
                                       Coq_xH)))))))) (Npos (Coq_xI (Coq_xI
                                       (Coq_xI (Coq_xI (Coq_xI (Coq_xO
                                       (Coq_xO Coq_xH)))))))) b1) (cont b2))
                                   (utf8_valid r2)
                            else (match r2 with
                                  | [] -> false
                                  | b3 :: r3 ->
                                    if N.eqb (b2n b0) (Npos (Coq_xO (Coq_xO
                                         (Coq_xO (Coq_xO (Coq_xI (Coq_xI
                                         (Coq_xI Coq_xH))))))))
                                    then (&&)
                                           ((&&)
                                             ((&&)
                                               (inr (Npos (Coq_xO (Coq_xO
                                                 (Coq_xO (Coq_xO (Coq_xI
                                                 (Coq_xO (Coq_xO
                                                 Coq_xH)))))))) (Npos (Coq_xI
                                                 (Coq_xI (Coq_xI (Coq_xI
                                                 (Coq_xI (Coq_xI (Coq_xO
                                                 Coq_xH)))))))) b1) (cont b2))
                                             (cont b3)) (utf8_valid r3)
                                    else if inr (Npos (Coq_xI (Coq_xO (Coq_xO
                                              (Coq_xO (Coq_xI (Coq_xI (Coq_xI
                                              Coq_xH)))))))) (Npos (Coq_xI
                                              (Coq_xI (Coq_xO (Coq_xO (Coq_xI
                                              (Coq_xI (Coq_xI Coq_xH))))))))
                                              b0
                                         then (&&)
                                                ((&&)
                                                  ((&&) (cont b1) (cont b2))
                                                  (cont b3)) (utf8_valid r3)
                                         else if N.eqb (b2n b0) (Npos (Coq_xO
                                                   (Coq_xO (Coq_xI (Coq_xO
                                                   (Coq_xI (Coq_xI (Coq_xI
                                                   Coq_xH))))))))
                                              then (&&)
                                                     ((&&)
                                                       ((&&)
                                                         (inr (Npos (Coq_xO
                                                           (Coq_xO (Coq_xO
                                                           (Coq_xO (Coq_xO
                                                           (Coq_xO (Coq_xO
                                                           Coq_xH))))))))
                                                           (Npos (Coq_xI
                                                           (Coq_xI (Coq_xI
                                                           (Coq_xI (Coq_xO
                                                           (Coq_xO (Coq_xO
                                                           Coq_xH)))))))) b1)
                                                         (cont b2)) (cont b3))
                                                     (utf8_valid r3)
                                              else false)))

(** val ser : value -> bytes **)

let rec ser = function
| VInt z ->
  if Z.leb Z0 z
  then head N0 (Z.to_N z)
  else head (Npos Coq_xH) (Z.to_N (Z.sub (Zneg Coq_xH) z))
| VBytes b -> app (head (Npos (Coq_xO Coq_xH)) (N.of_nat (length b))) b
| VFloat x -> ser_float x
| VText t -> app (head (Npos (Coq_xI Coq_xH)) (N.of_nat (length t))) t
| VBool b ->
  if b
  then (n2b (Npos (Coq_xI (Coq_xO (Coq_xI (Coq_xO (Coq_xI (Coq_xI (Coq_xI
         Coq_xH))))))))) :: []
  else (n2b (Npos (Coq_xO (Coq_xO (Coq_xI (Coq_xO (Coq_xI (Coq_xI (Coq_xI
         Coq_xH))))))))) :: []
| VNull ->
  (n2b (Npos (Coq_xO (Coq_xI (Coq_xI (Coq_xO (Coq_xI (Coq_xI (Coq_xI
    Coq_xH))))))))) :: []
| VTag (t, v0) -> app (head (Npos (Coq_xO (Coq_xI Coq_xH))) t) (ser v0)
| VArray l ->
  app (head (Npos (Coq_xO (Coq_xO Coq_xH))) (N.of_nat (length l)))
    (flat_map ser l)
| VMap m ->
  app (head (Npos (Coq_xI (Coq_xO Coq_xH))) (N.of_nat (length m)))
    (flat_map (fun kv -> app (ser (fst kv)) (ser (snd kv))) m)

(** val derr : 'a1 res **)

let derr =
  Err EDecode

(** val strip0 : bytes -> bytes **)

let rec strip0 l = match l with
| [] -> []
| b :: r -> if N.eqb (b2n b) N0 then strip0 r else l

(** val bignum : bool -> bytes -> value res **)

let bignum neg content =
  let raw = unbe content in
  if neg
  then if N.ltb raw
            (pow2 (Npos (Coq_xO (Coq_xO (Coq_xO (Coq_xO (Coq_xO (Coq_xO
              Coq_xH))))))))
       then Ok (VInt (Z.sub (Zneg Coq_xH) (Z.of_N raw)))
       else if N.ltb raw
                 (pow2 (Npos (Coq_xI (Coq_xI (Coq_xI (Coq_xI (Coq_xI (Coq_xI
                   Coq_xH))))))))
            then Ok (VTag ((Npos (Coq_xI Coq_xH)), (VBytes (strip0 content))))
            else derr
  else if N.ltb raw
            (pow2 (Npos (Coq_xO (Coq_xO (Coq_xO (Coq_xO (Coq_xO (Coq_xO
              Coq_xH))))))))
       then Ok (VInt (Z.of_N raw))
       else Ok (VTag ((Npos (Coq_xO Coq_xH)), (VBytes (strip0 content))))

(** val segs : nat -> coq_N -> nat -> bytes -> (bytes * bytes) res **)

let rec segs fuel mt nested l =
  match fuel with
  | O -> OutOfFuel
  | S f ->
    (match dehead l with
     | Some p ->
       let (p0, r) = p in
       let (p1, arg) = p0 in
       let (mt', ai) = p1 in
       if (&&) (N.eqb mt' (Npos (Coq_xI (Coq_xI Coq_xH))))
            (N.eqb ai (Npos (Coq_xI (Coq_xI (Coq_xI (Coq_xI Coq_xH))))))
       then (match nested with
             | O -> derr
             | S n' -> (match n' with
                        | O -> Ok ([], r)
                        | S _ -> segs f mt n' r))
       else if N.eqb mt' mt
            then (match arg with
                  | Some n ->
                    (match takeN n r with
                     | Some p2 ->
                       let (s, r') = p2 in
                       if (&&) (N.eqb mt (Npos (Coq_xI Coq_xH)))
                            (negb (utf8_valid s))
                       then derr
                       else (match nested with
                             | O -> Ok (s, r')
                             | S _ ->
                               bind (segs f mt nested r') (fun pat ->
                                 let (rest, r'') = pat in
                                 Ok ((app s rest), r'')))
                     | None -> derr)
                  | None -> segs f mt (S nested) r)
            else derr
     | None -> derr)

(** val de : nat -> nat -> bytes -> (value * bytes) res **)

let rec de fuel bud l =
  match fuel with
  | O -> OutOfFuel
  | S f ->
    (match dehead l with
     | Some p ->
       let (p0, r) = p in
       let (p1, arg) = p0 in
       let (mt, ai) = p1 in
       if N.eqb mt N0
       then (match arg with
             | Some n -> Ok ((VInt (Z.of_N n)), r)
             | None -> derr)
       else if N.eqb mt (Npos Coq_xH)
            then (match arg with
                  | Some n -> Ok ((VInt (Z.sub (Zneg Coq_xH) (Z.of_N n))), r)
                  | None -> derr)
            else if N.eqb mt (Npos (Coq_xO Coq_xH))
                 then bind (segs f (Npos (Coq_xO Coq_xH)) O l) (fun pat ->
                        let (b, r') = pat in Ok ((VBytes b), r'))
                 else if N.eqb mt (Npos (Coq_xI Coq_xH))
                      then bind (segs f (Npos (Coq_xI Coq_xH)) O l)
                             (fun pat ->
                             let (t, r') = pat in Ok ((VText t), r'))
                      else if N.eqb mt (Npos (Coq_xO (Coq_xO Coq_xH)))
                           then (match bud with
                                 | O -> derr
                                 | S bud' ->
                                   bind (items f bud' arg r) (fun pat ->
                                     let (vs, r') = pat in
                                     Ok ((VArray vs), r')))
                           else if N.eqb mt (Npos (Coq_xI (Coq_xO Coq_xH)))
                                then (match bud with
                                      | O -> derr
                                      | S bud' ->
                                        bind (entries f bud' arg r)
                                          (fun pat ->
                                          let (m, r') = pat in
                                          Ok ((VMap m), r')))
                                else if N.eqb mt (Npos (Coq_xO (Coq_xI
                                          Coq_xH)))
                                     then (match arg with
                                           | Some t ->
                                             (match dehead r with
                                              | Some p2 ->
                                                let (p3, r2) = p2 in
                                                let (p4, arg2) = p3 in
                                                let (mt2, _) = p4 in
                                                let short =
                                                  match arg2 with
                                                  | Some n2 ->
                                                    (&&)
                                                      (N.eqb mt2 (Npos
                                                        (Coq_xO Coq_xH)))
                                                      (N.leb n2 (Npos (Coq_xO
                                                        (Coq_xO (Coq_xO
                                                        (Coq_xO Coq_xH))))))
                                                  | None -> false
                                                in
                                                if (&&)
                                                     ((||)
                                                       (N.eqb t (Npos (Coq_xO
                                                         Coq_xH)))
                                                       (N.eqb t (Npos (Coq_xI
                                                         Coq_xH)))) short
                                                then (match arg2 with
                                                      | Some n2 ->
                                                        (match takeN n2 r2 with
                                                         | Some p5 ->
                                                           let (c, r3) = p5 in
                                                           bind
                                                             (bignum
                                                               (N.eqb t (Npos
                                                                 (Coq_xI
                                                                 Coq_xH))) c)
                                                             (fun v -> Ok (v,
                                                             r3))
                                                         | None -> derr)
                                                      | None -> derr)
                                                else (match bud with
                                                      | O -> derr
                                                      | S bud' ->
                                                        bind (de f bud' r)
                                                          (fun pat ->
                                                          let (v, r') = pat in
                                                          Ok ((VTag (t, v)),
                                                          r')))
                                              | None -> derr)
                                           | None -> derr)
                                     else (match arg with
                                           | Some n ->
                                             if N.ltb ai (Npos (Coq_xI
                                                  (Coq_xO (Coq_xO (Coq_xI
                                                  Coq_xH)))))
                                             then if N.eqb n (Npos (Coq_xO
                                                       (Coq_xO (Coq_xI
                                                       (Coq_xO Coq_xH)))))
                                                  then Ok ((VBool false), r)
                                                  else if N.eqb n (Npos
                                                            (Coq_xI (Coq_xO
                                                            (Coq_xI (Coq_xO
                                                            Coq_xH)))))
                                                       then Ok ((VBool true),
                                                              r)
                                                       else if N.eqb n (Npos
                                                                 (Coq_xO
                                                                 (Coq_xI
                                                                 (Coq_xI
                                                                 (Coq_xO
                                                                 Coq_xH)))))
                                                            then Ok (VNull, r)
                                                            else if N.eqb n
                                                                    (Npos
                                                                    (Coq_xI
                                                                    (Coq_xI
                                                                    (Coq_xI
                                                                    (Coq_xO
                                                                    Coq_xH)))))
                                                                 then 
                                                                   Ok (VNull,
                                                                    r)
                                                                 else derr
                                             else if N.eqb ai (Npos (Coq_xI
                                                       (Coq_xO (Coq_xO
                                                       (Coq_xI Coq_xH)))))
                                                  then Ok ((VFloat
                                                         (widen16 n)), r)
                                                  else if N.eqb ai (Npos
                                                            (Coq_xO (Coq_xI
                                                            (Coq_xO (Coq_xI
                                                            Coq_xH)))))
                                                       then Ok ((VFloat
                                                              (widen32 n)), r)
                                                       else Ok ((VFloat n), r)
                                           | None -> derr)
     | None -> derr)

(** val items :
    nat -> nat -> coq_N option -> bytes -> (value list * bytes) res **)

and items fuel bud cnt l =
  match fuel with
  | O -> OutOfFuel
  | S f ->
    (match cnt with
     | Some n ->
       if N.eqb n N0
       then Ok ([], l)
       else bind (de f bud l) (fun pat ->
              let (v, r) = pat in
              bind (items f bud (Some (N.pred n)) r) (fun pat0 ->
                let (vs, r') = pat0 in Ok ((v :: vs), r')))
     | None ->
       (match l with
        | [] -> derr
        | b :: r0 ->
          if N.eqb (b2n b) (Npos (Coq_xI (Coq_xI (Coq_xI (Coq_xI (Coq_xI
               (Coq_xI (Coq_xI Coq_xH))))))))
          then Ok ([], r0)
          else bind (de f bud l) (fun pat ->
                 let (v, r) = pat in
                 bind (items f bud None r) (fun pat0 ->
                   let (vs, r') = pat0 in Ok ((v :: vs), r')))))

(** val entries :
    nat -> nat -> coq_N option -> bytes -> ((value * value) list * bytes) res **)

and entries fuel bud cnt l =
  match fuel with
  | O -> OutOfFuel
  | S f ->
    (match cnt with
     | Some n ->
       if N.eqb n N0
       then Ok ([], l)
       else bind (de f bud l) (fun pat ->
              let (k, r) = pat in
              bind (de f bud r) (fun pat0 ->
                let (v, r1) = pat0 in
                bind (entries f bud (Some (N.pred n)) r1) (fun pat1 ->
                  let (m, r') = pat1 in Ok (((k, v) :: m), r'))))
     | None ->
       (match l with
        | [] -> derr
        | b :: r0 ->
          if N.eqb (b2n b) (Npos (Coq_xI (Coq_xI (Coq_xI (Coq_xI (Coq_xI
               (Coq_xI (Coq_xI Coq_xH))))))))
          then Ok ([], r0)
          else bind (de f bud l) (fun pat ->
                 let (k, r) = pat in
                 bind (de f bud r) (fun pat0 ->
                   let (v, r1) = pat0 in
                   bind (entries f bud None r1) (fun pat1 ->
                     let (m, r') = pat1 in Ok (((k, v) :: m), r'))))))

(** val coq_RECURSION_LIMIT : nat **)

let coq_RECURSION_LIMIT =
  S (S (S (S (S (S (S (S (S (S (S (S (S (S (S (S (S (S (S (S (S (S (S (S (S
    (S (S (S (S (S (S (S (S (S (S (S (S (S (S (S (S (S (S (S (S (S (S (S (S
    (S (S (S (S (S (S (S (S (S (S (S (S (S (S (S (S (S (S (S (S (S (S (S (S
    (S (S (S (S (S (S (S (S (S (S (S (S (S (S (S (S (S (S (S (S (S (S (S (S
    (S (S (S (S (S (S (S (S (S (S (S (S (S (S (S (S (S (S (S (S (S (S (S (S
    (S (S (S (S (S (S (S (S (S (S (S (S (S (S (S (S (S (S (S (S (S (S (S (S
    (S (S (S (S (S (S (S (S (S (S (S (S (S (S (S (S (S (S (S (S (S (S (S (S
    (S (S (S (S (S (S (S (S (S (S (S (S (S (S (S (S (S (S (S (S (S (S (S (S
    (S (S (S (S (S (S (S (S (S (S (S (S (S (S (S (S (S (S (S (S (S (S (S (S
    (S (S (S (S (S (S (S (S (S (S (S (S (S (S (S (S (S (S (S (S (S (S (S (S
    (S (S (S (S (S (S (S (S (S (S (S (S (S (S (S
    O)))))))))))))))))))))))))))))))))))))))))))))))))))))))))))))))))))))))))))))))))))))))))))))))))))))))))))))))))))))))))))))))))))))))))))))))))))))))))))))))))))))))))))))))))))))))))))))))))))))))))))))))))))))))))))))))))))))))))))))))))))))))))))))))

(** val fuel_of : bytes -> nat **)

let fuel_of l =
  S (S (add (length l) (length l)))

(** val from_reader : bytes -> (value * bytes) res **)

let from_reader l =
  de (fuel_of l) coq_RECURSION_LIMIT l
