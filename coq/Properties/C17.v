(* C17 - Registry names and integers correspond one-to-one with the IANA assignments.
   All statements are about the tables regenerated from /repo/src/iana/mod.rs on this run. *)
From Coset.Model Require Import Prelude Cbor Iana Label.
From Coset.gen Require Import Generated.
From Coset.Spec Require Import IanaRef.
From Coset.Proofs Require Import IanaTables.
Open Scope string_scope. Open Scope Z_scope.

Theorem C17_conversions_mutually_inverse :
  forall reg t, In (reg, t) registries ->
    (forall i name, from_i64 t i = Some name -> to_i64 t name = Some i) /\
    (forall i name, to_i64 t name = Some i -> from_i64 t i = Some name).
Proof. intros reg t H. split; intros i name; [apply (from_to_inverse reg)|apply (to_from_inverse reg)]; exact H. Qed.
Print Assumptions C17_conversions_mutually_inverse.

Theorem C17_names_integers_one_to_one :
  forall reg t n1 n2 z1 z2, In (reg, t) registries -> In (n1, z1) t -> In (n2, z2) t -> (n1 = n2 <-> z1 = z2).
Proof. exact names_integers_one_to_one. Qed.
Print Assumptions C17_names_integers_one_to_one.

Theorem C17_names_carry_iana_integers :
  forall reg t name z, In (reg, t) registries -> In (name, z) t ->
    exists rt, assoc reg ref_registries = Some rt /\ In (name, z) rt.
Proof. exact names_carry_iana_integers. Qed.
Print Assumptions C17_names_carry_iana_integers.

Theorem C17_private_use_predicate :
  (forall reg i, In reg ref_private_registries -> is_private reg i = (i <? -65536)) /\
  (forall reg i, ~ In reg ref_private_registries -> is_private reg i = false) /\
  (forall reg name z, In reg ref_private_registries -> In (name, z) (table_of reg) -> is_private reg z = false).
Proof. exact (conj is_private_iff (conj is_private_other assigned_values_not_private)). Qed.
Print Assumptions C17_private_use_predicate.

Theorem C17_label_classification :
  (forall reg z, i64 z -> regp_from_value reg (VInt z) =
      if registered (table_of reg) z then Ok (PAssigned z)
      else if is_private reg z then Ok (PPrivate z) else Err EUnregNonPriv) /\
  (forall t z, i64 z -> reg_from_value t (VInt z) = if registered t z then Ok (RAssigned z) else Err EUnreg) /\
  (forall reg t z, ~ i64 z -> regp_from_value reg (VInt z) = Err ERange /\ reg_from_value t (VInt z) = Err ERange
                              /\ label_from_value (VInt z) = Err ERange) /\
  (forall reg t s, regp_from_value reg (VText s) = Ok (PText s) /\ reg_from_value t (VText s) = Ok (RText s)
                   /\ label_from_value (VText s) = Ok (LText s)) /\
  (forall t z, registered t z = true <-> exists n, from_i64 t z = Some n).
Proof. exact (conj regp_classification (conj reg_classification (conj label_out_of_range (conj text_labels_kept registered_iff)))). Qed.
Print Assumptions C17_label_classification.

Theorem C17_label_constants :
  (H_ALG, H_CRIT, H_CONTENT_TYPE, H_KID, H_IV, H_PARTIAL_IV, H_COUNTER_SIG) = (1, 2, 3, 4, 5, 6, 7)
  /\ (K_KTY, K_KID, K_ALG, K_KEY_OPS, K_BASE_IV) = (1, 2, 3, 4, 5)
  /\ (C_ISS, C_SUB, C_AUD, C_EXP, C_NBF, C_IAT, C_CTI) = (1, 2, 3, 4, 5, 6, 7).
Proof. exact label_constants_pinned. Qed.
Print Assumptions C17_label_constants.

(* non-vacuity: the tables are populated and a known assignment is present *)
Example C17_nonvacuous :
  List.length registries = 16%nat /\ from_i64 (table_of "Algorithm") (-7) = Some "ES256"
  /\ is_private "Algorithm" (-65537) = true /\ is_private "Algorithm" (-65536) = false.
Proof. repeat split. Qed.
