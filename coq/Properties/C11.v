(* C11 - Encoding emits exactly the modelled content in the documented CBOR shape.
   Proved for every type: "wf x -> to_value x = Ok v /\ from_value v = Ok (assign x)" (assign fills
   each protected header built in memory with the bytes encoding assigns it), and through the bytes
   for wire-normal values; plus the shape facts that do not merely restate the encoder: protected
   slot = stored bytes | h'' | bstr(encoded map); is_empty <-> all eight fields empty; distinct keys;
   totality.  That the decoded-back fields are the wire values "under their registered labels" is
   the content of the accept-iff specifications (C08-C10, C18) through which these round trips are
   proved.  The implementation is additionally compared byte-for-byte with an independent Python
   encoder of the CDDL shapes. *)
From Coset.Model Require Import Prelude Cbor Iana Label Msg Key Cwt Context Api.
From Coset.Proofs Require Import Head RoundTrip KeyAccept TypedRoundTrip NoDupLabels NoPanic Retained.
From Coset.Proofs Require ClaimsAccept.
From Coset.Proofs Require HeaderRoundTrip MsgRoundTrip.
Import HeaderRoundTrip MsgRoundTrip.

(* a well-formed key encodes, and the output decodes to it *)
Theorem C11_key_roundtrip :
  forall k, key_wf k ->
  exists v, CoseKey_to_value k = Ok v /\ CoseKey_from_value v = Ok k.
Proof. exact key_roundtrip. Qed.
Print Assumptions C11_key_roundtrip.

Theorem C11_keyset_roundtrip :
  forall ks, Forall key_wf ks ->
  exists v, CoseKeySet_to_value ks = Ok v /\ CoseKeySet_from_value v = Ok ks.
Proof. exact keyset_roundtrip. Qed.
Print Assumptions C11_keyset_roundtrip.

Theorem C11_party_roundtrip :
  forall p, party_wf p ->
  exists v, PartyInfo_to_value p = Ok v /\ PartyInfo_from_value v = Ok p.
Proof. exact party_roundtrip. Qed.
Print Assumptions C11_party_roundtrip.

Theorem C11_label_roundtrip :
  forall l, label_wf l -> label_from_value (label_to_value l) = Ok l.
Proof. exact label_roundtrip. Qed.
Print Assumptions C11_label_roundtrip.

(* through the bytes: definite-length output that an independent reading (de, proved inverse of ser) maps back *)
Theorem C11_bytes_roundtrip :
  forall (T : Type) (fromv : value -> res T) (tov : T -> res value) x v,
  tov x = Ok v -> fromv v = Ok x -> value_nf v = true -> (depth v <= 256)%nat ->
  exists b, to_vec tov x = Ok b /\ from_slice fromv b = Ok x.
Proof. exact bytes_roundtrip. Qed.
Print Assumptions C11_bytes_roundtrip.

(* claims sets *)
Theorem C11_claims_roundtrip :
  forall c, ClaimsAccept.claims_wf c -> exists v, ClaimsSet_to_value c = Ok v /\ ClaimsSet_from_value v = Ok c.
Proof. exact ClaimsAccept.claims_roundtrip. Qed.
Print Assumptions C11_claims_roundtrip.

(* headers, signatures, protected headers: a well-formed built value (bwf / sbwf / pbwf: field shapes,
   distinct non-standard extras, not both IVs, nested protected headers either carrying consistent
   bytes or encodable to wire-normal CBOR) encodes, and the output decodes to the value with its
   protected headers now carrying the bytes that encoding assigned *)
Theorem C11_header_encode_decode :
  forall n h, bwf n h ->
  exists v, header_to_value h = Ok v /\ header_at n v = Ok (assign_header h).
Proof. exact HeaderRoundTrip.header_encode_decode. Qed.
Print Assumptions C11_header_encode_decode.

Theorem C11_signature_encode_decode :
  forall n s, sbwf n s ->
  exists v, signature_to_value s = Ok v /\ signature_from_value (parse_prot_at n) v = Ok (assign_sig s).
Proof. exact HeaderRoundTrip.signature_encode_decode. Qed.
Print Assumptions C11_signature_encode_decode.

Theorem C11_protected_encode_decode :
  forall n p, pbwf n p ->
  exists d, protected_cbor_bstr p = Ok (VBytes d) /\
            protected_from_bstr (parse_prot_at n) (VBytes d) = Ok (assign_prot p).
Proof. exact HeaderRoundTrip.protected_encode_decode. Qed.
Print Assumptions C11_protected_encode_decode.

Theorem C11_flat_header_encode_decode :
  forall n h, h_csigs h = [] -> flat_wf h ->
  exists v, header_to_value h = Ok v /\ header_at n v = Ok h.
Proof. exact HeaderRoundTrip.flat_header_encode_decode. Qed.
Print Assumptions C11_flat_header_encode_decode.

Theorem C11_decoded_header_is_built :
  forall n v h, header_at n v = Ok h -> bwf n h /\ assign_header h = h.
Proof. exact HeaderRoundTrip.decoded_header_is_built. Qed.
Print Assumptions C11_decoded_header_is_built.

(* every message structure and the KDF types: well-formed built values (T_bwf: components bwf at
   the public nesting budget) encode, and the output decodes to the value with assigned protected bytes *)
Theorem C11_CoseSign1_encode_decode :
  forall m, CoseSign1_bwf m ->
  exists v, CoseSign1_to_value m = Ok v /\ CoseSign1_from_value v = Ok (assign_CoseSign1 m).
Proof. exact MsgRoundTrip.CoseSign1_encode_decode. Qed.
Print Assumptions C11_CoseSign1_encode_decode.

Theorem C11_CoseSign_encode_decode :
  forall m, CoseSign_bwf m ->
  exists v, CoseSign_to_value m = Ok v /\ CoseSign_from_value v = Ok (assign_CoseSign m).
Proof. exact MsgRoundTrip.CoseSign_encode_decode. Qed.
Print Assumptions C11_CoseSign_encode_decode.

Theorem C11_CoseMac_encode_decode :
  forall m, CoseMac_bwf m ->
  exists v, CoseMac_to_value m = Ok v /\ CoseMac_from_value v = Ok (assign_CoseMac m).
Proof. exact MsgRoundTrip.CoseMac_encode_decode. Qed.
Print Assumptions C11_CoseMac_encode_decode.

Theorem C11_CoseMac0_encode_decode :
  forall m, CoseMac0_bwf m ->
  exists v, CoseMac0_to_value m = Ok v /\ CoseMac0_from_value v = Ok (assign_CoseMac0 m).
Proof. exact MsgRoundTrip.CoseMac0_encode_decode. Qed.
Print Assumptions C11_CoseMac0_encode_decode.

Theorem C11_CoseEncrypt_encode_decode :
  forall m, CoseEncrypt_bwf m ->
  exists v, CoseEncrypt_to_value m = Ok v /\ CoseEncrypt_from_value v = Ok (assign_CoseEncrypt m).
Proof. exact MsgRoundTrip.CoseEncrypt_encode_decode. Qed.
Print Assumptions C11_CoseEncrypt_encode_decode.

Theorem C11_CoseEncrypt0_encode_decode :
  forall m, CoseEncrypt0_bwf m ->
  exists v, CoseEncrypt0_to_value m = Ok v /\ CoseEncrypt0_from_value v = Ok (assign_CoseEncrypt0 m).
Proof. exact MsgRoundTrip.CoseEncrypt0_encode_decode. Qed.
Print Assumptions C11_CoseEncrypt0_encode_decode.

Theorem C11_CoseRecipient_encode_decode :
  forall r, CoseRecipient_bwf r ->
  exists v, CoseRecipient_to_value r = Ok v /\ CoseRecipient_from_value v = Ok (assign_CoseRecipient r).
Proof. exact MsgRoundTrip.CoseRecipient_encode_decode. Qed.
Print Assumptions C11_CoseRecipient_encode_decode.

Theorem C11_SuppPubInfo_encode_decode :
  forall s, SuppPubInfo_bwf s ->
  exists v, SuppPubInfo_to_value s = Ok v /\ SuppPubInfo_from_value v = Ok (assign_SuppPubInfo s).
Proof. exact MsgRoundTrip.SuppPubInfo_encode_decode. Qed.
Print Assumptions C11_SuppPubInfo_encode_decode.

Theorem C11_CoseKdfContext_encode_decode :
  forall k, CoseKdfContext_bwf k ->
  exists v, CoseKdfContext_to_value k = Ok v /\ CoseKdfContext_from_value v = Ok (assign_CoseKdfContext k).
Proof. exact MsgRoundTrip.CoseKdfContext_encode_decode. Qed.
Print Assumptions C11_CoseKdfContext_encode_decode.

Theorem C11_messages_bytes_encode_decode :
  bytes_ed CoseSign1_from_value CoseSign1_to_value CoseSign1_bwf assign_CoseSign1 /\
  bytes_ed CoseSign_from_value CoseSign_to_value CoseSign_bwf assign_CoseSign /\
  bytes_ed CoseMac_from_value CoseMac_to_value CoseMac_bwf assign_CoseMac /\
  bytes_ed CoseMac0_from_value CoseMac0_to_value CoseMac0_bwf assign_CoseMac0 /\
  bytes_ed CoseEncrypt_from_value CoseEncrypt_to_value CoseEncrypt_bwf assign_CoseEncrypt /\
  bytes_ed CoseEncrypt0_from_value CoseEncrypt0_to_value CoseEncrypt0_bwf assign_CoseEncrypt0 /\
  bytes_ed CoseRecipient_from_value CoseRecipient_to_value CoseRecipient_bwf assign_CoseRecipient /\
  bytes_ed SuppPubInfo_from_value SuppPubInfo_to_value SuppPubInfo_bwf assign_SuppPubInfo /\
  bytes_ed CoseKdfContext_from_value CoseKdfContext_to_value CoseKdfContext_bwf assign_CoseKdfContext.
Proof. exact MsgRoundTrip.messages_bytes_encode_decode. Qed.
Print Assumptions C11_messages_bytes_encode_decode.

(* the well-formedness predicates are not vacuous: every decoded value satisfies them *)
Theorem C11_decoded_messages_are_built :
  (forall v m, CoseSign1_from_value v = Ok m -> CoseSign1_bwf m /\ assign_CoseSign1 m = m) /\
  (forall v m, CoseSign_from_value v = Ok m -> CoseSign_bwf m /\ assign_CoseSign m = m) /\
  (forall v m, CoseMac_from_value v = Ok m -> CoseMac_bwf m /\ assign_CoseMac m = m) /\
  (forall v m, CoseMac0_from_value v = Ok m -> CoseMac0_bwf m /\ assign_CoseMac0 m = m) /\
  (forall v m, CoseEncrypt_from_value v = Ok m -> CoseEncrypt_bwf m /\ assign_CoseEncrypt m = m) /\
  (forall v m, CoseEncrypt0_from_value v = Ok m -> CoseEncrypt0_bwf m /\ assign_CoseEncrypt0 m = m) /\
  (forall v m, CoseRecipient_from_value v = Ok m -> CoseRecipient_bwf m /\ assign_CoseRecipient m = m) /\
  (forall v m, SuppPubInfo_from_value v = Ok m -> SuppPubInfo_bwf m /\ assign_SuppPubInfo m = m) /\
  (forall v m, CoseKdfContext_from_value v = Ok m -> CoseKdfContext_bwf m /\ assign_CoseKdfContext m = m).
Proof. exact MsgRoundTrip.decoded_messages_are_built. Qed.
Print Assumptions C11_decoded_messages_are_built.

(* header-carrying types, slot level: an empty built protected header is the zero-length string,
   any other the bstr wrapping the encoded map, a decoded one its stored bytes *)
Theorem C11_protected_slot_shape :
  (forall ph p, p_orig ph = Some p -> protected_cbor_bstr ph = Ok (VBytes p)) /\
  (forall h, header_is_empty h = true -> protected_cbor_bstr (mkProtected None h) = Ok (VBytes [])) /\
  (forall h, header_is_empty h = false -> protected_cbor_bstr (mkProtected None h) = do v <- header_to_value h; Ok (VBytes (ser v))).
Proof. split; [exact protected_reencoded_verbatim|split]; intros h E; cbn; rewrite E; reflexivity. Qed.
Print Assumptions C11_protected_slot_shape.

(* the emptiness test cannot forget a field *)
Theorem C11_is_empty_iff_all_fields_empty :
  forall h, header_is_empty h = true <->
    h_alg h = None /\ h_crit h = [] /\ h_ctype h = None /\ h_kid h = [] /\ h_iv h = [] /\ h_piv h = [] /\ h_csigs h = [] /\ h_rest h = [].
Proof. intros [a c ct k i p cs r]. unfold header_is_empty. cbn.
  destruct a, c, ct, k, i, p, cs, r; cbn; split; intros H; try discriminate; try tauto;
  repeat match goal with H : _ /\ _ |- _ => destruct H end; try discriminate. Qed.
Print Assumptions C11_is_empty_iff_all_fields_empty.

(* encoding never emits a repeated key (headers, keys) and never panics *)
Theorem C11_header_and_key_maps_have_distinct_keys :
  (forall h m, header_to_value h = Ok (VMap m) -> NoDup (map fst m)) /\
  (forall k m, CoseKey_to_value k = Ok (VMap m) -> NoDup (map fst m)).
Proof. exact (conj header_encoding_has_distinct_keys key_encoding_has_distinct_keys). Qed.
Print Assumptions C11_header_and_key_maps_have_distinct_keys.

Example C11_nonvacuous :
  key_wf (mkKey (RAssigned 2) [x01] (Some (PAssigned (-7))) [RAssigned 1; RAssigned 2] [] [(LInt (-1), VInt 1)]).
Proof.
  apply (decoded_key_wf (VMap [(VInt 1, VInt 2); (VInt 2, VBytes [x01]); (VInt 3, VInt (-7));
                               (VInt 4, VArray [VInt 2; VInt 1]); (VInt (-1), VInt 1)])).
  vm_compute. reflexivity.
Qed.
