(* C11 - Encoding emits exactly the modelled content in the documented CBOR shape.
   PARTIAL: the full statement "wf x -> to_value x = Ok v /\ from_value v = Ok (assign x)" is proved
   for the types without protected headers (Label, PartyInfo, CoseKey, CoseKeySet, ClaimsSet) and,
   for the header-carrying types, in the slot-level form of C02 / C06 / C12 (protected slot =
   stored bytes | h'' | bstr(encoded map); distinct keys; payload nil/bstr slot). What is missing:
   the field-by-field round trip of Header (hence of the eight message types, SuppPubInfo and the
   KDF context) as one theorem; it is covered by the correspondence run, where the implementation
   must equal an independent Python encoder byte-for-byte and decode back to the original. *)
From Coset.Model Require Import Prelude Cbor Iana Label Msg Key Cwt Context Api.
From Coset.Proofs Require Import Head RoundTrip KeyAccept TypedRoundTrip NoDupLabels NoPanic Retained.
From Coset.Proofs Require ClaimsAccept.

(* a well-formed key encodes, and the output decodes to it *)
Theorem C11_key_roundtrip :
  forall k, key_wf k ->
  exists v, CoseKey_to_value k = Ok v /\ CoseKey_from_value v = Ok k.
Proof. exact key_roundtrip. Qed.
Print Assumptions C11_key_roundtrip.

Theorem C11_keyset_roundtrip :
  forall ks, Forall key_wf ks ->
  exists v, CoseKeySet_to_value ks = Ok v /\ CoseKeySet_from_value v = Ok ks.
Proof. exact keyset_roundtrip. Qed.
Print Assumptions C11_keyset_roundtrip.

Theorem C11_party_roundtrip :
  forall p, party_wf p ->
  exists v, PartyInfo_to_value p = Ok v /\ PartyInfo_from_value v = Ok p.
Proof. exact party_roundtrip. Qed.
Print Assumptions C11_party_roundtrip.

Theorem C11_label_roundtrip :
  forall l, label_wf l -> label_from_value (label_to_value l) = Ok l.
Proof. exact label_roundtrip. Qed.
Print Assumptions C11_label_roundtrip.

(* through the bytes: definite-length output that an independent reading (de, proved inverse of ser) maps back *)
Theorem C11_bytes_roundtrip :
  forall (T : Type) (fromv : value -> res T) (tov : T -> res value) x v,
  tov x = Ok v -> fromv v = Ok x -> value_nf v = true -> (depth v <= 256)%nat ->
  exists b, to_vec tov x = Ok b /\ from_slice fromv b = Ok x.
Proof. exact bytes_roundtrip. Qed.
Print Assumptions C11_bytes_roundtrip.

(* claims sets *)
Theorem C11_claims_roundtrip :
  forall c, ClaimsAccept.claims_wf c -> exists v, ClaimsSet_to_value c = Ok v /\ ClaimsSet_from_value v = Ok c.
Proof. exact ClaimsAccept.claims_roundtrip. Qed.
Print Assumptions C11_claims_roundtrip.

(* header-carrying types, slot level: an empty built protected header is the zero-length string,
   any other the bstr wrapping the encoded map, a decoded one its stored bytes *)
Theorem C11_protected_slot_shape :
  (forall ph p, p_orig ph = Some p -> protected_cbor_bstr ph = Ok (VBytes p)) /\
  (forall h, header_is_empty h = true -> protected_cbor_bstr (mkProtected None h) = Ok (VBytes [])) /\
  (forall h, header_is_empty h = false -> protected_cbor_bstr (mkProtected None h) = do v <- header_to_value h; Ok (VBytes (ser v))).
Proof. split; [exact protected_reencoded_verbatim|split]; intros h E; cbn; rewrite E; reflexivity. Qed.
Print Assumptions C11_protected_slot_shape.

(* the emptiness test cannot forget a field *)
Theorem C11_is_empty_iff_all_fields_empty :
  forall h, header_is_empty h = true <->
    h_alg h = None /\ h_crit h = [] /\ h_ctype h = None /\ h_kid h = [] /\ h_iv h = [] /\ h_piv h = [] /\ h_csigs h = [] /\ h_rest h = [].
Proof. intros [a c ct k i p cs r]. unfold header_is_empty. cbn.
  destruct a, c, ct, k, i, p, cs, r; cbn; split; intros H; try discriminate; try tauto;
  repeat match goal with H : _ /\ _ |- _ => destruct H end; try discriminate. Qed.
Print Assumptions C11_is_empty_iff_all_fields_empty.

(* encoding never emits a repeated key (headers, keys) and never panics *)
Theorem C11_header_and_key_maps_have_distinct_keys :
  (forall h m, header_to_value h = Ok (VMap m) -> NoDup (map fst m)) /\
  (forall k m, CoseKey_to_value k = Ok (VMap m) -> NoDup (map fst m)).
Proof. exact (conj header_encoding_has_distinct_keys key_encoding_has_distinct_keys). Qed.
Print Assumptions C11_header_and_key_maps_have_distinct_keys.

Example C11_nonvacuous :
  key_wf (mkKey (RAssigned 2) [x01] (Some (PAssigned (-7))) [RAssigned 1; RAssigned 2] [] [(LInt (-1), VInt 1)]).
Proof.
  apply (decoded_key_wf (VMap [(VInt 1, VInt 2); (VInt 2, VBytes [x01]); (VInt 3, VInt (-7));
                               (VInt 4, VArray [VInt 2; VInt 1]); (VInt (-1), VInt 1)])).
  vm_compute. reflexivity.
Qed.
