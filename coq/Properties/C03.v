(* C03 - To-be-signed bytes are exactly RFC 8152 Sig_structure. *)
From Coset.Model Require Import Prelude Cbor Iana Label Msg.
From Coset.Spec Require Import DetCbor Structures.
From Coset.Proofs Require Import Head Structures.

(* the general structure function: exactly the RFC's array in deterministic encoding; it panics
   exactly when a (built) protected header fails to serialise *)
Theorem C03_sig_structure_data_is_rfc8152 :
  forall c body sign aad pl,
    sig_structure_data c body sign aad pl =
      match protected_bytes body with
      | Ok b => match opt_protected_bytes sign with
                | Ok s => Ok (sig_structure (rfc_sig_ctx c) b s aad pl)
                | Err _ | Panic => Panic
                | OutOfFuel => OutOfFuel
                end
      | Err _ | Panic => Panic
      | OutOfFuel => OutOfFuel
      end.
Proof. exact sig_structure_data_spec. Qed.
Print Assumptions C03_sig_structure_data_is_rfc8152.

(* what a protected header contributes: wire bytes if decoded; else empty bstr / encoded map *)
Theorem C03_protected_slot :
  (forall parse v p, protected_from_bstr parse v = Ok p ->
     exists d, v = VBytes d /\ p_orig p = Some d /\ protected_bytes p = Ok d) /\
  (forall h, header_is_empty h = true -> protected_bytes (mkProtected None h) = Ok []) /\
  (forall h, header_is_empty h = false ->
     protected_bytes (mkProtected None h) = do v <- header_to_value h; Ok (ser v)).
Proof. exact (conj protected_bytes_decoded (conj protected_bytes_built_empty protected_bytes_built_nonempty)). Qed.
Print Assumptions C03_protected_slot.

(* context and slots used by each caller; detached payload occupies the payload slot; the
   documented panic of the detached variants *)
Theorem C03_callers :
  (forall m aad, Sign1_tbs_data m aad =
     sig_structure_data SigCoseSign1 (s1_prot m) None aad (match s1_payload m with Some b => b | None => [] end)) /\
  (forall m pl aad, Sign1_tbs_detached_data m pl aad =
     match s1_payload m with Some _ => Panic | None => sig_structure_data SigCoseSign1 (s1_prot m) None aad pl end) /\
  (forall m aad sg, Sign_tbs_data m aad sg =
     sig_structure_data SigCoseSignature (sn_prot m) (Some (s_prot sg)) aad (match sn_payload m with Some b => b | None => [] end)) /\
  (forall m pl aad sg, Sign_tbs_detached_data m pl aad sg =
     match sn_payload m with Some _ => Panic
     | None => sig_structure_data SigCoseSignature (sn_prot m) (Some (s_prot sg)) aad pl end) /\
  (forall (R : Type) m aad (f : bytes -> bytes -> R),
     Sign1_verify_signature m aad f = do tbs <- Sign1_tbs_data m aad; Ok (f (s1_sig m) tbs)) /\
  (forall (R : Type) m w aad (f : bytes -> bytes -> R),
     Sign_verify_signature m w aad f =
       do sg <- nth_res (sn_sigs m) w; do tbs <- Sign_tbs_data m aad sg; Ok (f (s_sig sg) tbs)) /\
  rfc_sig_ctx SigCoseSign1 = Signature1 /\ rfc_sig_ctx SigCoseSignature = Signature /\
  rfc_sig_ctx SigCounterSignature = CounterSignature.
Proof.
  exact (conj Sign1_tbs_data_eq (conj Sign1_tbs_detached_data_eq (conj Sign_tbs_data_eq (conj Sign_tbs_detached_data_eq
        (conj Sign1_verify_eq (conj Sign_verify_eq (conj eq_refl (conj eq_refl eq_refl)))))))).
Qed.
Print Assumptions C03_callers.

(* the context strings found in the source are the RFC's (regenerated on every run) *)
Theorem C03_context_strings_from_source :
  forall c, sig_context_text c = ascii_bytes (sig_ctx_string (rfc_sig_ctx c)).
Proof. exact sig_context_text_rfc. Qed.
Print Assumptions C03_context_strings_from_source.

(* domain separation: inputs that differ anywhere never share to-be-signed bytes *)
Theorem C03_sig_structure_injective :
  forall c b s aad pl c' b' s' aad' pl',
    short b -> (forall x, s = Some x -> short x) -> short aad -> short pl ->
    short b' -> (forall x, s' = Some x -> short x) -> short aad' -> short pl' ->
    sig_structure c b s aad pl = sig_structure c' b' s' aad' pl' ->
    c = c' /\ b = b' /\ s = s' /\ aad = aad' /\ pl = pl'.
Proof. exact sig_structure_injective. Qed.
Print Assumptions C03_sig_structure_injective.

Example C03_nonvacuous :
  sig_structure_data SigCoseSign1 (mkProtected (Some [xa1; x01; x26]) header_default) None [x41] [x42]
  = Ok (sig_structure Signature1 [xa1; x01; x26] None [x41] [x42])
  /\ short [xa1; x01; x26].
Proof. split; [reflexivity|]. unfold short, p64. cbn. Lia.lia. Qed.
