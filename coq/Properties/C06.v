(* C06 - What is signed, MACed or encrypted is what is later verified or decrypted.
   `st` is ANY builder state at the time of the creating call (this subsumes every history of
   builder calls before it); `m` is any later state that kept protected / payload / signature
   ("after its protected headers and payload were set"); decode success is a hypothesis in the first group of
   theorems and a CONCLUSION in the second group (suffix _total) for well-formed built values. *)
From Coset.Model Require Import Prelude Cbor Iana Label Msg Api Builders.
From Coset.Spec Require Import DetCbor Structures.
From Coset.Proofs Require Import Head RoundTrip Structures SignVerify.
From Coset.Proofs Require Import HeaderRoundTrip MsgRoundTrip.
From Coset.Proofs Require SignVerifyTotal.

(* COSE_Sign1, embedded payload: the verifier receives the stored signature and exactly the bytes the signer was given *)
Theorem C06_sign1_sign_then_verify :
  forall (st : sign1) (aad : bytes) (signer : closure1) (tbs sg : bytes) (m : sign1) (v : value) (m' : sign1)
         (R : Type) (verifier : bytes -> bytes -> R),
    Sign1_tbs_data st aad = Ok tbs -> signer tbs = Some sg ->
    s1_prot m = s1_prot st -> s1_payload m = s1_payload st -> s1_sig m = sg ->
    CoseSign1_to_value m = Ok v -> wire_ok v ->
    CoseSign1_from_value v = Ok m' ->
    Sign1_verify_signature m' aad verifier = Ok (verifier sg tbs).
Proof. exact sign1_sign_then_verify. Qed.
Print Assumptions C06_sign1_sign_then_verify.

(* detached payload supplied at both ends *)
Theorem C06_sign1_detached_sign_then_verify :
  forall (st : sign1) (pl aad : bytes) (signer : closure1) (tbs sg : bytes) (m : sign1) (v : value) (m' : sign1)
         (R : Type) (verifier : bytes -> bytes -> R),
    Sign1_tbs_detached_data st pl aad = Ok tbs -> signer tbs = Some sg ->
    s1_prot m = s1_prot st -> s1_payload m = s1_payload st -> s1_sig m = sg ->
    CoseSign1_to_value m = Ok v -> wire_ok v ->
    CoseSign1_from_value v = Ok m' ->
    Sign1_verify_detached_signature m' pl aad verifier = Ok (verifier sg tbs).
Proof. exact sign1_detached_sign_then_verify. Qed.
Print Assumptions C06_sign1_detached_sign_then_verify.

(* COSE_Sign: the signature added last is found at its index after the round trip *)
Theorem C06_sign_sign_then_verify :
  forall (st : sign) (s : signature) (aad : bytes) (signer : closure1) (tbs sg : bytes) (m : sign) (v : value)
         (m' : sign) (R : Type) (verifier : bytes -> bytes -> R),
    Sign_tbs_data st aad s = Ok tbs -> signer tbs = Some sg ->
    sn_prot m = sn_prot st -> sn_payload m = sn_payload st ->
    sn_sigs m = sn_sigs st ++ [mkSignature (s_prot s) (s_unprot s) sg] ->
    CoseSign_to_value m = Ok v -> wire_ok v ->
    CoseSign_from_value v = Ok m' ->
    Sign_verify_signature m' (length (sn_sigs st)) aad verifier = Ok (verifier sg tbs).
Proof. exact sign_sign_then_verify. Qed.
Print Assumptions C06_sign_sign_then_verify.

Theorem C06_mac0_create_then_verify :
  forall (st : mac0) (aad : bytes) (tagger : closure1) (tbm tg : bytes) (m : mac0) (v : value) (m' : mac0)
         (R : Type) (verify : bytes -> bytes -> R),
    Mac0_tbm st aad = Ok tbm -> tagger tbm = Some tg ->
    m0_prot m = m0_prot st -> m0_payload m = m0_payload st -> m0_tag m = tg ->
    CoseMac0_to_value m = Ok v -> wire_ok v ->
    CoseMac0_from_value v = Ok m' ->
    Mac0_verify_tag m' aad verify = Ok (verify tg tbm).
Proof. exact mac0_create_then_verify. Qed.
Print Assumptions C06_mac0_create_then_verify.

Theorem C06_mac_create_then_verify :
  forall (st : mac) (aad : bytes) (tagger : closure1) (tbm tg : bytes) (m : mac) (v : value) (m' : mac)
         (R : Type) (verify : bytes -> bytes -> R),
    Mac_tbm st aad = Ok tbm -> tagger tbm = Some tg ->
    mc_prot m = mc_prot st -> mc_payload m = mc_payload st -> mc_tag m = tg ->
    CoseMac_to_value m = Ok v -> wire_ok v ->
    CoseMac_from_value v = Ok m' ->
    Mac_verify_tag m' aad verify = Ok (verify tg tbm).
Proof. exact mac_create_then_verify. Qed.
Print Assumptions C06_mac_create_then_verify.

Theorem C06_encrypt0_create_then_decrypt :
  forall (st : encrypt0) (pt aad : bytes) (enc : closure2) (a ct : bytes) (m : encrypt0) (v : value) (m' : encrypt0)
         (R : Type) (cipher : bytes -> bytes -> R),
    enc_structure_data EncCoseEncrypt0 (e0_prot st) aad = Ok a -> enc pt a = Some ct ->
    e0_prot m = e0_prot st -> e0_ct m = Some ct ->
    CoseEncrypt0_to_value m = Ok v -> wire_ok v ->
    CoseEncrypt0_from_value v = Ok m' ->
    Encrypt0_decrypt m' aad cipher = Ok (cipher ct a).
Proof. exact encrypt0_create_then_decrypt. Qed.
Print Assumptions C06_encrypt0_create_then_decrypt.

Theorem C06_encrypt_create_then_decrypt :
  forall (st : encrypt) (pt aad : bytes) (enc : closure2) (a ct : bytes) (m : encrypt) (v : value) (m' : encrypt)
         (R : Type) (cipher : bytes -> bytes -> R),
    enc_structure_data EncCoseEncrypt (en_prot st) aad = Ok a -> enc pt a = Some ct ->
    en_prot m = en_prot st -> en_ct m = Some ct ->
    CoseEncrypt_to_value m = Ok v -> wire_ok v ->
    CoseEncrypt_from_value v = Ok m' ->
    Encrypt_decrypt m' aad cipher = Ok (cipher ct a).
Proof. exact encrypt_create_then_decrypt. Qed.
Print Assumptions C06_encrypt_create_then_decrypt.

Theorem C06_recipient_create_then_decrypt :
  forall (st : recipient) (c : enc_context) (pt aad : bytes) (enc : closure2) (a ct : bytes) (m : recipient)
         (v : value) (m' : recipient) (R : Type) (cipher : bytes -> bytes -> R),
    is_recipient_context c = true ->
    enc_structure_data c (r_prot st) aad = Ok a -> enc pt a = Some ct ->
    r_prot m = r_prot st -> r_ct m = Some ct ->
    CoseRecipient_to_value m = Ok v -> wire_ok v ->
    CoseRecipient_from_value v = Ok m' ->
    Recipient_decrypt m' c aad cipher = Ok (cipher ct a).
Proof. exact recipient_create_then_decrypt. Qed.
Print Assumptions C06_recipient_create_then_decrypt.

(* the same through the wire bytes (untagged and tagged) *)
Theorem C06_sign1_roundtrip_bytes :
  forall (st : sign1) (aad : bytes) (signer : closure1) (tbs sg : bytes) (m : sign1) (v : value) (b : bytes)
         (m' : sign1) (R : Type) (verifier : bytes -> bytes -> R),
    Sign1_tbs_data st aad = Ok tbs -> signer tbs = Some sg ->
    s1_prot m = s1_prot st -> s1_payload m = s1_payload st -> s1_sig m = sg ->
    CoseSign1_to_value m = Ok v -> wire_ok v ->
    to_vec CoseSign1_to_value m = Ok b -> from_slice CoseSign1_from_value b = Ok m' ->
    Sign1_verify_signature m' aad verifier = Ok (verifier sg tbs).
Proof. exact sign1_roundtrip_bytes. Qed.
Print Assumptions C06_sign1_roundtrip_bytes.

Theorem C06_sign1_roundtrip_tagged_bytes :
  forall (st : sign1) (aad : bytes) (signer : closure1) (tbs sg : bytes) (m : sign1) (v : value) (b : bytes)
         (m' : sign1) (R : Type) (verifier : bytes -> bytes -> R),
    Sign1_tbs_data st aad = Ok tbs -> signer tbs = Some sg ->
    s1_prot m = s1_prot st -> s1_payload m = s1_payload st -> s1_sig m = sg ->
    CoseSign1_to_value m = Ok v -> wire_ok v ->
    to_tagged_vec CoseSign1_to_value (tag_of "CoseSign1") m = Ok b ->
    from_tagged_slice CoseSign1_from_value (tag_of "CoseSign1") b = Ok m' ->
    Sign1_verify_signature m' aad verifier = Ok (verifier sg tbs).
Proof. exact sign1_roundtrip_tagged_bytes. Qed.
Print Assumptions C06_sign1_roundtrip_tagged_bytes.

(* a failing creator function in a fallible variant yields its error and no message *)
Theorem C06_failing_creator_yields_no_message :
  forall st aad f tbs,
  Sign1_tbs_data st aad = Ok tbs -> f tbs = None ->
  sign1_builder_step st (S1_try_create_signature aad f) = Err EEncode.
Proof. exact failing_creator_yields_no_message. Qed.
Print Assumptions C06_failing_creator_yields_no_message.

(* any change to context, either protected header, AAD or payload changes the bytes handed over *)
Theorem C06_tbs_sensitive :
  forall c b s aad pl c' b' s' aad' pl',
  short b -> (forall x, s = Some x -> short x) -> short aad -> short pl ->
  short b' -> (forall x, s' = Some x -> short x) -> short aad' -> short pl' ->
  (c, b, s, aad, pl) <> (c', b', s', aad', pl') ->
  sig_structure c b s aad pl <> sig_structure c' b' s' aad' pl'.
Proof. exact tbs_sensitive. Qed.
Print Assumptions C06_tbs_sensitive.

Theorem C06_tbm_sensitive :
  forall c p aad pl c' p' aad' pl',
  short p -> short aad -> short pl -> short p' -> short aad' -> short pl' ->
  (c, p, aad, pl) <> (c', p', aad', pl') ->
  mac_structure c p aad pl <> mac_structure c' p' aad' pl'.
Proof. exact tbm_sensitive. Qed.
Print Assumptions C06_tbm_sensitive.

Theorem C06_aad_sensitive :
  forall c p aad c' p' aad',
  short p -> short aad -> short p' -> short aad' ->
  (c, p, aad) <> (c', p', aad') ->
  enc_structure c p aad <> enc_structure c' p' aad'.
Proof. exact aad_sensitive. Qed.
Print Assumptions C06_aad_sensitive.

Example C06_nonvacuous :
  let st := mkSign1 (mkProtected None (mkHeader (Some (PAssigned (-7))) [] None [] [] [] [] [])) header_default (Some [x70]) [] in
  exists tbs, Sign1_tbs_data st [x01] = Ok tbs /\
    sign1_builder_step st (S1_create_signature [x01] (fun t => Some (x73 :: t))) = Ok (mkSign1 (s1_prot st) (s1_unprot st) (s1_payload st) (x73 :: tbs)).
Proof. eexists. split; vm_compute; reflexivity. Qed.

(* ===== total form (Proofs/SignVerifyTotal.v): for a well-formed built message (T_bwf, shown
   satisfiable by every decoded value and by the literals of the examples there) encoding and decoding
   are CONCLUSIONS: the whole chain create -> serialise -> parse -> verify/decrypt succeeds ===== *)
Theorem C06_sign1_sign_then_verify_total :
  forall (st : sign1) (aad : bytes) (signer : closure1) (tbs sg : bytes) (m : sign1)
         (R : Type) (verifier : bytes -> bytes -> R),
    Sign1_tbs_data st aad = Ok tbs -> signer tbs = Some sg ->
    s1_prot m = s1_prot st -> s1_payload m = s1_payload st -> s1_sig m = sg ->
    CoseSign1_bwf m ->
    exists v m', CoseSign1_to_value m = Ok v /\ CoseSign1_from_value v = Ok m' /\
                 Sign1_verify_signature m' aad verifier = Ok (verifier sg tbs).
Proof. exact SignVerifyTotal.sign1_sign_then_verify_total. Qed.
Print Assumptions C06_sign1_sign_then_verify_total.

Theorem C06_sign1_detached_sign_then_verify_total :
  forall (st : sign1) (pl aad : bytes) (signer : closure1) (tbs sg : bytes) (m : sign1)
         (R : Type) (verifier : bytes -> bytes -> R),
    Sign1_tbs_detached_data st pl aad = Ok tbs -> signer tbs = Some sg ->
    s1_prot m = s1_prot st -> s1_payload m = s1_payload st -> s1_sig m = sg ->
    CoseSign1_bwf m ->
    exists v m', CoseSign1_to_value m = Ok v /\ CoseSign1_from_value v = Ok m' /\
                 Sign1_verify_detached_signature m' pl aad verifier = Ok (verifier sg tbs).
Proof. exact SignVerifyTotal.sign1_detached_sign_then_verify_total. Qed.
Print Assumptions C06_sign1_detached_sign_then_verify_total.

Theorem C06_sign_sign_then_verify_total :
  forall (st : sign) (s : signature) (aad : bytes) (signer : closure1) (tbs sg : bytes) (m : sign)
         (R : Type) (verifier : bytes -> bytes -> R),
    Sign_tbs_data st aad s = Ok tbs -> signer tbs = Some sg ->
    sn_prot m = sn_prot st -> sn_payload m = sn_payload st ->
    sn_sigs m = sn_sigs st ++ [mkSignature (s_prot s) (s_unprot s) sg] ->
    CoseSign_bwf m ->
    exists v m', CoseSign_to_value m = Ok v /\ CoseSign_from_value v = Ok m' /\
                 Sign_verify_signature m' (length (sn_sigs st)) aad verifier = Ok (verifier sg tbs).
Proof. exact SignVerifyTotal.sign_sign_then_verify_total. Qed.
Print Assumptions C06_sign_sign_then_verify_total.

Theorem C06_mac0_create_then_verify_total :
  forall (st : mac0) (aad : bytes) (tagger : closure1) (tbm tg : bytes) (m : mac0)
         (R : Type) (verify : bytes -> bytes -> R),
    Mac0_tbm st aad = Ok tbm -> tagger tbm = Some tg ->
    m0_prot m = m0_prot st -> m0_payload m = m0_payload st -> m0_tag m = tg ->
    CoseMac0_bwf m ->
    exists v m', CoseMac0_to_value m = Ok v /\ CoseMac0_from_value v = Ok m' /\
                 Mac0_verify_tag m' aad verify = Ok (verify tg tbm).
Proof. exact SignVerifyTotal.mac0_create_then_verify_total. Qed.
Print Assumptions C06_mac0_create_then_verify_total.

Theorem C06_mac_create_then_verify_total :
  forall (st : mac) (aad : bytes) (tagger : closure1) (tbm tg : bytes) (m : mac)
         (R : Type) (verify : bytes -> bytes -> R),
    Mac_tbm st aad = Ok tbm -> tagger tbm = Some tg ->
    mc_prot m = mc_prot st -> mc_payload m = mc_payload st -> mc_tag m = tg ->
    CoseMac_bwf m ->
    exists v m', CoseMac_to_value m = Ok v /\ CoseMac_from_value v = Ok m' /\
                 Mac_verify_tag m' aad verify = Ok (verify tg tbm).
Proof. exact SignVerifyTotal.mac_create_then_verify_total. Qed.
Print Assumptions C06_mac_create_then_verify_total.

Theorem C06_encrypt0_create_then_decrypt_total :
  forall (st : encrypt0) (pt aad : bytes) (enc : closure2) (a ct : bytes) (m : encrypt0)
         (R : Type) (cipher : bytes -> bytes -> R),
    enc_structure_data EncCoseEncrypt0 (e0_prot st) aad = Ok a -> enc pt a = Some ct ->
    e0_prot m = e0_prot st -> e0_ct m = Some ct ->
    CoseEncrypt0_bwf m ->
    exists v m', CoseEncrypt0_to_value m = Ok v /\ CoseEncrypt0_from_value v = Ok m' /\
                 Encrypt0_decrypt m' aad cipher = Ok (cipher ct a).
Proof. exact SignVerifyTotal.encrypt0_create_then_decrypt_total. Qed.
Print Assumptions C06_encrypt0_create_then_decrypt_total.

Theorem C06_encrypt_create_then_decrypt_total :
  forall (st : encrypt) (pt aad : bytes) (enc : closure2) (a ct : bytes) (m : encrypt)
         (R : Type) (cipher : bytes -> bytes -> R),
    enc_structure_data EncCoseEncrypt (en_prot st) aad = Ok a -> enc pt a = Some ct ->
    en_prot m = en_prot st -> en_ct m = Some ct ->
    CoseEncrypt_bwf m ->
    exists v m', CoseEncrypt_to_value m = Ok v /\ CoseEncrypt_from_value v = Ok m' /\
                 Encrypt_decrypt m' aad cipher = Ok (cipher ct a).
Proof. exact SignVerifyTotal.encrypt_create_then_decrypt_total. Qed.
Print Assumptions C06_encrypt_create_then_decrypt_total.

Theorem C06_recipient_create_then_decrypt_total :
  forall (st : recipient) (c : enc_context) (pt aad : bytes) (enc : closure2) (a ct : bytes) (m : recipient)
         (R : Type) (cipher : bytes -> bytes -> R),
    is_recipient_context c = true ->
    enc_structure_data c (r_prot st) aad = Ok a -> enc pt a = Some ct ->
    r_prot m = r_prot st -> r_ct m = Some ct ->
    CoseRecipient_bwf m ->
    exists v m', CoseRecipient_to_value m = Ok v /\ CoseRecipient_from_value v = Ok m' /\
                 Recipient_decrypt m' c aad cipher = Ok (cipher ct a).
Proof. exact SignVerifyTotal.recipient_create_then_decrypt_total. Qed.
Print Assumptions C06_recipient_create_then_decrypt_total.

Theorem C06_sign1_roundtrip_bytes_total :
  forall (st : sign1) (aad : bytes) (signer : closure1) (tbs sg : bytes) (m : sign1)
         (R : Type) (verifier : bytes -> bytes -> R),
    Sign1_tbs_data st aad = Ok tbs -> signer tbs = Some sg ->
    s1_prot m = s1_prot st -> s1_payload m = s1_payload st -> s1_sig m = sg ->
    CoseSign1_bwf m -> (forall v, CoseSign1_to_value m = Ok v -> wire_ok v) ->
    exists b m', to_vec CoseSign1_to_value m = Ok b /\ from_slice CoseSign1_from_value b = Ok m' /\
                 Sign1_verify_signature m' aad verifier = Ok (verifier sg tbs).
Proof. exact SignVerifyTotal.sign1_roundtrip_bytes_total. Qed.
Print Assumptions C06_sign1_roundtrip_bytes_total.

Theorem C06_sign1_roundtrip_tagged_bytes_total :
  forall (st : sign1) (aad : bytes) (signer : closure1) (tbs sg : bytes) (m : sign1)
         (R : Type) (verifier : bytes -> bytes -> R),
    Sign1_tbs_data st aad = Ok tbs -> signer tbs = Some sg ->
    s1_prot m = s1_prot st -> s1_payload m = s1_payload st -> s1_sig m = sg ->
    CoseSign1_bwf m -> (forall v, CoseSign1_to_value m = Ok v -> wire_ok v) ->
    exists b m', to_tagged_vec CoseSign1_to_value (tag_of "CoseSign1") m = Ok b /\
                 from_tagged_slice CoseSign1_from_value (tag_of "CoseSign1") b = Ok m' /\
                 Sign1_verify_signature m' aad verifier = Ok (verifier sg tbs).
Proof. exact SignVerifyTotal.sign1_roundtrip_tagged_bytes_total. Qed.
Print Assumptions C06_sign1_roundtrip_tagged_bytes_total.

Theorem C06_sign1_builder_sign_then_verify_total :
  forall (st : sign1) (aad : bytes) (signer : closure1) (R : Type) (verifier : bytes -> bytes -> R),
    CoseSign1_bwf st -> (forall x, signer x <> None) ->
    exists tbs sg m v m',
      Sign1_tbs_data st aad = Ok tbs /\ signer tbs = Some sg /\
      sign1_builder_step st (S1_create_signature aad signer) = Ok m /\
      CoseSign1_to_value m = Ok v /\ CoseSign1_from_value v = Ok m' /\
      Sign1_verify_signature m' aad verifier = Ok (verifier sg tbs).
Proof. exact SignVerifyTotal.sign1_builder_sign_then_verify_total. Qed.
Print Assumptions C06_sign1_builder_sign_then_verify_total.

