(* C08 - Header maps: accepted iff well-formed, and every field means what the wire said. *)
From Coset.Model Require Import Prelude Cbor Iana Label Msg Api.
From Coset.Spec Require Import Accept.
From Coset.Proofs Require Import Loop HeaderAccept.

(* header_spec (Spec/Accept.v) is order-insensitive: a map whose keys are i64 integers or texts,
   pairwise distinct, each present standard parameter (labels 1..7) of its RFC 8152 3.1 shape,
   IV and Partial IV not both present; the typed fields are the values found by lookup under
   their labels, absent ones empty/None, and all other pairs are kept unchanged in wire order.
   The acceptor of a nested COSE_Signature is the decoder's own (characterised in C09). *)
Theorem C08_header_accepted_iff_well_formed :
  forall parse_prot v h,
    header_from_value parse_prot v = Ok h <->
    header_spec (registered T_Algorithm) (registered T_HeaderParameter) (registered T_CoapContentFormat)
                (fun x => to_opt (signature_from_value parse_prot x)) v = Some h.
Proof. exact header_from_value_accept_iff. Qed.
Print Assumptions C08_header_accepted_iff_well_formed.

(* the public entry point is that decoder at nesting depth 0 *)
Theorem C08_public_entry_point :
  forall v, Header_from_value v = header_from_value (parse_prot_at nest_limit) v.
Proof. intros v. unfold Header_from_value. destruct nest_limit; reflexivity. Qed.
Print Assumptions C08_public_entry_point.

(* key normalisation and distinctness, in terms of lists *)
Theorem C08_keys_and_distinctness :
  (forall m lm, labels m = Ok lm <-> key_labels m = Some lm) /\
  (forall ls, distinct ls = true <-> NoDup ls) /\
  (forall l lm, find l lm = lookup l lm).
Proof. exact (conj keys_match (conj distinct_NoDup find_lookup)). Qed.
Print Assumptions C08_keys_and_distinctness.

(* the decoder is a function of the CBOR data-model value: two encodings that parse to the same
   value give the same outcome (together with C13: parsing is a function of the bytes) *)
Theorem C08_encoding_independent :
  forall b1 b2 v, read_to_value b1 = Ok v -> read_to_value b2 = Ok v ->
    from_slice Header_from_value b1 = from_slice Header_from_value b2.
Proof. intros b1 b2 v H1 H2. unfold from_slice. now rewrite H1, H2. Qed.
Print Assumptions C08_encoding_independent.

Example C08_nonvacuous :
  (exists h, Header_from_value (VMap [(VInt 6, VBytes [x01]); (VText [x61], VInt 1); (VInt 1, VInt (-7))]) = Ok h
             /\ h_piv h = [x01] /\ h_alg h = Some (PAssigned (-7)) /\ h_rest h = [(LText [x61], VInt 1)])
  /\ Header_from_value (VMap [(VInt 5, VBytes [x01]); (VInt 6, VBytes [x02])]) = Err EUnexpected
  /\ Header_from_value (VMap [(VInt 6, VBytes [x02]); (VInt 5, VBytes [x01])]) = Err EUnexpected.
Proof. split; [eexists; split; [vm_compute; reflexivity|repeat split]|split; vm_compute; reflexivity]. Qed.
