(* C20 - Canonicalising a key sorts its encoding and changes nothing else. *)
From Coq Require Import Permutation Sorted.
From Coset.Model Require Import Prelude Cbor Iana Label Msg Key.
From Coset.Spec Require Import DetCbor.
From Coset.Proofs Require Import Order Canon.
Open Scope Z_scope.

(* only the order of the extra parameters changes: same pairs, every typed field untouched *)
Theorem C20_changes_nothing_else :
  forall o k,
    Permutation (k_params (canonicalize o k)) (k_params k) /\ k_kty (canonicalize o k) = k_kty k /\
    k_kid (canonicalize o k) = k_kid k /\ k_alg (canonicalize o k) = k_alg k /\
    k_ops (canonicalize o k) = k_ops k /\ k_base_iv (canonicalize o k) = k_base_iv k.
Proof. exact canonicalize_only_reorders. Qed.
Print Assumptions C20_changes_nothing_else.

(* the emitted map is strictly ascending in the chosen order of the encoded keys, for every
   well-formed key without an extra parameter labelled Int(0) (see C20_label0_refuted) *)
Theorem C20_encoding_sorted :
  forall o k, params_wf k -> (forall e, In e (k_params k) -> fst e <> LInt 0) ->
    exists m, CoseKey_to_value (canonicalize o k) = Ok (VMap m) /\
              StronglySorted (fun a b => enc_cmp o a b = Lt) (map (fun kv => ser (fst kv)) m).
Proof. exact canonical_key_encoding_sorted. Qed.
Print Assumptions C20_encoding_sorted.

Theorem C20_params_sorted_and_idempotent :
  (forall o k, params_wf k -> StronglySorted (fun a b => ord_cmp o (fst a) (fst b) = Lt) (k_params (canonicalize o k))) /\
  (forall o k, params_wf k -> canonicalize o (canonicalize o k) = canonicalize o k) /\
  (forall o a b, label_in_range a -> label_in_range b -> ord_cmp o a b = enc_cmp o (det_label a) (det_label b)).
Proof. exact (conj canonicalize_sorts_params (conj canonicalize_idempotent ord_cmp_enc)). Qed.
Print Assumptions C20_params_sorted_and_idempotent.

(* known finding F3: with an extra label Int(0) the emitted keys are not sorted *)
Theorem C20_label0_refuted :
  let k := mkKey (RAssigned 1) [] None [] [] [(LInt 0, VInt 9); (LInt (-1), VInt 3)] in
  to_vec_bytes (canonicalize Lexicographic k) = Ok [xa3; x01; x01; x00; x09; x20; x03].
Proof. exact canonical_label0_refuted. Qed.
Print Assumptions C20_label0_refuted.

Example C20_nonvacuous :
  params_wf (mkKey (RAssigned 2) [] None [] [] [(LText [x61], VNull); (LInt (-1), VInt 1); (LInt 24, VNull)])
  /\ k_params (canonicalize Lexicographic (mkKey (RAssigned 2) [] None [] [] [(LText [x61], VNull); (LInt (-1), VInt 1); (LInt 24, VNull)]))
     = [(LInt 24, VNull); (LInt (-1), VInt 1); (LText [x61], VNull)].
Proof.
  split; [|reflexivity]. unfold params_wf. cbn. split.
  - repeat constructor; cbn; intuition discriminate.
  - repeat constructor; cbn; try Lia.lia; try (unfold p64; cbn; Lia.lia); intros z [= <-]; Lia.lia.
Qed.
