(* C05 - AEAD additional data is exactly RFC 8152 Enc_structure. *)
From Coset.Model Require Import Prelude Cbor Iana Label Msg.
From Coset.Spec Require Import DetCbor Structures.
From Coset.Proofs Require Import Head Structures.

Theorem C05_enc_structure_data_is_rfc8152 :
  forall c p aad,
    enc_structure_data c p aad =
      match protected_bytes p with
      | Ok b => Ok (enc_structure (rfc_enc_ctx c) b aad)
      | Err _ | Panic => Panic
      | OutOfFuel => OutOfFuel
      end.
Proof. exact enc_structure_data_spec. Qed.
Print Assumptions C05_enc_structure_data_is_rfc8152.

(* routing of the five contexts; refusal of a non-recipient context and of a missing ciphertext *)
Theorem C05_callers :
  (forall (R : Type) m aad (f : bytes -> bytes -> R),
     Encrypt_decrypt m aad f =
       match en_ct m with None => Panic
       | Some ct => do a <- enc_structure_data EncCoseEncrypt (en_prot m) aad; Ok (f ct a) end) /\
  (forall (R : Type) m aad (f : bytes -> bytes -> R),
     Encrypt0_decrypt m aad f =
       match e0_ct m with None => Panic
       | Some ct => do a <- enc_structure_data EncCoseEncrypt0 (e0_prot m) aad; Ok (f ct a) end) /\
  (forall (R : Type) m c aad (f : bytes -> bytes -> R),
     Recipient_decrypt m c aad f =
       match r_ct m with
       | None => Panic
       | Some ct => match c with
                    | EncEncRecipient | EncMacRecipient | EncRecRecipient =>
                        do a <- enc_structure_data c (r_prot m) aad; Ok (f ct a)
                    | _ => Panic
                    end
       end) /\
  rfc_enc_ctx EncCoseEncrypt = Encrypt /\ rfc_enc_ctx EncCoseEncrypt0 = Encrypt0 /\
  rfc_enc_ctx EncEncRecipient = Enc_Recipient /\ rfc_enc_ctx EncMacRecipient = Mac_Recipient /\
  rfc_enc_ctx EncRecRecipient = Rec_Recipient.
Proof.
  exact (conj Encrypt_decrypt_eq (conj Encrypt0_decrypt_eq (conj Recipient_decrypt_eq
        (conj eq_refl (conj eq_refl (conj eq_refl (conj eq_refl eq_refl))))))).
Qed.
Print Assumptions C05_callers.

Theorem C05_context_strings_from_source :
  forall c, enc_context_text c = ascii_bytes (enc_ctx_string (rfc_enc_ctx c)).
Proof. exact enc_context_text_rfc. Qed.
Print Assumptions C05_context_strings_from_source.

Theorem C05_enc_structure_injective :
  forall c p aad c' p' aad',
    short p -> short aad -> short p' -> short aad' ->
    enc_structure c p aad = enc_structure c' p' aad' -> c = c' /\ p = p' /\ aad = aad'.
Proof. exact enc_structure_injective. Qed.
Print Assumptions C05_enc_structure_injective.

Example C05_nonvacuous :
  enc_structure_data EncRecRecipient (mkProtected (Some [xa0]) header_default) [x01]
  = Ok (enc_structure Rec_Recipient [xa0] [x01]).
Proof. reflexivity. Qed.
