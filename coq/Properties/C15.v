(* C15 - Integers are decoded exactly or rejected as out of range, never wrapped. *)
From Coset.Model Require Import Prelude Cbor Iana Label Msg Key Cwt Context.
From Coset.Proofs Require Import Head Widths Integers.
Open Scope Z_scope.

Theorem C15_narrowing_is_exact_or_out_of_range :
  (forall z, in_i64 z = true <-> I64 z) /\ (forall z, in_u64 z = true <-> U64 z) /\
  (forall z, label_from_value (VInt z) = if in_i64 z then Ok (LInt z) else Err ERange) /\
  (forall t z, reg_from_value t (VInt z) =
     if in_i64 z then (if registered t z then Ok (RAssigned z) else Err EUnreg) else Err ERange) /\
  (forall reg z, regp_from_value reg (VInt z) =
     if in_i64 z then (if registered (table_of reg) z then Ok (PAssigned z)
                       else if is_private reg z then Ok (PPrivate z) else Err EUnregNonPriv)
     else Err ERange) /\
  (forall z, Timestamp_from_value (VInt z) = if in_i64 z then Ok (WholeSeconds z) else Err ERange) /\
  (forall z, PartyInfo_from_value (VArray [VNull; VInt z; VNull]) =
     if in_i64 z then Ok (mkParty None (Some (NonceInteger z)) None) else Err ERange) /\
  (forall z, SuppPubInfo_from_value (VArray [VInt z; VBytes []]) =
     if in_u64 z then Ok (mkSupp z (mkProtected (Some []) header_default) None) else Err ERange).
Proof.
  exact (conj in_i64_iff (conj in_u64_iff (conj label_int_exact (conj reg_int_exact (conj regp_int_exact
        (conj timestamp_int_exact (conj party_nonce_exact key_data_length_exact))))))).
Qed.
Print Assumptions C15_narrowing_is_exact_or_out_of_range.

Theorem C15_encodes_back :
  (forall z, label_to_value (LInt z) = VInt z) /\ (forall z, Timestamp_to_value (WholeSeconds z) = VInt z) /\
  (forall z f bud r, CBOR_INT z -> de (S (S f)) bud (ser (VInt z) ++ r) = Ok (VInt z, r)).
Proof. exact (conj label_int_encodes (conj timestamp_int_encodes int_roundtrip)). Qed.
Print Assumptions C15_encodes_back.

(* at byte level every head width, and both bignum spellings, denote the same integer *)
Theorem C15_every_width_same_integer :
  (forall f bud n w r, width_ok n w -> de (S f) bud (head_w 0 n w ++ r) = Ok (VInt (Z.of_N n), r)) /\
  (forall f bud n w r, width_ok n w -> de (S f) bud (head_w 1 n w ++ r) = Ok (VInt (-1 - Z.of_N n), r)) /\
  (forall f bud body wt wl r, (List.length body <= 16)%nat -> width_ok 2 wt -> width_ok (N.of_nat (List.length body)) wl ->
     (unbe body < p64)%N ->
     de (S f) bud (head_w 6 2 wt ++ head_w 2 (N.of_nat (List.length body)) wl ++ body ++ r) = Ok (VInt (Z.of_N (unbe body)), r)) /\
  (forall f bud body wt wl r, (List.length body <= 16)%nat -> width_ok 3 wt -> width_ok (N.of_nat (List.length body)) wl ->
     (unbe body < p64)%N ->
     de (S f) bud (head_w 6 3 wt ++ head_w 2 (N.of_nat (List.length body)) wl ++ body ++ r) = Ok (VInt (-1 - Z.of_N (unbe body)), r)).
Proof. exact (conj de_uint_any_width (conj de_nint_any_width (conj de_bignum_pos de_bignum_neg))). Qed.
Print Assumptions C15_every_width_same_integer.

Example C15_nonvacuous :
  label_from_value (VInt 9223372036854775808) = Err ERange /\
  label_from_value (VInt (-9223372036854775808)) = Ok (LInt (-9223372036854775808)) /\
  width_ok 5 8 /\ I64 (-1) /\ ~ I64 9223372036854775808.
Proof.
  split; [reflexivity|]. split; [reflexivity|]. split.
  - unfold width_ok, p64. right; right; right; right. split; [reflexivity|]. reflexivity.
  - unfold I64. split; Lia.lia.
Qed.

(* known finding F6: the out-of-range error of a nested COSE_Signature is masked by COSE_Sign (every error of a
   signatures entry becomes UnexpectedItem); the same signature on its own, or as a counter-signature, reports it *)
Definition f6_sig : value := VArray [VBytes []; VMap [(VInt 9223372036854775808, VInt 0)]; VBytes []].
Theorem C15_sign_nested_range_masked_refuted :
  CoseSignature_from_value f6_sig = Err ERange /\
  CoseSign_from_value (VArray [VBytes []; VMap []; VNull; VArray [f6_sig]]) = Err EUnexpected /\
  CoseSign1_from_value (VArray [VBytes []; VMap [(VInt 7, f6_sig)]; VNull; VBytes []]) = Err ERange /\
  CoseMac_from_value (VArray [VBytes []; VMap []; VNull; VBytes [];
                              VArray [VArray [VBytes []; VMap [(VInt 9223372036854775808, VInt 0)]; VNull]]]) = Err ERange.
Proof. repeat split; vm_compute; reflexivity. Qed.
Print Assumptions C15_sign_nested_range_masked_refuted.
