(* C16 - Label ordering is a total order equal to CBOR's deterministic key ordering.
   Statements only; proofs are in Proofs/Order.v. *)
From Coset.Model Require Import Prelude Cbor Iana Label Msg Api.
From Coset.Spec Require Import DetCbor.
From Coset.Proofs Require Import Head Order.
Open Scope Z_scope.

(* the byte-level encoder of labels is the RFC 8949 deterministic encoding *)
Theorem C16_label_to_vec_is_deterministic_encoding :
  forall l, to_vec Label_to_value l = Ok (det_label l).
Proof. intros l. unfold to_vec, Label_to_value. cbn. now rewrite ser_label. Qed.
Print Assumptions C16_label_to_vec_is_deterministic_encoding.

(* Ord for Label = bytewise lexicographic order of the encodings (all i64 integers, all texts
   shorter than 2^64 bytes) *)
Theorem C16_label_cmp_is_lexicographic :
  forall a b, label_in_range a -> label_in_range b ->
    label_cmp a b = lex (det_label a) (det_label b).
Proof. exact label_cmp_is_lex. Qed.
Print Assumptions C16_label_cmp_is_lexicographic.

Theorem C16_cmp_canonical_is_length_first :
  forall a b, cmp_canonical a b = length_first (det_label a) (det_label b).
Proof. exact cmp_canonical_is_length_first. Qed.
Print Assumptions C16_cmp_canonical_is_length_first.

(* total order consistent with equality, for every label *)
Theorem C16_label_total_order :
  (forall a b, label_cmp a b = Eq <-> a = b) /\
  (forall a b, label_cmp b a = CompOpp (label_cmp a b)) /\
  (forall a b c, label_cmp a b = Lt -> label_cmp b c = Lt -> label_cmp a c = Lt).
Proof. exact (conj label_cmp_eq (conj label_cmp_antisym label_cmp_lt_trans)). Qed.
Print Assumptions C16_label_total_order.

(* registry-restricted labels compare as the plain labels they encode to, and are equal exactly
   when compared Eq (for the private-range variant: on values produced by decoding / builders) *)
Theorem C16_registry_labels :
  (forall a b, reg_cmp a b = label_cmp (reg_as_label a) (reg_as_label b)) /\
  (forall a b, regp_cmp a b = label_cmp (regp_as_label a) (regp_as_label b)) /\
  (forall a b, reg_cmp a b = Eq <-> a = b) /\
  (forall reg a b, regp_wf reg a -> regp_wf reg b -> (regp_cmp a b = Eq <-> a = b)) /\
  (forall reg v l, regp_from_value reg v = Ok l -> regp_wf reg l).
Proof. exact (conj reg_cmp_as_label (conj regp_cmp_as_label (conj reg_cmp_eq (conj regp_cmp_eq regp_from_value_wf)))). Qed.
Print Assumptions C16_registry_labels.

(* non-vacuity: concrete labels across encoding-length boundaries meet the hypotheses *)
Example C16_nonvacuous :
  label_in_range (LInt (-9223372036854775808)) /\ label_in_range (LInt 24) /\ label_in_range (LText [x61; x62]) /\
  label_cmp (LInt 24) (LInt (-1)) = Lt /\ label_cmp (LInt (-9223372036854775808)) (LText []) = Lt /\
  cmp_canonical (LText [x61]) (LInt 256) = Lt /\ label_cmp (LText [x61]) (LInt 256) = Gt.
Proof. cbn. repeat split; try reflexivity; unfold p64; cbn; try Lia.lia. Qed.
