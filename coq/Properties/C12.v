(* C12 - No map handled by the crate ever carries the same label twice. *)
From Coset.Model Require Import Prelude Cbor Iana Label Msg Key Cwt.
From Coset.Proofs Require Import Loop ClaimsAccept NoDupLabels.

(* DECODE: two keys that denote the same label (whatever their position, values and, because
   the decoders see decoded values, encodings) are never accepted ... *)
Theorem C12_duplicate_never_accepted :
  (forall pp m h, dup_keys m -> header_from_value pp (VMap m) <> Ok h) /\
  (forall m h, dup_keys m -> Header_from_value (VMap m) <> Ok h) /\
  (forall m k, dup_keys m -> CoseKey_from_value (VMap m) <> Ok k) /\
  (forall m c, dup_claims m -> ClaimsSet_from_value (VMap m) <> Ok c).
Proof. exact (conj header_from_value_dup_never_accepted (conj Header_dup_never_accepted (conj CoseKey_dup_never_accepted claims_dup_never_accepted))). Qed.
Print Assumptions C12_duplicate_never_accepted.

(* ... and the error is DuplicateMapKey whenever the entries before the second occurrence of the
   first-completed duplicate are acceptable (whatever the duplicate's value and what follows).
   When an earlier entry is itself invalid the code reports that entry's error first. *)
Theorem C12_duplicate_reported_as_such :
  (forall pp hv p k v rest lp h1 l,
     labels p = Ok lp -> NoDup (map fst lp) -> foldM (header_step pp hv) lp header_default = Ok h1 ->
     label_from_value k = Ok l -> In l (map fst lp) ->
     map_loop (header_step pp hv) (p ++ (k, v) :: rest) header_default [] = Err EDup) /\
  (forall p k v rest lp k1 l,
     labels p = Ok lp -> NoDup (map fst lp) -> foldM key_step lp key_default = Ok k1 ->
     label_from_value k = Ok l -> In l (map fst lp) ->
     CoseKey_from_value (VMap (p ++ (k, v) :: rest)) = Err EDup) /\
  (forall p k v rest lp c1 n,
     names p = Ok lp -> NoDup (map fst lp) -> cfold lp claims_default = Ok c1 ->
     regp_from_value "CwtClaimName" k = Ok n -> In n (map fst lp) ->
     ClaimsSet_from_value (VMap (p ++ (k, v) :: rest)) = Err EDup).
Proof. exact (conj header_dup_reported (conj CoseKey_dup_reported ClaimsSet_dup_reported)). Qed.
Print Assumptions C12_duplicate_reported_as_such.

(* ENCODE: headers and keys never emit a repeated key (after the F2 repair) *)
Theorem C12_encoding_has_distinct_keys :
  (forall h m, header_to_value h = Ok (VMap m) -> NoDup (map fst m)) /\
  (forall k m, CoseKey_to_value k = Ok (VMap m) -> NoDup (map fst m)) /\
  (forall h m, ~ NoDup (map fst (h_rest h)) -> header_to_value h <> Ok (VMap m)) /\
  (forall h m, h_kid h <> [] -> In (LInt 4) (map fst (h_rest h)) -> header_to_value h <> Ok (VMap m)) /\
  (forall k m, In (LInt 1) (map fst (k_params k)) -> CoseKey_to_value k <> Ok (VMap m)).
Proof. exact (conj header_encoding_has_distinct_keys (conj key_encoding_has_distinct_keys
       (conj header_extra_repeating_label_fails (conj header_extra_equal_to_kid_fails key_extra_equal_to_kty_fails)))). Qed.
Print Assumptions C12_encoding_has_distinct_keys.

(* known finding F2b: claims sets are emitted without any duplicate check (pinned upstream by
   cwt::tests::test_cwt_dup_claim) *)
Theorem C12_claims_encoding_dup_refuted :
  exists c m, ClaimsSet_to_value c = Ok (VMap m) /\ ~ NoDup (map fst m).
Proof. exact claims_encoding_dup_refuted. Qed.
Print Assumptions C12_claims_encoding_dup_refuted.

Example C12_nonvacuous :
  dup_keys [(VInt 4, VBytes [x01]); (VText [x61], VNull); (VInt 4, VBytes [x02])] /\
  Header_from_value (VMap [(VInt 4, VBytes [x01]); (VText [x61], VNull); (VInt 4, VBytes [x02])]) = Err EDup.
Proof. split; [|vm_compute; reflexivity].
  exists 0%nat, 2%nat, (VInt 4), (VInt 4), (LInt 4). repeat split; auto. Qed.

(* known finding F7: the duplicate-key error of a header nested in a COSE_Signature that is an element of
   COSE_Sign.signatures is masked (UnexpectedItem); in a recipient, a counter-signature or on its own it comes through *)
Definition f7_dup : value := VMap [(VInt 4, VBytes [x01]); (VInt 4, VBytes [x01])].
Definition f7_sig : value := VArray [VBytes []; f7_dup; VBytes []].
Theorem C12_sign_nested_dup_masked_refuted :
  Header_from_value f7_dup = Err EDup /\
  CoseSignature_from_value f7_sig = Err EDup /\
  CoseSign_from_value (VArray [VBytes []; VMap []; VNull; VArray [f7_sig]]) = Err EUnexpected /\
  CoseSign1_from_value (VArray [VBytes []; VMap [(VInt 7, f7_sig)]; VNull; VBytes []]) = Err EDup /\
  CoseMac_from_value (VArray [VBytes []; VMap []; VNull; VBytes []; VArray [VArray [VBytes []; f7_dup; VNull]]]) = Err EDup.
Proof. repeat split; vm_compute; reflexivity. Qed.
Print Assumptions C12_sign_nested_dup_masked_refuted.
