(* C14 - Tagged forms carry exactly the structure's registered CBOR tag. *)
From Coset.Model Require Import Prelude Cbor Iana Label Msg Api.
From Coset.Proofs Require Import Head Widths Tagged.
Open Scope N_scope.

(* the tag of each type, as found in the source on this run *)
Theorem C14_registered_tags :
  tag_of "CoseSign" = 98 /\ tag_of "CoseSign1" = 18 /\ tag_of "CoseEncrypt" = 96 /\
  tag_of "CoseEncrypt0" = 16 /\ tag_of "CoseMac" = 97 /\ tag_of "CoseMac0" = 17.
Proof. exact tags_pinned. Qed.
Print Assumptions C14_registered_tags.

Theorem C14_tagged_encoding_is_tag_then_untagged :
  forall (T : Type) (tov : T -> res value) TAG x,
    to_tagged_vec tov TAG x = do b <- to_vec tov x; Ok (head 6 TAG ++ b).
Proof. intros. apply to_tagged_vec_spec. Qed.
Print Assumptions C14_tagged_encoding_is_tag_then_untagged.

Theorem C14_tagged_decoding_item_level :
  forall (T : Type) (fromv : value -> res T) TAG,
    (forall b m, from_tagged_slice fromv TAG b = Ok m <->
                 exists v, read_to_value b = Ok (VTag TAG v) /\ fromv v = Ok m) /\
    (forall b t v, read_to_value b = Ok (VTag t v) -> t <> TAG -> from_tagged_slice fromv TAG b = Err EUnexpected) /\
    (forall b v, read_to_value b = Ok v -> (forall t x, v <> VTag t x) -> from_tagged_slice fromv TAG b = Err EUnexpected).
Proof. intros. exact (conj (from_tagged_slice_iff fromv TAG) (conj (from_tagged_slice_other_tag fromv TAG) (from_tagged_slice_untagged fromv TAG))). Qed.
Print Assumptions C14_tagged_decoding_item_level.

(* byte level, every width of the tag head; the proviso "body decodable within 255 levels" is
   necessary (C14_depth_256_refuted) *)
Theorem C14_tagged_decoding_byte_level :
  forall (T : Type) (fromv : value -> res T) TAG, TAG <> 2 /\ TAG <> 3 ->
    (forall w b0 m, width_ok TAG w -> (exists v f, de f 255 b0 = Ok (v, []) /\ fromv v = Ok m) ->
        from_tagged_slice fromv TAG (head_w 6 TAG w ++ b0) = Ok m) /\
    (forall w b0 m, width_ok TAG w -> from_tagged_slice fromv TAG (head_w 6 TAG w ++ b0) = Ok m ->
        from_slice fromv b0 = Ok m).
Proof. intros T fromv TAG H. exact (conj (tagged_decode_of_body fromv TAG H) (tagged_decode_inv fromv TAG H)). Qed.
Print Assumptions C14_tagged_decoding_byte_level.

Theorem C14_untagged_rejects_tagged_and_double_tags :
  (forall t v,
     CoseSign_from_value (VTag t v) = Err EUnexpected /\ CoseSign1_from_value (VTag t v) = Err EUnexpected /\
     CoseEncrypt_from_value (VTag t v) = Err EUnexpected /\ CoseEncrypt0_from_value (VTag t v) = Err EUnexpected /\
     CoseMac_from_value (VTag t v) = Err EUnexpected /\ CoseMac0_from_value (VTag t v) = Err EUnexpected) /\
  (forall (T : Type) (fromv : value -> res T) TAG b t v,
     (forall t' v', fromv (VTag t' v') = Err EUnexpected) ->
     read_to_value b = Ok (VTag TAG (VTag t v)) -> from_tagged_slice fromv TAG b = Err EUnexpected).
Proof. split; [exact untagged_rejects_tag | intros T fromv TAG b t v; exact (double_tag_rejected fromv TAG b t v)]. Qed.
Print Assumptions C14_untagged_rejects_tagged_and_double_tags.

(* known finding F5: without the proviso the byte-level equivalence fails *)
Theorem C14_depth_256_refuted :
  (exists m, from_slice CoseSign1_from_value f5_body = Ok m) /\
  from_tagged_slice CoseSign1_from_value 18 (head 6 18 ++ f5_body) = Err EDecode.
Proof. exact f5_witness. Qed.
Print Assumptions C14_depth_256_refuted.
