(* C10 - COSE_Key / COSE_KeySet: accepted iff well-formed, parameters map to fields. *)
From Coset.Model Require Import Prelude Cbor Iana Label Msg Key.
From Coset.Spec Require Import Accept.
From Coset.Proofs Require Import KeyAccept.

(* key_spec is order-insensitive (fields by lookup under labels 1..5, kty mandatory and not
   Reserved, key_ops a non-empty array of distinct operations collected as a set, everything
   else kept in wire order); "registered" = the registry tables found in the source (C17) *)
Theorem C10_key_accepted_iff_well_formed :
  forall v k, CoseKey_from_value v = Ok k <->
    key_spec (registered T_Algorithm) (registered T_KeyType) (registered T_KeyOperation) v = Some k.
Proof. exact key_accept_iff. Qed.
Print Assumptions C10_key_accepted_iff_well_formed.

Theorem C10_keyset_accepted_iff_all_keys :
  forall v ks, CoseKeySet_from_value v = Ok ks <->
    keyset_spec (registered T_Algorithm) (registered T_KeyType) (registered T_KeyOperation) v = Some ks.
Proof. exact keyset_accept_iff. Qed.
Print Assumptions C10_keyset_accepted_iff_all_keys.

Theorem C10_never_panics :
  (forall v, CoseKey_from_value v <> Panic) /\ (forall v, CoseKeySet_from_value v <> Panic).
Proof. exact (conj CoseKey_from_value_no_panic CoseKeySet_from_value_no_panic). Qed.
Print Assumptions C10_never_panics.

Example C10_nonvacuous :
  (exists k, CoseKey_from_value (VMap [(VInt 4, VArray [VInt 2; VInt 1]); (VInt 1, VInt 2); (VInt (-1), VInt 1)]) = Ok k
             /\ k_ops k = [RAssigned 1; RAssigned 2] /\ k_params k = [(LInt (-1), VInt 1)])
  /\ CoseKey_from_value (VMap [(VInt 1, VInt 0)]) = Err EUnexpected
  /\ CoseKey_from_value (VMap [(VInt 2, VBytes [x01])]) = Err EUnexpected.
Proof. split; [eexists; split; [vm_compute; reflexivity|split; reflexivity]|split; vm_compute; reflexivity]. Qed.
