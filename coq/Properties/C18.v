(* C18 - CWT claims sets and KDF contexts decode and encode per their definitions. *)
From Coset.Model Require Import Prelude Cbor Iana Label Msg Cwt Context.
From Coset.Spec Require Import Accept AcceptMsg.
From Coset.Proofs Require Import ClaimsAccept MsgAccept.
From Coset.Proofs Require TypedRoundTrip HeaderRoundTrip MsgRoundTrip ReencodeNf.
Import HeaderRoundTrip MsgRoundTrip.

Theorem C18_claims_accepted_iff_well_formed :
  forall v c, ClaimsSet_from_value v = Ok c <-> claims_spec (registered T_CwtClaimName) v = Some c.
Proof. exact claims_accept_iff. Qed.
Print Assumptions C18_claims_accepted_iff_well_formed.

(* encoding a well-formed claims set emits its populated fields so that decoding returns it *)
Theorem C18_claims_roundtrip :
  forall c, claims_wf c -> exists v, ClaimsSet_to_value c = Ok v /\ ClaimsSet_from_value v = Ok c.
Proof. exact claims_roundtrip. Qed.
Print Assumptions C18_claims_roundtrip.

Theorem C18_kdf_context_accepted_iff :
  (forall v k, CoseKdfContext_from_value v = Ok k <-> kdf_spec P_parse A_acc v = Some k) /\
  (forall v p, PartyInfo_from_value v = Ok p <-> party_spec v = Some p) /\
  (forall v s, SuppPubInfo_from_value v = Ok s <-> supp_spec P_parse v = Some s).
Proof. exact (conj kdf_accept_iff (conj party_accept_iff supp_accept_iff)). Qed.
Print Assumptions C18_kdf_context_accepted_iff.

Theorem C18_arities :
  (forall n, arity_ok "PartyInfo" n = Nat.eqb n 3) /\
  (forall n, arity_ok "SuppPubInfo" n = Nat.eqb n 2 || Nat.eqb n 3) /\
  (forall n, arity_ok "CoseKdfContext" n = Nat.leb 4 n).
Proof. exact (conj arity_party (conj arity_supp arity_kdf)). Qed.
Print Assumptions C18_arities.

Theorem C18_never_panics : forall v, ClaimsSet_from_value v <> Panic.
Proof. exact ClaimsSet_from_value_no_panic. Qed.
Print Assumptions C18_never_panics.

(* KDF context types: a well-formed value encodes to exactly its populated fields (PartyInfo: three
   slots, nil for an absent field; SuppPubInfo: keyDataLength, protected bstr, `other` exactly when
   present, even when empty) so that decoding returns it *)
Theorem C18_party_roundtrip :
  forall p, TypedRoundTrip.party_wf p ->
  exists v, PartyInfo_to_value p = Ok v /\ PartyInfo_from_value v = Ok p.
Proof. exact TypedRoundTrip.party_roundtrip. Qed.
Print Assumptions C18_party_roundtrip.

Theorem C18_supp_pub_info_roundtrip :
  forall s, SuppPubInfo_bwf s ->
  exists v, SuppPubInfo_to_value s = Ok v /\ SuppPubInfo_from_value v = Ok (assign_SuppPubInfo s).
Proof. exact SuppPubInfo_encode_decode. Qed.
Print Assumptions C18_supp_pub_info_roundtrip.

Theorem C18_kdf_context_roundtrip :
  forall k, CoseKdfContext_bwf k ->
  exists v, CoseKdfContext_to_value k = Ok v /\ CoseKdfContext_from_value v = Ok (assign_CoseKdfContext k).
Proof. exact CoseKdfContext_encode_decode. Qed.
Print Assumptions C18_kdf_context_roundtrip.

(* the well-formedness predicates hold of everything the decoders return *)
Theorem C18_decoded_values_are_well_formed :
  (forall v p, PartyInfo_from_value v = Ok p -> TypedRoundTrip.party_wf p) /\
  (forall v m, SuppPubInfo_from_value v = Ok m -> SuppPubInfo_bwf m /\ assign_SuppPubInfo m = m) /\
  (forall v m, CoseKdfContext_from_value v = Ok m -> CoseKdfContext_bwf m /\ assign_CoseKdfContext m = m).
Proof.
  split; [exact TypedRoundTrip.decoded_party_wf|].
  pose proof decoded_messages_are_built as H. tauto.
Qed.
Print Assumptions C18_decoded_values_are_well_formed.

(* decode -> encode -> decode at byte level for the four types (C07's statement specialised) *)
Theorem C18_bytes_fixed_point :
  ReencodeNf.bytes_fp_full ClaimsSet_from_value ClaimsSet_to_value /\
  ReencodeNf.bytes_fp_full PartyInfo_from_value PartyInfo_to_value /\
  ReencodeNf.bytes_fp_full SuppPubInfo_from_value SuppPubInfo_to_value /\
  ReencodeNf.bytes_fp_full CoseKdfContext_from_value CoseKdfContext_to_value.
Proof.
  pose proof ReencodeNf.all_types_bytes_fixed_point_full as H. tauto.
Qed.
Print Assumptions C18_bytes_fixed_point.

Example C18_nonvacuous :
  claims_wf (mkClaims (Some [x61]) None None (Some (WholeSeconds 5)) None None None [(PAssigned 8, VNull); (PText [x62], VInt 1)])
  /\ exists k, CoseKdfContext_from_value
       (VArray [VInt 1; VArray [VNull; VInt (-1); VNull]; VArray [VNull; VNull; VNull]; VArray [VInt 128; VBytes []]; VBytes [x01]]) = Ok k.
Proof.
  split.
  - unfold claims_wf. cbn. repeat split; try (intros z H; discriminate H); try (intros z [= <-]; reflexivity).
    + repeat constructor; cbn; intuition discriminate.
    + repeat constructor.
  - eexists. vm_compute. reflexivity.
Qed.
