(* C18 - CWT claims sets and KDF contexts decode and encode per their definitions. *)
From Coset.Model Require Import Prelude Cbor Iana Label Msg Cwt Context.
From Coset.Spec Require Import Accept AcceptMsg.
From Coset.Proofs Require Import ClaimsAccept MsgAccept.

Theorem C18_claims_accepted_iff_well_formed :
  forall v c, ClaimsSet_from_value v = Ok c <-> claims_spec (registered T_CwtClaimName) v = Some c.
Proof. exact claims_accept_iff. Qed.
Print Assumptions C18_claims_accepted_iff_well_formed.

(* encoding a well-formed claims set emits its populated fields so that decoding returns it *)
Theorem C18_claims_roundtrip :
  forall c, claims_wf c -> exists v, ClaimsSet_to_value c = Ok v /\ ClaimsSet_from_value v = Ok c.
Proof. exact claims_roundtrip. Qed.
Print Assumptions C18_claims_roundtrip.

Theorem C18_kdf_context_accepted_iff :
  (forall v k, CoseKdfContext_from_value v = Ok k <-> kdf_spec P_parse A_acc v = Some k) /\
  (forall v p, PartyInfo_from_value v = Ok p <-> party_spec v = Some p) /\
  (forall v s, SuppPubInfo_from_value v = Ok s <-> supp_spec P_parse v = Some s).
Proof. exact (conj kdf_accept_iff (conj party_accept_iff supp_accept_iff)). Qed.
Print Assumptions C18_kdf_context_accepted_iff.

Theorem C18_arities :
  (forall n, arity_ok "PartyInfo" n = Nat.eqb n 3) /\
  (forall n, arity_ok "SuppPubInfo" n = Nat.eqb n 2 || Nat.eqb n 3) /\
  (forall n, arity_ok "CoseKdfContext" n = Nat.leb 4 n).
Proof. exact (conj arity_party (conj arity_supp arity_kdf)). Qed.
Print Assumptions C18_arities.

Theorem C18_never_panics : forall v, ClaimsSet_from_value v <> Panic.
Proof. exact ClaimsSet_from_value_no_panic. Qed.
Print Assumptions C18_never_panics.

Example C18_nonvacuous :
  claims_wf (mkClaims (Some [x61]) None None (Some (WholeSeconds 5)) None None None [(PAssigned 8, VNull); (PText [x62], VInt 1)])
  /\ exists k, CoseKdfContext_from_value
       (VArray [VInt 1; VArray [VNull; VInt (-1); VNull]; VArray [VNull; VNull; VNull]; VArray [VInt 128; VBytes []]; VBytes [x01]]) = Ok k.
Proof.
  split.
  - unfold claims_wf. cbn. repeat split; try (intros z H; discriminate H); try (intros z [= <-]; reflexivity).
    + repeat constructor; cbn; intuition discriminate.
    + repeat constructor.
  - eexists. vm_compute. reflexivity.
Qed.
