(* C02 - Protected-header bytes are kept and reused bit-for-bit, never re-encoded. *)
From Coset.Model Require Import Prelude Cbor Iana Label Msg Context.
From Coset.Proofs Require Import Structures Retained.

(* a decoded protected header keeps exactly the byte string received and writes it back verbatim *)
Theorem C02_protected_retained :
  forall parse v ph,
  protected_from_bstr parse v = Ok ph ->
  exists p, v = VBytes p /\ p_orig ph = Some p /\ protected_cbor_bstr ph = Ok (VBytes p).
Proof. exact protected_retained. Qed.
Print Assumptions C02_protected_retained.

(* retained bytes are what encoding emits, whatever the parsed header is (never a re-encoding) *)
Theorem C02_protected_reencoded_verbatim :
  forall ph p,
  p_orig ph = Some p -> protected_cbor_bstr ph = Ok (VBytes p).
Proof. exact protected_reencoded_verbatim. Qed.
Print Assumptions C02_protected_reencoded_verbatim.

(* top-level slot of each carrier: retained on decode, written back on encode *)
Theorem C02_CoseSign1_protected_retained :
  forall v m, CoseSign1_from_value v = Ok m ->
  exists p rest, v = VArray (VBytes p :: rest) /\ p_orig (s1_prot m) = Some p /\
    (forall v', CoseSign1_to_value m = Ok v' -> exists rest', v' = VArray (VBytes p :: rest')).
Proof. exact CoseSign1_protected_retained. Qed.
Print Assumptions C02_CoseSign1_protected_retained.

Theorem C02_CoseSign_protected_retained :
  forall v m, CoseSign_from_value v = Ok m ->
  exists p rest, v = VArray (VBytes p :: rest) /\ p_orig (sn_prot m) = Some p /\
    (forall v', CoseSign_to_value m = Ok v' -> exists rest', v' = VArray (VBytes p :: rest')).
Proof. exact CoseSign_protected_retained. Qed.
Print Assumptions C02_CoseSign_protected_retained.

Theorem C02_CoseMac_protected_retained :
  forall v m, CoseMac_from_value v = Ok m ->
  exists p rest, v = VArray (VBytes p :: rest) /\ p_orig (mc_prot m) = Some p /\
    (forall v', CoseMac_to_value m = Ok v' -> exists rest', v' = VArray (VBytes p :: rest')).
Proof. exact CoseMac_protected_retained. Qed.
Print Assumptions C02_CoseMac_protected_retained.

Theorem C02_CoseMac0_protected_retained :
  forall v m, CoseMac0_from_value v = Ok m ->
  exists p rest, v = VArray (VBytes p :: rest) /\ p_orig (m0_prot m) = Some p /\
    (forall v', CoseMac0_to_value m = Ok v' -> exists rest', v' = VArray (VBytes p :: rest')).
Proof. exact CoseMac0_protected_retained. Qed.
Print Assumptions C02_CoseMac0_protected_retained.

Theorem C02_CoseEncrypt_protected_retained :
  forall v m, CoseEncrypt_from_value v = Ok m ->
  exists p rest, v = VArray (VBytes p :: rest) /\ p_orig (en_prot m) = Some p /\
    (forall v', CoseEncrypt_to_value m = Ok v' -> exists rest', v' = VArray (VBytes p :: rest')).
Proof. exact CoseEncrypt_protected_retained. Qed.
Print Assumptions C02_CoseEncrypt_protected_retained.

Theorem C02_CoseEncrypt0_protected_retained :
  forall v m, CoseEncrypt0_from_value v = Ok m ->
  exists p rest, v = VArray (VBytes p :: rest) /\ p_orig (e0_prot m) = Some p /\
    (forall v', CoseEncrypt0_to_value m = Ok v' -> exists rest', v' = VArray (VBytes p :: rest')).
Proof. exact CoseEncrypt0_protected_retained. Qed.
Print Assumptions C02_CoseEncrypt0_protected_retained.

Theorem C02_CoseRecipient_protected_retained :
  forall v m, CoseRecipient_from_value v = Ok m ->
  exists p rest, v = VArray (VBytes p :: rest) /\ p_orig (r_prot m) = Some p /\
    (forall v', CoseRecipient_to_value m = Ok v' -> exists rest', v' = VArray (VBytes p :: rest')).
Proof. exact CoseRecipient_protected_retained. Qed.
Print Assumptions C02_CoseRecipient_protected_retained.

Theorem C02_CoseSignature_protected_retained :
  forall v m, CoseSignature_from_value v = Ok m ->
  exists p rest, v = VArray (VBytes p :: rest) /\ p_orig (s_prot m) = Some p /\
    (forall v', CoseSignature_to_value m = Ok v' -> exists rest', v' = VArray (VBytes p :: rest')).
Proof. exact CoseSignature_protected_retained. Qed.
Print Assumptions C02_CoseSignature_protected_retained.

(* KDF supplementary information *)
Theorem C02_SuppPubInfo_protected_retained :
  forall v s, SuppPubInfo_from_value v = Ok s ->
  exists l p rest, v = VArray (l :: VBytes p :: rest) /\ p_orig (sp_prot s) = Some p /\
    (forall v', SuppPubInfo_to_value s = Ok v' -> exists l' rest', v' = VArray (l' :: VBytes p :: rest')).
Proof. exact SuppPubInfo_protected_retained. Qed.
Print Assumptions C02_SuppPubInfo_protected_retained.

(* every nesting level: all protected headers inside a decoded header carry retained bytes (hdr_ok / sig_ok / prot_ok are hereditary) *)
Theorem C02_decoded_header_all_retained :
  forall n v h, header_at n v = Ok h -> hdr_ok h.
Proof. exact decoded_header_all_retained. Qed.
Print Assumptions C02_decoded_header_all_retained.

(* ... and inside every decoded message: body, signers, recipients (recursively), counter-signatures, KDF supp info *)
Theorem C02_decoded_messages_all_retained :
  (forall v m, CoseSign1_from_value v = Ok m -> prot_ok (s1_prot m) /\ hdr_ok (s1_unprot m)) /\
  (forall v m, CoseSign_from_value v = Ok m ->
     prot_ok (sn_prot m) /\ hdr_ok (sn_unprot m) /\ Forall sig_ok (sn_sigs m)) /\
  (forall v s, CoseSignature_from_value v = Ok s -> sig_ok s) /\
  (forall v m, CoseMac_from_value v = Ok m ->
     prot_ok (mc_prot m) /\ hdr_ok (mc_unprot m) /\ Forall rec_ok (mc_recipients m)) /\
  (forall v m, CoseMac0_from_value v = Ok m -> prot_ok (m0_prot m) /\ hdr_ok (m0_unprot m)) /\
  (forall v m, CoseEncrypt_from_value v = Ok m ->
     prot_ok (en_prot m) /\ hdr_ok (en_unprot m) /\ Forall rec_ok (en_recipients m)) /\
  (forall v m, CoseEncrypt0_from_value v = Ok m -> prot_ok (e0_prot m) /\ hdr_ok (e0_unprot m)) /\
  (forall v r, CoseRecipient_from_value v = Ok r -> rec_ok r) /\
  (forall v s, SuppPubInfo_from_value v = Ok s -> prot_ok (sp_prot s)) /\
  (forall v k, CoseKdfContext_from_value v = Ok k -> prot_ok (sp_prot (kc_pub k))).
Proof. exact decoded_messages_all_retained. Qed.
Print Assumptions C02_decoded_messages_all_retained.

(* the parsed view is the same for every encoding of the same header content *)
Theorem C02_parsed_view_encoding_independent :
  forall n p1 p2 v,
  p1 <> [] -> p2 <> [] -> read_to_value p1 = Ok v -> read_to_value p2 = Ok v ->
  forall ph1 ph2,
    protected_from_bstr (parse_prot_at n) (VBytes p1) = Ok ph1 ->
    protected_from_bstr (parse_prot_at n) (VBytes p2) = Ok ph2 ->
    p_hdr ph1 = p_hdr ph2.
Proof. exact parsed_view_encoding_independent. Qed.
Print Assumptions C02_parsed_view_encoding_independent.

(* zero-length string and wrapped empty map give the same (empty) view, each keeping its own bytes *)
Theorem C02_empty_forms_same_view :
  forall n ph1 ph2,
  protected_from_bstr (parse_prot_at (S n)) (VBytes []) = Ok ph1 ->
  protected_from_bstr (parse_prot_at (S n)) (VBytes [xa0]) = Ok ph2 ->
  p_hdr ph1 = p_hdr ph2 /\ p_orig ph1 = Some [] /\ p_orig ph2 = Some [xa0].
Proof. exact empty_forms_same_view. Qed.
Print Assumptions C02_empty_forms_same_view.

(* the retained bytes are what goes into the to-be-signed / MACed / AAD structures: C03-C05
   (protected_bytes p = Ok d whenever p_orig p = Some d) *)
Theorem C02_structures_use_retained_bytes :
  forall parse v p, protected_from_bstr parse v = Ok p ->
    exists d, v = VBytes d /\ p_orig p = Some d /\ protected_bytes p = Ok d.
Proof. exact protected_bytes_decoded. Qed.
Print Assumptions C02_structures_use_retained_bytes.

Example C02_nonvacuous :
  exists m, CoseSign1_from_value (VArray [VBytes [xbf; x01; x26; xff]; VMap []; VNull; VBytes []]) = Ok m
            /\ p_orig (s1_prot m) = Some [xbf; x01; x26; xff] /\ h_alg (p_hdr (s1_prot m)) = Some (PAssigned (-7)).
Proof. eexists. split; [vm_compute; reflexivity|split; reflexivity]. Qed.
