(* C01 - Untrusted bytes never crash decoding or the processing that follows it.
   PARTIAL by nature: what is proved is panic-freedom and termination of the model (every array
   index, remove(i), unwrap/expect and assert of the Rust code is a `Panic` branch of the model)
   the bound on the nesting of protected headers, and a linear bound on the byte parser's steps plus
   its frame-depth bound (Proofs/Cost.v); stack bytes per frame, allocation and wall
   time are runtime behaviour that no model exhibits and are explored by the harness (deep
   nesting families on a 2 MiB thread, declared-length bombs, 1-16 MiB inputs). *)
From Coset.Model Require Import Prelude Cbor Iana Label Msg Key Cwt Context Api.
From Coset.Proofs Require Import OneItem NoPanic.
From Coset.Proofs Require Cost.

(* every value-level decoder terminates with a value or an error: never Panic, never OutOfFuel *)
Theorem C01_decoders_total :
  (forall v, total (Header_from_value v)) /\
  (forall v, total (ProtectedHeader_from_value v)) /\
  (forall v, total (ProtectedHeader_from_cbor_bstr v)) /\
  (forall v, total (CoseSignature_from_value v)) /\
  (forall v, total (CoseSign1_from_value v)) /\
  (forall v, total (CoseSign_from_value v)) /\
  (forall v, total (CoseMac_from_value v)) /\
  (forall v, total (CoseMac0_from_value v)) /\
  (forall v, total (CoseEncrypt_from_value v)) /\
  (forall v, total (CoseEncrypt0_from_value v)) /\
  (forall v, total (CoseRecipient_from_value v)) /\
  (forall v, total (CoseKey_from_value v)) /\
  (forall v, total (CoseKeySet_from_value v)) /\
  (forall v, total (ClaimsSet_from_value v)) /\
  (forall v, total (PartyInfo_from_value v)) /\
  (forall v, total (SuppPubInfo_from_value v)) /\
  (forall v, total (CoseKdfContext_from_value v)) /\
  (forall v, total (label_from_value v)) /\
  (forall t v, total (reg_from_value t v)) /\
  (forall reg v, total (regp_from_value reg v)).
Proof. exact decoders_total. Qed.
Print Assumptions C01_decoders_total.

(* ... hence every byte-level entry point (untagged and tagged), for every byte string *)
Theorem C01_byte_entry_points_total :
  forall (T : Type) (fromv : value -> res T),
  (forall v, total (fromv v)) ->
  forall b, total (from_slice fromv b) /\ forall tag, total (from_tagged_slice fromv tag b).
Proof. exact byte_entry_points_total. Qed.
Print Assumptions C01_byte_entry_points_total.

Theorem C01_byte_parser_total :
  forall b, read_to_value b <> Panic /\ read_to_value b <> OutOfFuel.
Proof. exact read_to_value_total. Qed.
Print Assumptions C01_byte_parser_total.

(* re-encoding never panics, for any in-memory value *)
Theorem C01_encoders_never_panic :
  (forall h, total (header_to_value h)) /\
  (forall s, total (signature_to_value s)) /\
  (forall p, total (protected_cbor_bstr p)) /\
  (forall m, total (CoseSign1_to_value m)) /\
  (forall m, total (CoseSign_to_value m)) /\
  (forall m, total (CoseMac_to_value m)) /\
  (forall m, total (CoseMac0_to_value m)) /\
  (forall m, total (CoseEncrypt_to_value m)) /\
  (forall m, total (CoseEncrypt0_to_value m)) /\
  (forall m, total (CoseRecipient_to_value m)) /\
  (forall k, total (CoseKey_to_value k)) /\
  (forall ks, total (CoseKeySet_to_value ks)) /\
  (forall c, total (ClaimsSet_to_value c)) /\
  (forall p, total (PartyInfo_to_value p)) /\
  (forall s, total (SuppPubInfo_to_value s)) /\
  (forall k, total (CoseKdfContext_to_value k)) /\
  (forall l, total (Label_to_value l)) /\
  (forall (T : Type) (tov : T -> res value), (forall x, total (tov x)) ->
     forall x, total (to_vec tov x) /\ forall tag, total (to_tagged_vec tov tag x)).
Proof. exact encoders_never_panic. Qed.
Print Assumptions C01_encoders_never_panic.

(* helpers on decoded values do not panic under their documented preconditions ... *)
Theorem C01_helpers_on_decoded_never_panic :
  (forall v m aad, CoseSign1_from_value v = Ok m -> Sign1_tbs_data m aad <> Panic) /\
  (forall v m aad pl, CoseSign1_from_value v = Ok m -> s1_payload m = None ->
      Sign1_tbs_detached_data m pl aad <> Panic) /\
  (forall v m aad i, CoseSign_from_value v = Ok m -> (i < length (sn_sigs m))%nat ->
      forall (R : Type) (f : bytes -> bytes -> R), Sign_verify_signature m i aad f <> Panic) /\
  (forall v m aad, CoseMac_from_value v = Ok m -> mc_payload m <> None -> Mac_tbm m aad <> Panic) /\
  (forall v m aad, CoseMac0_from_value v = Ok m -> m0_payload m <> None -> Mac0_tbm m aad <> Panic) /\
  (forall v m aad (R : Type) (f : bytes -> bytes -> R),
      CoseEncrypt_from_value v = Ok m -> en_ct m <> None -> Encrypt_decrypt m aad f <> Panic) /\
  (forall v m aad (R : Type) (f : bytes -> bytes -> R),
      CoseEncrypt0_from_value v = Ok m -> e0_ct m <> None -> Encrypt0_decrypt m aad f <> Panic) /\
  (forall v m c aad (R : Type) (f : bytes -> bytes -> R),
      CoseRecipient_from_value v = Ok m -> r_ct m <> None -> is_recipient_context c = true ->
      Recipient_decrypt m c aad f <> Panic).
Proof. exact helpers_on_decoded_never_panic. Qed.
Print Assumptions C01_helpers_on_decoded_never_panic.

(* ... and the documented panics are exactly where the documentation says *)
Theorem C01_documented_panics :
  (forall m aad, mc_payload m = None -> Mac_tbm m aad = Panic) /\
  (forall m aad, m0_payload m = None -> Mac0_tbm m aad = Panic) /\
  (forall m pl aad, s1_payload m <> None -> Sign1_tbs_detached_data m pl aad = Panic) /\
  (forall (R : Type) m c aad (f : bytes -> bytes -> R),
      r_ct m <> None -> is_recipient_context c = false -> Recipient_decrypt m c aad f = Panic).
Proof. exact documented_panics. Qed.
Print Assumptions C01_documented_panics.

(* ===== linear work and bounded recursion of the byte parser (Proofs/Cost.v).  de_c / de_d are the
   model's de / items / entries / segs with a step counter (one step per invocation of any of the
   four, failing ones included; dehead, takeN, utf8_valid and the bignum helper are primitive
   O(bytes taken) work) resp. a frame-depth counter; erasing the counter gives the model back. ===== *)
Theorem C01_instrumented_parser_is_the_parser :
  (forall l, fst (Cost.from_reader_c l) = from_reader l) /\ (forall l, fst (Cost.from_reader_d l) = from_reader l).
Proof. exact (conj Cost.from_reader_c_erase Cost.from_reader_d_erase). Qed.
Print Assumptions C01_instrumented_parser_is_the_parser.

(* at most 3|l|+1 steps on EVERY input, accepted or not (the factor 3 is attained: C01_steps_tight) *)
Theorem C01_parser_steps_linear :
  forall l, (snd (Cost.from_reader_c l) <= 3 * List.length l + 1)%nat.
Proof. exact Cost.from_reader_steps. Qed.
Print Assumptions C01_parser_steps_linear.

(* an accepted item costs at most three steps per byte it consumed *)
Theorem C01_parser_steps_per_consumed_byte :
  forall l v r n, Cost.from_reader_c l = (Ok (v, r), n) ->
  from_reader l = Ok (v, r) /\ (List.length r < List.length l)%nat /\ (n + 1 <= 3 * (List.length l - List.length r))%nat.
Proof. exact Cost.from_reader_steps_ok. Qed.
Print Assumptions C01_parser_steps_per_consumed_byte.

(* array / map / tag frames never nest deeper than ciborium's recursion limit *)
Theorem C01_parser_depth_bounded :
  forall l, (snd (Cost.from_reader_d l) <= 256)%nat.
Proof. exact Cost.from_reader_depth. Qed.
Print Assumptions C01_parser_depth_bounded.

Theorem C01_steps_tight :
  forall n, (n < 256)%nat ->
  Cost.from_reader_c (Cost.nest n) = (Ok (Cost.nestv n, []), 3 * List.length (Cost.nest n) - 1)%nat.
Proof. exact Cost.from_reader_steps_tight. Qed.
Print Assumptions C01_steps_tight.

(* protected headers re-enter the byte parser with a fresh CBOR recursion budget; the number of
   such re-entries is bounded by the budget found in the source (F1 repair): header_at is
   structurally recursive on it and an exhausted budget is an ordinary error *)
Theorem C01_protected_nesting_bounded :
  nest_limit = 16%nat /\ (forall b, parse_prot_at 0 b = Err EUnexpected) /\
  (forall n b, parse_prot_at (S n) b = do v <- read_to_value b; header_at n v).
Proof. repeat split. Qed.
Print Assumptions C01_protected_nesting_bounded.

(* the worst-case family {7: [bstr(nested (d-1)), {}, h'']} : accepted to depth 16, rejected beyond *)
Fixpoint nested (d : nat) : bytes :=
  match d with
  | O => [xa0]
  | S d' => let inner := nested d' in
            [xa1; x07; x83] ++ head 2 (N.of_nat (List.length inner)) ++ inner ++ [xa0; x40]
  end.
Definition is_ok {A} (r : res A) : bool := match r with Ok _ => true | _ => false end.
Example C01_nesting_family :
  is_ok (from_slice Header_from_value (nested 16)) = true /\
  from_slice Header_from_value (nested 17) = Err EUnexpected /\
  from_slice Header_from_value (nested 40) = Err EUnexpected.
Proof. split; [|split]; vm_compute; reflexivity. Qed.
