(* C09 - Message structures: accepted iff they match their CDDL, slots map to fields. *)
From Coset.Model Require Import Prelude Cbor Iana Label Msg.
From Coset.Spec Require Import Accept AcceptMsg.
From Coset.Proofs Require Import MsgAccept.

(* H_acc / P_parse: the header-map acceptor (characterised in C08) and the parser of a non-empty
   protected byte string: exactly one encoded header map, within the nesting budget (C01, C13) *)
Theorem C09_sign1 : forall v m, CoseSign1_from_value v = Ok m <-> sign1_spec H_acc P_parse v = Some m.
Proof. exact sign1_accept_iff. Qed.
Print Assumptions C09_sign1.
Theorem C09_sign : forall v m, CoseSign_from_value v = Ok m <-> sign_spec H_acc P_parse v = Some m.
Proof. exact sign_accept_iff. Qed.
Print Assumptions C09_sign.
Theorem C09_signature : forall v s, CoseSignature_from_value v = Ok s <-> signature_spec H_acc P_parse v = Some s.
Proof. exact signature_accept_iff. Qed.
Print Assumptions C09_signature.
Theorem C09_mac : forall v m, CoseMac_from_value v = Ok m <-> mac_spec H_acc P_parse v = Some m.
Proof. exact mac_accept_iff. Qed.
Print Assumptions C09_mac.
Theorem C09_mac0 : forall v m, CoseMac0_from_value v = Ok m <-> mac0_spec H_acc P_parse v = Some m.
Proof. exact mac0_accept_iff. Qed.
Print Assumptions C09_mac0.
Theorem C09_encrypt : forall v m, CoseEncrypt_from_value v = Ok m <-> encrypt_spec H_acc P_parse v = Some m.
Proof. exact encrypt_accept_iff. Qed.
Print Assumptions C09_encrypt.
Theorem C09_encrypt0 : forall v m, CoseEncrypt0_from_value v = Ok m <-> encrypt0_spec H_acc P_parse v = Some m.
Proof. exact encrypt0_accept_iff. Qed.
Print Assumptions C09_encrypt0.
Theorem C09_recipient : forall v r, CoseRecipient_from_value v = Ok r <-> recipient_spec H_acc P_parse v = Some r.
Proof. exact recipient_accept_iff. Qed.
Print Assumptions C09_recipient.

(* the arities checked by the source (regenerated on this run) are the CDDL's *)
Theorem C09_arities :
  (forall n, arity_ok "CoseSign1" n = Nat.eqb n 4) /\ (forall n, arity_ok "CoseSign" n = Nat.eqb n 4) /\
  (forall n, arity_ok "CoseSignature" n = Nat.eqb n 3) /\ (forall n, arity_ok "CoseMac" n = Nat.eqb n 5) /\
  (forall n, arity_ok "CoseMac0" n = Nat.eqb n 4) /\ (forall n, arity_ok "CoseEncrypt" n = Nat.eqb n 4) /\
  (forall n, arity_ok "CoseEncrypt0" n = Nat.eqb n 3) /\
  (forall n, arity_ok "CoseRecipient" n = Nat.eqb n 3 || Nat.eqb n 4).
Proof. exact (conj arity_sign1 (conj arity_sign (conj arity_signature (conj arity_mac (conj arity_mac0
       (conj arity_encrypt (conj arity_encrypt0 arity_recipient))))))). Qed.
Print Assumptions C09_arities.

Example C09_nonvacuous :
  exists m, CoseSign1_from_value (VArray [VBytes []; VMap []; VNull; VBytes [x01]]) = Ok m /\
            sign1_spec H_acc P_parse (VArray [VBytes []; VMap []; VNull; VBytes [x01]]) = Some m.
Proof. eexists. split; vm_compute; reflexivity. Qed.
