(* C19 - Builders apply exactly the documented effect of each call, in any order.
   The statements quantify over every builder state and every call sequence (run_ops =
   fold_left of the step function).  What ties each macro-generated Rust setter to its step
   function is the correspondence run on call histories (a copy-paste slip in one setter shows
   up there, with this proved model as the oracle). *)
From Coset.Model Require Import Prelude Cbor Iana Label Msg Key Cwt Context Builders.
From Coset.Proofs Require Import BuilderInv.
From Coset.Proofs Require BuilderFrames.
Import BuilderFrames.
Open Scope Z_scope.

(* header builder = the documented effect written independently as record updates *)
Theorem C19_header_builder_is_documented_effect :
  (forall h o, header_builder_step h o = match header_effect o h with Some h' => Ok h' | None => Panic end) /\
  (forall ops h, run_ops header_builder_step ops h =
     fold_left (fun acc o => match acc with
                             | Ok s => match header_effect o s with Some s' => Ok s' | None => Panic end
                             | r => r end) ops (Ok h)).
Proof. exact (conj header_builder_refines_effect header_builder_run). Qed.
Print Assumptions C19_header_builder_is_documented_effect.

(* a built header never carries both an IV and a Partial IV, whatever the call sequence *)
Theorem C19_built_header_never_both_ivs :
  forall ops h, run_ops header_builder_step ops header_default = Ok h -> iv_clash h = false.
Proof. exact built_header_never_both_ivs_new. Qed.
Print Assumptions C19_built_header_never_both_ivs.

(* reserved labels are refused with the documented panic, every other label is appended *)
Theorem C19_reserved_labels :
  (forall h l v, header_builder_step h (HO_value l v) = Panic <-> 1 <= l <= 7) /\
  (forall h l v, ~ 1 <= l <= 7 -> header_builder_step h (HO_value l v) = Ok (set_rest (h_rest h ++ [(LInt l, v)]) h)) /\
  (forall k l v, key_builder_step k (KO_param l v) = Panic <-> 0 <= l <= 5) /\
  (forall c n v, claims_builder_step c (CO_claim n v) = Panic <-> 1 <= n <= 7) /\
  (forall c i v, claims_builder_step c (CO_private_claim i v) = Panic <-> ~ i < -65536).
Proof. exact (conj header_value_panics_iff (conj header_value_appends (conj key_param_panics_iff (conj claim_panics_iff private_claim_panics_iff)))). Qed.
Print Assumptions C19_reserved_labels.

(* setting a protected header discards previously retained wire bytes (all nine builders) *)
Theorem C19_protected_setter_discards_wire_bytes :
  (forall s h, exists s', signature_builder_step s (SO_protected h) = Ok s'
      /\ p_orig (s_prot s') = None /\ p_hdr (s_prot s') = h)
  /\ (forall m h, exists m', sign1_builder_step m (S1_protected h) = Ok m'
      /\ p_orig (s1_prot m') = None /\ p_hdr (s1_prot m') = h)
  /\ (forall m h, exists m', sign_builder_step m (SN_protected h) = Ok m'
      /\ p_orig (sn_prot m') = None /\ p_hdr (sn_prot m') = h)
  /\ (forall m h, exists m', mac0_builder_step m (M0_protected h) = Ok m'
      /\ p_orig (m0_prot m') = None /\ p_hdr (m0_prot m') = h)
  /\ (forall m h, exists m', mac_builder_step m (MC_protected h) = Ok m'
      /\ p_orig (mc_prot m') = None /\ p_hdr (mc_prot m') = h)
  /\ (forall m h, exists m', recipient_builder_step m (RO_protected h) = Ok m'
      /\ p_orig (r_prot m') = None /\ p_hdr (r_prot m') = h)
  /\ (forall m h, exists m', encrypt_builder_step m (EO_protected h) = Ok m'
      /\ p_orig (en_prot m') = None /\ p_hdr (en_prot m') = h)
  /\ (forall m h, exists m', encrypt0_builder_step m (E0_protected h) = Ok m'
      /\ p_orig (e0_prot m') = None /\ p_hdr (e0_prot m') = h)
  /\ (forall s h, exists s', supp_builder_step s (UO_protected h) = Ok s'
      /\ p_orig (sp_prot s') = None /\ p_hdr (sp_prot s') = h).
Proof. exact protected_setter_discards_wire_bytes. Qed.
Print Assumptions C19_protected_setter_discards_wire_bytes.

(* a setter replaces its field and leaves all others untouched (CoseSign1Builder) *)
Theorem C19_sign1_setters_frame :
  (forall m h, exists m', sign1_builder_step m (S1_unprotected h) = Ok m'
      /\ s1_unprot m' = h /\ s1_prot m' = s1_prot m /\ s1_payload m' = s1_payload m
      /\ s1_sig m' = s1_sig m)
  /\ (forall m h, exists m', sign1_builder_step m (S1_protected h) = Ok m'
      /\ s1_prot m' = mkProtected None h /\ s1_unprot m' = s1_unprot m
      /\ s1_payload m' = s1_payload m /\ s1_sig m' = s1_sig m)
  /\ (forall m b, exists m', sign1_builder_step m (S1_payload b) = Ok m'
      /\ s1_payload m' = Some b /\ s1_prot m' = s1_prot m /\ s1_unprot m' = s1_unprot m
      /\ s1_sig m' = s1_sig m)
  /\ (forall m b, exists m', sign1_builder_step m (S1_signature b) = Ok m'
      /\ s1_sig m' = b /\ s1_prot m' = s1_prot m /\ s1_unprot m' = s1_unprot m
      /\ s1_payload m' = s1_payload m).
Proof. exact sign1_setters_frame. Qed.
Print Assumptions C19_sign1_setters_frame.

(* ... (CoseMac0Builder) *)
Theorem C19_mac0_setters_frame :
  (forall m h, exists m', mac0_builder_step m (M0_unprotected h) = Ok m'
      /\ m0_unprot m' = h /\ m0_prot m' = m0_prot m /\ m0_payload m' = m0_payload m
      /\ m0_tag m' = m0_tag m)
  /\ (forall m h, exists m', mac0_builder_step m (M0_protected h) = Ok m'
      /\ m0_prot m' = mkProtected None h /\ m0_unprot m' = m0_unprot m
      /\ m0_payload m' = m0_payload m /\ m0_tag m' = m0_tag m)
  /\ (forall m b, exists m', mac0_builder_step m (M0_payload b) = Ok m'
      /\ m0_payload m' = Some b /\ m0_prot m' = m0_prot m /\ m0_unprot m' = m0_unprot m
      /\ m0_tag m' = m0_tag m)
  /\ (forall m b, exists m', mac0_builder_step m (M0_tag b) = Ok m'
      /\ m0_tag m' = b /\ m0_prot m' = m0_prot m /\ m0_unprot m' = m0_unprot m
      /\ m0_payload m' = m0_payload m).
Proof. exact mac0_setters_frame. Qed.
Print Assumptions C19_mac0_setters_frame.

(* ... (CoseEncrypt0Builder) *)
Theorem C19_encrypt0_setters_frame :
  (forall m h, exists m', encrypt0_builder_step m (E0_unprotected h) = Ok m'
      /\ e0_unprot m' = h /\ e0_prot m' = e0_prot m /\ e0_ct m' = e0_ct m)
  /\ (forall m h, exists m', encrypt0_builder_step m (E0_protected h) = Ok m'
      /\ e0_prot m' = mkProtected None h /\ e0_unprot m' = e0_unprot m /\ e0_ct m' = e0_ct m)
  /\ (forall m b, exists m', encrypt0_builder_step m (E0_ciphertext b) = Ok m'
      /\ e0_ct m' = Some b /\ e0_prot m' = e0_prot m /\ e0_unprot m' = e0_unprot m).
Proof. exact encrypt0_setters_frame. Qed.
Print Assumptions C19_encrypt0_setters_frame.

(* ... (CoseKeyBuilder) *)
Theorem C19_key_setters_frame :
  (forall k b, exists k', key_builder_step k (KO_key_id b) = Ok k'
      /\ k_kid k' = b /\ k_kty k' = k_kty k /\ k_alg k' = k_alg k /\ k_ops k' = k_ops k
      /\ k_base_iv k' = k_base_iv k /\ k_params k' = k_params k)
  /\ (forall k b, exists k', key_builder_step k (KO_base_iv b) = Ok k'
      /\ k_base_iv k' = b /\ k_kty k' = k_kty k /\ k_kid k' = k_kid k /\ k_alg k' = k_alg k
      /\ k_ops k' = k_ops k /\ k_params k' = k_params k)
  /\ (forall k t, exists k', key_builder_step k (KO_key_type t) = Ok k'
      /\ k_kty k' = RAssigned t /\ k_kid k' = k_kid k /\ k_alg k' = k_alg k /\ k_ops k' = k_ops k
      /\ k_base_iv k' = k_base_iv k /\ k_params k' = k_params k)
  /\ (forall k a, exists k', key_builder_step k (KO_algorithm a) = Ok k'
      /\ k_alg k' = Some (PAssigned a) /\ k_kty k' = k_kty k /\ k_kid k' = k_kid k
      /\ k_ops k' = k_ops k /\ k_base_iv k' = k_base_iv k /\ k_params k' = k_params k).
Proof. exact key_setters_frame. Qed.
Print Assumptions C19_key_setters_frame.

(* a later setter overrides an earlier one *)
Theorem C19_later_setter_overrides :
  (forall m h1 h2,
     (do m1 <- sign1_builder_step m (S1_unprotected h1); sign1_builder_step m1 (S1_unprotected h2))
     = sign1_builder_step m (S1_unprotected h2))
  /\ (forall m b1 b2,
     (do m1 <- sign1_builder_step m (S1_payload b1); sign1_builder_step m1 (S1_payload b2))
     = sign1_builder_step m (S1_payload b2)).
Proof. exact later_setter_overrides. Qed.
Print Assumptions C19_later_setter_overrides.

(* the key constructors populate exactly the key type and parameters they name *)
Theorem C19_key_constructors :
  (forall k c x y, key_builder_step k (KO_new_ec2_pub_key c x y) =
     Ok (mkKey (RAssigned 2) [] None [] []
               [(LInt (-1), VInt c); (LInt (-2), VBytes x); (LInt (-3), VBytes y)]))
  /\ (forall k c x ys, key_builder_step k (KO_new_ec2_pub_key_y_sign c x ys) =
     Ok (mkKey (RAssigned 2) [] None [] []
               [(LInt (-1), VInt c); (LInt (-2), VBytes x); (LInt (-3), VBool ys)]))
  /\ (forall k c x y d, key_builder_step k (KO_new_ec2_priv_key c x y d) =
     Ok (mkKey (RAssigned 2) [] None [] []
               [(LInt (-1), VInt c); (LInt (-2), VBytes x); (LInt (-3), VBytes y);
                (LInt (-4), VBytes d)]))
  /\ (forall k kk, key_builder_step k (KO_new_symmetric_key kk) =
     Ok (mkKey (RAssigned 4) [] None [] [] [(LInt (-1), VBytes kk)]))
  /\ (forall k, key_builder_step k KO_new_okp_key =
     Ok (mkKey (RAssigned 1) [] None [] [] [])).
Proof. exact key_constructors. Qed.
Print Assumptions C19_key_constructors.

Example C19_nonvacuous :
  run_ops header_builder_step [HO_iv [x01]; HO_partial_iv [x02]; HO_value 8 VNull] header_default
  = Ok (mkHeader None [] None [] [] [x02] [] [(LInt 8, VNull)])
  /\ run_ops header_builder_step [HO_value 7 VNull] header_default = Panic.
Proof. split; reflexivity. Qed.

(* ===== all 14 builders (Proofs/BuilderFrames.v): exact effect of every call (the one field it
   replaces or appends to, every other field unchanged, documented panics exact; creators: the
   closure's output goes to exactly one field), frame law for every returning call, later setter
   overrides earlier, accumulation laws, and commutation of independent calls ===== *)
Theorem C19_header_step_effect :
  (forall h b, exists h', header_builder_step h (HO_key_id b) = Ok h' /\
     header_fields h' (h_alg h) (h_crit h) (h_ctype h) b (h_iv h) (h_piv h) (h_csigs h) (h_rest h))
  /\ (forall h a, exists h', header_builder_step h (HO_algorithm a) = Ok h' /\
     header_fields h' (Some (PAssigned a)) (h_crit h) (h_ctype h) (h_kid h) (h_iv h) (h_piv h) (h_csigs h) (h_rest h))
  /\ (forall h p, exists h', header_builder_step h (HO_add_critical p) = Ok h' /\
     header_fields h' (h_alg h) (h_crit h ++ [RAssigned p]) (h_ctype h) (h_kid h) (h_iv h) (h_piv h) (h_csigs h) (h_rest h))
  /\ (forall h l, exists h', header_builder_step h (HO_add_critical_label l) = Ok h' /\
     header_fields h' (h_alg h) (h_crit h ++ [l]) (h_ctype h) (h_kid h) (h_iv h) (h_piv h) (h_csigs h) (h_rest h))
  /\ (forall h cf, exists h', header_builder_step h (HO_content_format cf) = Ok h' /\
     header_fields h' (h_alg h) (h_crit h) (Some (RAssigned cf)) (h_kid h) (h_iv h) (h_piv h) (h_csigs h) (h_rest h))
  /\ (forall h t, exists h', header_builder_step h (HO_content_type t) = Ok h' /\
     header_fields h' (h_alg h) (h_crit h) (Some (RText t)) (h_kid h) (h_iv h) (h_piv h) (h_csigs h) (h_rest h))
  (* iv clears partial_iv and conversely *)
  /\ (forall h b, exists h', header_builder_step h (HO_iv b) = Ok h' /\
     header_fields h' (h_alg h) (h_crit h) (h_ctype h) (h_kid h) b [] (h_csigs h) (h_rest h))
  /\ (forall h b, exists h', header_builder_step h (HO_partial_iv b) = Ok h' /\
     header_fields h' (h_alg h) (h_crit h) (h_ctype h) (h_kid h) [] b (h_csigs h) (h_rest h))
  /\ (forall h s, exists h', header_builder_step h (HO_add_counter_signature s) = Ok h' /\
     header_fields h' (h_alg h) (h_crit h) (h_ctype h) (h_kid h) (h_iv h) (h_piv h) (h_csigs h ++ [s]) (h_rest h))
  (* value: documented panic exactly on the core labels 1..7 *)
  /\ (forall h l v, ~ (1 <= l <= 7) -> exists h', header_builder_step h (HO_value l v) = Ok h' /\
     header_fields h' (h_alg h) (h_crit h) (h_ctype h) (h_kid h) (h_iv h) (h_piv h) (h_csigs h) (h_rest h ++ [(LInt l, v)]))
  /\ (forall h l v, 1 <= l <= 7 -> header_builder_step h (HO_value l v) = Panic)
  /\ (forall h l v, exists h', header_builder_step h (HO_text_value l v) = Ok h' /\
     header_fields h' (h_alg h) (h_crit h) (h_ctype h) (h_kid h) (h_iv h) (h_piv h) (h_csigs h) (h_rest h ++ [(LText l, v)])).
Proof. exact BuilderFrames.header_step_effect. Qed.
Print Assumptions C19_header_step_effect.

Theorem C19_header_step_frame :
  forall h o h',
  header_builder_step h o = Ok h' -> header_unchanged_outside (header_writes o) h h'.
Proof. exact BuilderFrames.header_step_frame. Qed.
Print Assumptions C19_header_step_frame.

Theorem C19_header_later_setter_overrides :
  (forall h b1 b2, seq2 header_builder_step h (HO_key_id b1) (HO_key_id b2) = header_builder_step h (HO_key_id b2))
  /\ (forall h a1 a2, seq2 header_builder_step h (HO_algorithm a1) (HO_algorithm a2) = header_builder_step h (HO_algorithm a2))
  /\ (forall h a1 a2, seq2 header_builder_step h (HO_content_format a1) (HO_content_format a2) = header_builder_step h (HO_content_format a2))
  /\ (forall h a1 a2, seq2 header_builder_step h (HO_content_type a1) (HO_content_type a2) = header_builder_step h (HO_content_type a2))
  (* content_format and content_type set the same field *)
  /\ (forall h a1 a2, seq2 header_builder_step h (HO_content_format a1) (HO_content_type a2) = header_builder_step h (HO_content_type a2))
  /\ (forall h a1 a2, seq2 header_builder_step h (HO_content_type a1) (HO_content_format a2) = header_builder_step h (HO_content_format a2))
  /\ (forall h b1 b2, seq2 header_builder_step h (HO_iv b1) (HO_iv b2) = header_builder_step h (HO_iv b2))
  /\ (forall h b1 b2, seq2 header_builder_step h (HO_partial_iv b1) (HO_partial_iv b2) = header_builder_step h (HO_partial_iv b2))
  (* iv and partial_iv override each other *)
  /\ (forall h b1 b2, seq2 header_builder_step h (HO_iv b1) (HO_partial_iv b2) = header_builder_step h (HO_partial_iv b2))
  /\ (forall h b1 b2, seq2 header_builder_step h (HO_partial_iv b1) (HO_iv b2) = header_builder_step h (HO_iv b2)).
Proof. exact BuilderFrames.header_later_setter_overrides. Qed.
Print Assumptions C19_header_later_setter_overrides.

Theorem C19_header_accumulates :
  (forall h p, header_builder_step h (HO_add_critical p) = header_builder_step h (HO_add_critical_label (RAssigned p)))
  /\ (forall ls h, run_ops header_builder_step (map HO_add_critical_label ls) h = Ok (set_crit (h_crit h ++ ls) h))
  /\ (forall ps h, run_ops header_builder_step (map HO_add_critical ps) h = Ok (set_crit (h_crit h ++ map RAssigned ps) h))
  /\ (forall ss h, run_ops header_builder_step (map HO_add_counter_signature ss) h = Ok (set_csigs (h_csigs h ++ ss) h))
  /\ (forall lvs h, Forall (fun lv => ~ (1 <= fst lv <= 7)) lvs ->
        run_ops header_builder_step (map (fun lv => HO_value (fst lv) (snd lv)) lvs) h
        = Ok (set_rest (h_rest h ++ map (fun lv => (LInt (fst lv), snd lv)) lvs) h))
  /\ (forall lvs h,
        run_ops header_builder_step (map (fun lv => HO_text_value (fst lv) (snd lv)) lvs) h
        = Ok (set_rest (h_rest h ++ map (fun lv => (LText (fst lv), snd lv)) lvs) h)).
Proof. exact BuilderFrames.header_accumulates. Qed.
Print Assumptions C19_header_accumulates.

Theorem C19_header_ops_commute :
  forall h o1 o2, header_independent o1 o2 ->
  seq2 header_builder_step h o1 o2 = seq2 header_builder_step h o2 o1.
Proof. exact BuilderFrames.header_ops_commute. Qed.
Print Assumptions C19_header_ops_commute.

Theorem C19_signature_step_effect :
  (* retained wire bytes are dropped *)
  (forall s h, exists s', signature_builder_step s (SO_protected h) = Ok s' /\
     signature_fields s' (mkProtected None h) (s_unprot s) (s_sig s))
  /\ (forall s h, exists s', signature_builder_step s (SO_unprotected h) = Ok s' /\
     signature_fields s' (s_prot s) h (s_sig s))
  /\ (forall s b, exists s', signature_builder_step s (SO_signature b) = Ok s' /\
     signature_fields s' (s_prot s) (s_unprot s) b).
Proof. exact BuilderFrames.signature_step_effect. Qed.
Print Assumptions C19_signature_step_effect.

Theorem C19_signature_step_frame :
  forall s o s',
  signature_builder_step s o = Ok s' -> signature_unchanged_outside (signature_writes o) s s'.
Proof. exact BuilderFrames.signature_step_frame. Qed.
Print Assumptions C19_signature_step_frame.

Theorem C19_signature_later_setter_overrides :
  (forall s h1 h2, seq2 signature_builder_step s (SO_protected h1) (SO_protected h2) = signature_builder_step s (SO_protected h2))
  /\ (forall s h1 h2, seq2 signature_builder_step s (SO_unprotected h1) (SO_unprotected h2) = signature_builder_step s (SO_unprotected h2))
  /\ (forall s b1 b2, seq2 signature_builder_step s (SO_signature b1) (SO_signature b2) = signature_builder_step s (SO_signature b2)).
Proof. exact BuilderFrames.signature_later_setter_overrides. Qed.
Print Assumptions C19_signature_later_setter_overrides.

Theorem C19_signature_ops_commute :
  forall s o1 o2, signature_independent o1 o2 ->
  seq2 signature_builder_step s o1 o2 = seq2 signature_builder_step s o2 o1.
Proof. exact BuilderFrames.signature_ops_commute. Qed.
Print Assumptions C19_signature_ops_commute.

Theorem C19_sign1_step_effect :
  (* retained wire bytes are dropped *)
  (forall m h, exists m', sign1_builder_step m (S1_protected h) = Ok m' /\
     sign1_fields m' (mkProtected None h) (s1_unprot m) (s1_payload m) (s1_sig m))
  /\ (forall m h, exists m', sign1_builder_step m (S1_unprotected h) = Ok m' /\
     sign1_fields m' (s1_prot m) h (s1_payload m) (s1_sig m))
  /\ (forall m b, exists m', sign1_builder_step m (S1_signature b) = Ok m' /\
     sign1_fields m' (s1_prot m) (s1_unprot m) (s1_payload m) b)
  /\ (forall m b, exists m', sign1_builder_step m (S1_payload b) = Ok m' /\
     sign1_fields m' (s1_prot m) (s1_unprot m) (Some b) (s1_sig m))
  /\ (forall m aad f, creator_spec (sign1_builder_step m (S1_create_signature aad f))
     (Sign1_tbs_data m aad) f
     (serialisable (s1_prot m))
     (fun m' out => sign1_fields m' (s1_prot m) (s1_unprot m) (s1_payload m) out))
  /\ (forall m pl aad f, creator_spec (sign1_builder_step m (S1_create_detached_signature pl aad f))
     (Sign1_tbs_detached_data m pl aad) f
     (s1_payload m = None /\ serialisable (s1_prot m))
     (fun m' out => sign1_fields m' (s1_prot m) (s1_unprot m) (s1_payload m) out))
  /\ (forall m aad f, creator_spec (sign1_builder_step m (S1_try_create_signature aad f))
     (Sign1_tbs_data m aad) f
     (serialisable (s1_prot m))
     (fun m' out => sign1_fields m' (s1_prot m) (s1_unprot m) (s1_payload m) out))
  /\ (forall m pl aad f, creator_spec (sign1_builder_step m (S1_try_create_detached_signature pl aad f))
     (Sign1_tbs_detached_data m pl aad) f
     (s1_payload m = None /\ serialisable (s1_prot m))
     (fun m' out => sign1_fields m' (s1_prot m) (s1_unprot m) (s1_payload m) out)).
Proof. exact BuilderFrames.sign1_step_effect. Qed.
Print Assumptions C19_sign1_step_effect.

Theorem C19_sign1_step_frame :
  forall m o m',
  sign1_builder_step m o = Ok m' -> sign1_unchanged_outside (sign1_writes o) m m'.
Proof. exact BuilderFrames.sign1_step_frame. Qed.
Print Assumptions C19_sign1_step_frame.

Theorem C19_sign1_later_setter_overrides :
  (forall m h1 h2, seq2 sign1_builder_step m (S1_protected h1) (S1_protected h2) = sign1_builder_step m (S1_protected h2))
  /\ (forall m h1 h2, seq2 sign1_builder_step m (S1_unprotected h1) (S1_unprotected h2) = sign1_builder_step m (S1_unprotected h2))
  /\ (forall m b1 b2, seq2 sign1_builder_step m (S1_signature b1) (S1_signature b2) = sign1_builder_step m (S1_signature b2))
  /\ (forall m b1 b2, seq2 sign1_builder_step m (S1_payload b1) (S1_payload b2) = sign1_builder_step m (S1_payload b2)).
Proof. exact BuilderFrames.sign1_later_setter_overrides. Qed.
Print Assumptions C19_sign1_later_setter_overrides.

Theorem C19_sign1_ops_commute :
  forall m o1 o2, sign1_independent o1 o2 ->
  seq2 sign1_builder_step m o1 o2 = seq2 sign1_builder_step m o2 o1.
Proof. exact BuilderFrames.sign1_ops_commute. Qed.
Print Assumptions C19_sign1_ops_commute.

Theorem C19_sign_step_effect :
  (* retained wire bytes are dropped *)
  (forall m h, exists m', sign_builder_step m (SN_protected h) = Ok m' /\
     sign_fields m' (mkProtected None h) (sn_unprot m) (sn_payload m) (sn_sigs m))
  /\ (forall m h, exists m', sign_builder_step m (SN_unprotected h) = Ok m' /\
     sign_fields m' (sn_prot m) h (sn_payload m) (sn_sigs m))
  /\ (forall m b, exists m', sign_builder_step m (SN_payload b) = Ok m' /\
     sign_fields m' (sn_prot m) (sn_unprot m) (Some b) (sn_sigs m))
  /\ (forall m s, exists m', sign_builder_step m (SN_add_signature s) = Ok m' /\
     sign_fields m' (sn_prot m) (sn_unprot m) (sn_payload m) (sn_sigs m ++ [s]))
  /\ (forall m s aad f, creator_spec (sign_builder_step m (SN_add_created_signature s aad f))
     (Sign_tbs_data m aad s) f
     (serialisable (sn_prot m) /\ serialisable (s_prot s))
     (fun m' out => sign_fields m' (sn_prot m) (sn_unprot m) (sn_payload m)
        (sn_sigs m ++ [mkSignature (s_prot s) (s_unprot s) out])))
  /\ (forall m s pl aad f, creator_spec (sign_builder_step m (SN_add_detached_signature s pl aad f))
     (Sign_tbs_detached_data m pl aad s) f
     (sn_payload m = None /\ serialisable (sn_prot m) /\ serialisable (s_prot s))
     (fun m' out => sign_fields m' (sn_prot m) (sn_unprot m) (sn_payload m)
        (sn_sigs m ++ [mkSignature (s_prot s) (s_unprot s) out])))
  /\ (forall m s aad f, creator_spec (sign_builder_step m (SN_try_add_created_signature s aad f))
     (Sign_tbs_data m aad s) f
     (serialisable (sn_prot m) /\ serialisable (s_prot s))
     (fun m' out => sign_fields m' (sn_prot m) (sn_unprot m) (sn_payload m)
        (sn_sigs m ++ [mkSignature (s_prot s) (s_unprot s) out])))
  /\ (forall m s pl aad f, creator_spec (sign_builder_step m (SN_try_add_detached_signature s pl aad f))
     (Sign_tbs_detached_data m pl aad s) f
     (sn_payload m = None /\ serialisable (sn_prot m) /\ serialisable (s_prot s))
     (fun m' out => sign_fields m' (sn_prot m) (sn_unprot m) (sn_payload m)
        (sn_sigs m ++ [mkSignature (s_prot s) (s_unprot s) out]))).
Proof. exact BuilderFrames.sign_step_effect. Qed.
Print Assumptions C19_sign_step_effect.

Theorem C19_sign_step_frame :
  forall m o m',
  sign_builder_step m o = Ok m' -> sign_unchanged_outside (sign_writes o) m m'.
Proof. exact BuilderFrames.sign_step_frame. Qed.
Print Assumptions C19_sign_step_frame.

Theorem C19_sign_later_setter_overrides :
  (forall m h1 h2, seq2 sign_builder_step m (SN_protected h1) (SN_protected h2) = sign_builder_step m (SN_protected h2))
  /\ (forall m h1 h2, seq2 sign_builder_step m (SN_unprotected h1) (SN_unprotected h2) = sign_builder_step m (SN_unprotected h2))
  /\ (forall m b1 b2, seq2 sign_builder_step m (SN_payload b1) (SN_payload b2) = sign_builder_step m (SN_payload b2)).
Proof. exact BuilderFrames.sign_later_setter_overrides. Qed.
Print Assumptions C19_sign_later_setter_overrides.

Theorem C19_sign_accumulates :
  (forall l m, run_ops sign_builder_step (map SN_add_signature l) m =
     Ok (mkSign (sn_prot m) (sn_unprot m) (sn_payload m) (sn_sigs m ++ l))).
Proof. exact BuilderFrames.sign_accumulates. Qed.
Print Assumptions C19_sign_accumulates.

Theorem C19_sign_ops_commute :
  forall m o1 o2, sign_independent o1 o2 ->
  seq2 sign_builder_step m o1 o2 = seq2 sign_builder_step m o2 o1.
Proof. exact BuilderFrames.sign_ops_commute. Qed.
Print Assumptions C19_sign_ops_commute.

Theorem C19_mac0_step_effect :
  (* retained wire bytes are dropped *)
  (forall m h, exists m', mac0_builder_step m (M0_protected h) = Ok m' /\
     mac0_fields m' (mkProtected None h) (m0_unprot m) (m0_payload m) (m0_tag m))
  /\ (forall m h, exists m', mac0_builder_step m (M0_unprotected h) = Ok m' /\
     mac0_fields m' (m0_prot m) h (m0_payload m) (m0_tag m))
  /\ (forall m b, exists m', mac0_builder_step m (M0_tag b) = Ok m' /\
     mac0_fields m' (m0_prot m) (m0_unprot m) (m0_payload m) b)
  /\ (forall m b, exists m', mac0_builder_step m (M0_payload b) = Ok m' /\
     mac0_fields m' (m0_prot m) (m0_unprot m) (Some b) (m0_tag m))
  /\ (forall m aad f, creator_spec (mac0_builder_step m (M0_create_tag aad f))
     (Mac0_tbm m aad) f
     (m0_payload m <> None /\ serialisable (m0_prot m))
     (fun m' out => mac0_fields m' (m0_prot m) (m0_unprot m) (m0_payload m) out))
  /\ (forall m aad f, creator_spec (mac0_builder_step m (M0_try_create_tag aad f))
     (Mac0_tbm m aad) f
     (m0_payload m <> None /\ serialisable (m0_prot m))
     (fun m' out => mac0_fields m' (m0_prot m) (m0_unprot m) (m0_payload m) out)).
Proof. exact BuilderFrames.mac0_step_effect. Qed.
Print Assumptions C19_mac0_step_effect.

Theorem C19_mac0_step_frame :
  forall m o m',
  mac0_builder_step m o = Ok m' -> mac0_unchanged_outside (mac0_writes o) m m'.
Proof. exact BuilderFrames.mac0_step_frame. Qed.
Print Assumptions C19_mac0_step_frame.

Theorem C19_mac0_later_setter_overrides :
  (forall m h1 h2, seq2 mac0_builder_step m (M0_protected h1) (M0_protected h2) = mac0_builder_step m (M0_protected h2))
  /\ (forall m h1 h2, seq2 mac0_builder_step m (M0_unprotected h1) (M0_unprotected h2) = mac0_builder_step m (M0_unprotected h2))
  /\ (forall m b1 b2, seq2 mac0_builder_step m (M0_tag b1) (M0_tag b2) = mac0_builder_step m (M0_tag b2))
  /\ (forall m b1 b2, seq2 mac0_builder_step m (M0_payload b1) (M0_payload b2) = mac0_builder_step m (M0_payload b2)).
Proof. exact BuilderFrames.mac0_later_setter_overrides. Qed.
Print Assumptions C19_mac0_later_setter_overrides.

Theorem C19_mac0_ops_commute :
  forall m o1 o2, mac0_independent o1 o2 ->
  seq2 mac0_builder_step m o1 o2 = seq2 mac0_builder_step m o2 o1.
Proof. exact BuilderFrames.mac0_ops_commute. Qed.
Print Assumptions C19_mac0_ops_commute.

Theorem C19_mac_step_effect :
  (* retained wire bytes are dropped *)
  (forall m h, exists m', mac_builder_step m (MC_protected h) = Ok m' /\
     mac_fields m' (mkProtected None h) (mc_unprot m) (mc_payload m) (mc_tag m) (mc_recipients m))
  /\ (forall m h, exists m', mac_builder_step m (MC_unprotected h) = Ok m' /\
     mac_fields m' (mc_prot m) h (mc_payload m) (mc_tag m) (mc_recipients m))
  /\ (forall m b, exists m', mac_builder_step m (MC_tag b) = Ok m' /\
     mac_fields m' (mc_prot m) (mc_unprot m) (mc_payload m) b (mc_recipients m))
  /\ (forall m b, exists m', mac_builder_step m (MC_payload b) = Ok m' /\
     mac_fields m' (mc_prot m) (mc_unprot m) (Some b) (mc_tag m) (mc_recipients m))
  /\ (forall m r, exists m', mac_builder_step m (MC_add_recipient r) = Ok m' /\
     mac_fields m' (mc_prot m) (mc_unprot m) (mc_payload m) (mc_tag m) (mc_recipients m ++ [r]))
  /\ (forall m aad f, creator_spec (mac_builder_step m (MC_create_tag aad f))
     (Mac_tbm m aad) f
     (mc_payload m <> None /\ serialisable (mc_prot m))
     (fun m' out => mac_fields m' (mc_prot m) (mc_unprot m) (mc_payload m) out (mc_recipients m)))
  /\ (forall m aad f, creator_spec (mac_builder_step m (MC_try_create_tag aad f))
     (Mac_tbm m aad) f
     (mc_payload m <> None /\ serialisable (mc_prot m))
     (fun m' out => mac_fields m' (mc_prot m) (mc_unprot m) (mc_payload m) out (mc_recipients m))).
Proof. exact BuilderFrames.mac_step_effect. Qed.
Print Assumptions C19_mac_step_effect.

Theorem C19_mac_step_frame :
  forall m o m',
  mac_builder_step m o = Ok m' -> mac_unchanged_outside (mac_writes o) m m'.
Proof. exact BuilderFrames.mac_step_frame. Qed.
Print Assumptions C19_mac_step_frame.

Theorem C19_mac_later_setter_overrides :
  (forall m h1 h2, seq2 mac_builder_step m (MC_protected h1) (MC_protected h2) = mac_builder_step m (MC_protected h2))
  /\ (forall m h1 h2, seq2 mac_builder_step m (MC_unprotected h1) (MC_unprotected h2) = mac_builder_step m (MC_unprotected h2))
  /\ (forall m b1 b2, seq2 mac_builder_step m (MC_tag b1) (MC_tag b2) = mac_builder_step m (MC_tag b2))
  /\ (forall m b1 b2, seq2 mac_builder_step m (MC_payload b1) (MC_payload b2) = mac_builder_step m (MC_payload b2)).
Proof. exact BuilderFrames.mac_later_setter_overrides. Qed.
Print Assumptions C19_mac_later_setter_overrides.

Theorem C19_mac_accumulates :
  (forall l m, run_ops mac_builder_step (map MC_add_recipient l) m =
     Ok (mkMac (mc_prot m) (mc_unprot m) (mc_payload m) (mc_tag m) (mc_recipients m ++ l))).
Proof. exact BuilderFrames.mac_accumulates. Qed.
Print Assumptions C19_mac_accumulates.

Theorem C19_mac_ops_commute :
  forall m o1 o2, mac_independent o1 o2 ->
  seq2 mac_builder_step m o1 o2 = seq2 mac_builder_step m o2 o1.
Proof. exact BuilderFrames.mac_ops_commute. Qed.
Print Assumptions C19_mac_ops_commute.

Theorem C19_recipient_step_effect :
  (* retained wire bytes are dropped *)
  (forall m h, exists m', recipient_builder_step m (RO_protected h) = Ok m' /\
     recipient_fields m' (mkProtected None h) (r_unprot m) (r_ct m) (r_recipients m))
  /\ (forall m h, exists m', recipient_builder_step m (RO_unprotected h) = Ok m' /\
     recipient_fields m' (r_prot m) h (r_ct m) (r_recipients m))
  /\ (forall m b, exists m', recipient_builder_step m (RO_ciphertext b) = Ok m' /\
     recipient_fields m' (r_prot m) (r_unprot m) (Some b) (r_recipients m))
  /\ (forall m r, exists m', recipient_builder_step m (RO_add_recipient r) = Ok m' /\
     recipient_fields m' (r_prot m) (r_unprot m) (r_ct m) (r_recipients m ++ [r]))
  /\ (forall m c pt aad f, creator_spec (recipient_builder_step m (RO_create_ciphertext c pt aad f))
     (recipient_aad m c aad) (f pt)
     (is_recipient_context c = true /\ serialisable (r_prot m))
     (fun m' out => recipient_fields m' (r_prot m) (r_unprot m) (Some out) (r_recipients m)))
  /\ (forall m c pt aad f, creator_spec (recipient_builder_step m (RO_try_create_ciphertext c pt aad f))
     (recipient_aad m c aad) (f pt)
     (is_recipient_context c = true /\ serialisable (r_prot m))
     (fun m' out => recipient_fields m' (r_prot m) (r_unprot m) (Some out) (r_recipients m))).
Proof. exact BuilderFrames.recipient_step_effect. Qed.
Print Assumptions C19_recipient_step_effect.

Theorem C19_recipient_step_frame :
  forall m o m',
  recipient_builder_step m o = Ok m' -> recipient_unchanged_outside (recipient_writes o) m m'.
Proof. exact BuilderFrames.recipient_step_frame. Qed.
Print Assumptions C19_recipient_step_frame.

Theorem C19_recipient_later_setter_overrides :
  (forall m h1 h2, seq2 recipient_builder_step m (RO_protected h1) (RO_protected h2) = recipient_builder_step m (RO_protected h2))
  /\ (forall m h1 h2, seq2 recipient_builder_step m (RO_unprotected h1) (RO_unprotected h2) = recipient_builder_step m (RO_unprotected h2))
  /\ (forall m b1 b2, seq2 recipient_builder_step m (RO_ciphertext b1) (RO_ciphertext b2) = recipient_builder_step m (RO_ciphertext b2)).
Proof. exact BuilderFrames.recipient_later_setter_overrides. Qed.
Print Assumptions C19_recipient_later_setter_overrides.

Theorem C19_recipient_accumulates :
  (forall l m, run_ops recipient_builder_step (map RO_add_recipient l) m =
     Ok (mkRecipient (r_prot m) (r_unprot m) (r_ct m) (r_recipients m ++ l))).
Proof. exact BuilderFrames.recipient_accumulates. Qed.
Print Assumptions C19_recipient_accumulates.

Theorem C19_recipient_ops_commute :
  forall m o1 o2, recipient_independent o1 o2 ->
  seq2 recipient_builder_step m o1 o2 = seq2 recipient_builder_step m o2 o1.
Proof. exact BuilderFrames.recipient_ops_commute. Qed.
Print Assumptions C19_recipient_ops_commute.

Theorem C19_encrypt_step_effect :
  (* retained wire bytes are dropped *)
  (forall m h, exists m', encrypt_builder_step m (EO_protected h) = Ok m' /\
     encrypt_fields m' (mkProtected None h) (en_unprot m) (en_ct m) (en_recipients m))
  /\ (forall m h, exists m', encrypt_builder_step m (EO_unprotected h) = Ok m' /\
     encrypt_fields m' (en_prot m) h (en_ct m) (en_recipients m))
  /\ (forall m b, exists m', encrypt_builder_step m (EO_ciphertext b) = Ok m' /\
     encrypt_fields m' (en_prot m) (en_unprot m) (Some b) (en_recipients m))
  /\ (forall m r, exists m', encrypt_builder_step m (EO_add_recipient r) = Ok m' /\
     encrypt_fields m' (en_prot m) (en_unprot m) (en_ct m) (en_recipients m ++ [r]))
  /\ (forall m pt aad f, creator_spec (encrypt_builder_step m (EO_create_ciphertext pt aad f))
     (enc_structure_data EncCoseEncrypt (en_prot m) aad) (f pt)
     (serialisable (en_prot m))
     (fun m' out => encrypt_fields m' (en_prot m) (en_unprot m) (Some out) (en_recipients m)))
  /\ (forall m pt aad f, creator_spec (encrypt_builder_step m (EO_try_create_ciphertext pt aad f))
     (enc_structure_data EncCoseEncrypt (en_prot m) aad) (f pt)
     (serialisable (en_prot m))
     (fun m' out => encrypt_fields m' (en_prot m) (en_unprot m) (Some out) (en_recipients m))).
Proof. exact BuilderFrames.encrypt_step_effect. Qed.
Print Assumptions C19_encrypt_step_effect.

Theorem C19_encrypt_step_frame :
  forall m o m',
  encrypt_builder_step m o = Ok m' -> encrypt_unchanged_outside (encrypt_writes o) m m'.
Proof. exact BuilderFrames.encrypt_step_frame. Qed.
Print Assumptions C19_encrypt_step_frame.

Theorem C19_encrypt_later_setter_overrides :
  (forall m h1 h2, seq2 encrypt_builder_step m (EO_protected h1) (EO_protected h2) = encrypt_builder_step m (EO_protected h2))
  /\ (forall m h1 h2, seq2 encrypt_builder_step m (EO_unprotected h1) (EO_unprotected h2) = encrypt_builder_step m (EO_unprotected h2))
  /\ (forall m b1 b2, seq2 encrypt_builder_step m (EO_ciphertext b1) (EO_ciphertext b2) = encrypt_builder_step m (EO_ciphertext b2)).
Proof. exact BuilderFrames.encrypt_later_setter_overrides. Qed.
Print Assumptions C19_encrypt_later_setter_overrides.

Theorem C19_encrypt_accumulates :
  (forall l m, run_ops encrypt_builder_step (map EO_add_recipient l) m =
     Ok (mkEncrypt (en_prot m) (en_unprot m) (en_ct m) (en_recipients m ++ l))).
Proof. exact BuilderFrames.encrypt_accumulates. Qed.
Print Assumptions C19_encrypt_accumulates.

Theorem C19_encrypt_ops_commute :
  forall m o1 o2, encrypt_independent o1 o2 ->
  seq2 encrypt_builder_step m o1 o2 = seq2 encrypt_builder_step m o2 o1.
Proof. exact BuilderFrames.encrypt_ops_commute. Qed.
Print Assumptions C19_encrypt_ops_commute.

Theorem C19_encrypt0_step_effect :
  (* retained wire bytes are dropped *)
  (forall m h, exists m', encrypt0_builder_step m (E0_protected h) = Ok m' /\
     encrypt0_fields m' (mkProtected None h) (e0_unprot m) (e0_ct m))
  /\ (forall m h, exists m', encrypt0_builder_step m (E0_unprotected h) = Ok m' /\
     encrypt0_fields m' (e0_prot m) h (e0_ct m))
  /\ (forall m b, exists m', encrypt0_builder_step m (E0_ciphertext b) = Ok m' /\
     encrypt0_fields m' (e0_prot m) (e0_unprot m) (Some b))
  /\ (forall m pt aad f, creator_spec (encrypt0_builder_step m (E0_create_ciphertext pt aad f))
     (enc_structure_data EncCoseEncrypt0 (e0_prot m) aad) (f pt)
     (serialisable (e0_prot m))
     (fun m' out => encrypt0_fields m' (e0_prot m) (e0_unprot m) (Some out)))
  /\ (forall m pt aad f, creator_spec (encrypt0_builder_step m (E0_try_create_ciphertext pt aad f))
     (enc_structure_data EncCoseEncrypt0 (e0_prot m) aad) (f pt)
     (serialisable (e0_prot m))
     (fun m' out => encrypt0_fields m' (e0_prot m) (e0_unprot m) (Some out))).
Proof. exact BuilderFrames.encrypt0_step_effect. Qed.
Print Assumptions C19_encrypt0_step_effect.

Theorem C19_encrypt0_step_frame :
  forall m o m',
  encrypt0_builder_step m o = Ok m' -> encrypt0_unchanged_outside (encrypt0_writes o) m m'.
Proof. exact BuilderFrames.encrypt0_step_frame. Qed.
Print Assumptions C19_encrypt0_step_frame.

Theorem C19_encrypt0_later_setter_overrides :
  (forall m h1 h2, seq2 encrypt0_builder_step m (E0_protected h1) (E0_protected h2) = encrypt0_builder_step m (E0_protected h2))
  /\ (forall m h1 h2, seq2 encrypt0_builder_step m (E0_unprotected h1) (E0_unprotected h2) = encrypt0_builder_step m (E0_unprotected h2))
  /\ (forall m b1 b2, seq2 encrypt0_builder_step m (E0_ciphertext b1) (E0_ciphertext b2) = encrypt0_builder_step m (E0_ciphertext b2)).
Proof. exact BuilderFrames.encrypt0_later_setter_overrides. Qed.
Print Assumptions C19_encrypt0_later_setter_overrides.

Theorem C19_encrypt0_ops_commute :
  forall m o1 o2, encrypt0_independent o1 o2 ->
  seq2 encrypt0_builder_step m o1 o2 = seq2 encrypt0_builder_step m o2 o1.
Proof. exact BuilderFrames.encrypt0_ops_commute. Qed.
Print Assumptions C19_encrypt0_ops_commute.

Theorem C19_key_step_effect :
  (* the constructors reset every field *)
  (forall k, exists k', key_builder_step k KO_new = Ok k' /\
     key_fields k' (RAssigned 0) [] None [] [] [])
  /\ (forall k c x y, exists k', key_builder_step k (KO_new_ec2_pub_key c x y) = Ok k' /\
     key_fields k' (RAssigned 2) [] None [] [] [(LInt (-1), VInt c); (LInt (-2), VBytes x); (LInt (-3), VBytes y)])
  /\ (forall k c x ys, exists k', key_builder_step k (KO_new_ec2_pub_key_y_sign c x ys) = Ok k' /\
     key_fields k' (RAssigned 2) [] None [] [] [(LInt (-1), VInt c); (LInt (-2), VBytes x); (LInt (-3), VBool ys)])
  /\ (forall k c x y d, exists k', key_builder_step k (KO_new_ec2_priv_key c x y d) = Ok k' /\
     key_fields k' (RAssigned 2) [] None [] [] [(LInt (-1), VInt c); (LInt (-2), VBytes x); (LInt (-3), VBytes y); (LInt (-4), VBytes d)])
  /\ (forall k kk, exists k', key_builder_step k (KO_new_symmetric_key kk) = Ok k' /\
     key_fields k' (RAssigned 4) [] None [] [] [(LInt (-1), VBytes kk)])
  /\ (forall k, exists k', key_builder_step k KO_new_okp_key = Ok k' /\
     key_fields k' (RAssigned 1) [] None [] [] [])
  /\ (forall k t, exists k', key_builder_step k (KO_kty t) = Ok k' /\
     key_fields k' t (k_kid k) (k_alg k) (k_ops k) (k_base_iv k) (k_params k))
  /\ (forall k b, exists k', key_builder_step k (KO_key_id b) = Ok k' /\
     key_fields k' (k_kty k) b (k_alg k) (k_ops k) (k_base_iv k) (k_params k))
  /\ (forall k b, exists k', key_builder_step k (KO_base_iv b) = Ok k' /\
     key_fields k' (k_kty k) (k_kid k) (k_alg k) (k_ops k) b (k_params k))
  /\ (forall k t, exists k', key_builder_step k (KO_key_type t) = Ok k' /\
     key_fields k' (RAssigned t) (k_kid k) (k_alg k) (k_ops k) (k_base_iv k) (k_params k))
  /\ (forall k a, exists k', key_builder_step k (KO_algorithm a) = Ok k' /\
     key_fields k' (k_kty k) (k_kid k) (Some (PAssigned a)) (k_ops k) (k_base_iv k) (k_params k))
  /\ (* BTreeSet insert *)
  (forall k o, exists k', key_builder_step k (KO_add_key_op o) = Ok k' /\
     key_fields k' (k_kty k) (k_kid k) (k_alg k) (snd (reg_set_insert (RAssigned o) (k_ops k))) (k_base_iv k) (k_params k))
  /\ (* param: documented panic exactly on the registered key parameters 0..5 *)
  (forall k l v, ~ (0 <= l <= 5) -> exists k', key_builder_step k (KO_param l v) = Ok k' /\
     key_fields k' (k_kty k) (k_kid k) (k_alg k) (k_ops k) (k_base_iv k) (k_params k ++ [(LInt l, v)]))
  /\ (forall k l v, 0 <= l <= 5 -> key_builder_step k (KO_param l v) = Panic).
Proof. exact BuilderFrames.key_step_effect. Qed.
Print Assumptions C19_key_step_effect.

Theorem C19_key_step_frame :
  forall k o k',
  key_builder_step k o = Ok k' -> key_unchanged_outside (key_writes o) k k'.
Proof. exact BuilderFrames.key_step_frame. Qed.
Print Assumptions C19_key_step_frame.

Theorem C19_key_later_setter_overrides :
  (forall k, seq2 key_builder_step k KO_new KO_new = key_builder_step k KO_new)
  /\ (forall k c1 x1 y1 c2 x2 y2, seq2 key_builder_step k (KO_new_ec2_pub_key c1 x1 y1) (KO_new_ec2_pub_key c2 x2 y2) = key_builder_step k (KO_new_ec2_pub_key c2 x2 y2))
  /\ (forall k c1 x1 ys1 c2 x2 ys2, seq2 key_builder_step k (KO_new_ec2_pub_key_y_sign c1 x1 ys1) (KO_new_ec2_pub_key_y_sign c2 x2 ys2) = key_builder_step k (KO_new_ec2_pub_key_y_sign c2 x2 ys2))
  /\ (forall k c1 x1 y1 d1 c2 x2 y2 d2, seq2 key_builder_step k (KO_new_ec2_priv_key c1 x1 y1 d1) (KO_new_ec2_priv_key c2 x2 y2 d2) = key_builder_step k (KO_new_ec2_priv_key c2 x2 y2 d2))
  /\ (forall k kk1 kk2, seq2 key_builder_step k (KO_new_symmetric_key kk1) (KO_new_symmetric_key kk2) = key_builder_step k (KO_new_symmetric_key kk2))
  /\ (forall k, seq2 key_builder_step k KO_new_okp_key KO_new_okp_key = key_builder_step k KO_new_okp_key)
  /\ (forall k t1 t2, seq2 key_builder_step k (KO_kty t1) (KO_kty t2) = key_builder_step k (KO_kty t2))
  /\ (forall k b1 b2, seq2 key_builder_step k (KO_key_id b1) (KO_key_id b2) = key_builder_step k (KO_key_id b2))
  /\ (forall k b1 b2, seq2 key_builder_step k (KO_base_iv b1) (KO_base_iv b2) = key_builder_step k (KO_base_iv b2))
  /\ (forall k t1 t2, seq2 key_builder_step k (KO_key_type t1) (KO_key_type t2) = key_builder_step k (KO_key_type t2))
  /\ (forall k a1 a2, seq2 key_builder_step k (KO_algorithm a1) (KO_algorithm a2) = key_builder_step k (KO_algorithm a2))
  /\ (* kty and key_type set the same field *)
  (forall k t, key_builder_step k (KO_key_type t) = key_builder_step k (KO_kty (RAssigned t)))
  /\ (forall k t1 t2, seq2 key_builder_step k (KO_kty t1) (KO_key_type t2) = key_builder_step k (KO_key_type t2))
  /\ (forall k t1 t2, seq2 key_builder_step k (KO_key_type t1) (KO_kty t2) = key_builder_step k (KO_kty t2)).
Proof. exact BuilderFrames.key_later_setter_overrides. Qed.
Print Assumptions C19_key_later_setter_overrides.

Theorem C19_key_accumulates :
  (forall lvs k, Forall (fun lv => ~ (0 <= fst lv <= 5)) lvs ->
     run_ops key_builder_step (map (fun lv => KO_param (fst lv) (snd lv)) lvs) k =
     Ok (set_kparams (k_params k ++ map (fun lv => (LInt (fst lv), snd lv)) lvs) k))
  /\ (* key operations form a set: calls insert in order, a repeated call changes nothing *)
  (forall os k, run_ops key_builder_step (map KO_add_key_op os) k =
     Ok (set_kops (fold_left (fun acc o => snd (reg_set_insert (RAssigned o) acc)) os (k_ops k)) k))
  /\ (forall k o, seq2 key_builder_step k (KO_add_key_op o) (KO_add_key_op o) = key_builder_step k (KO_add_key_op o))
  /\ (forall k o k' x, key_builder_step k (KO_add_key_op o) = Ok k' ->
     (In x (k_ops k') <-> x = RAssigned o \/ In x (k_ops k))).
Proof. exact BuilderFrames.key_accumulates. Qed.
Print Assumptions C19_key_accumulates.

Theorem C19_key_ops_commute :
  forall k o1 o2, key_independent o1 o2 ->
  seq2 key_builder_step k o1 o2 = seq2 key_builder_step k o2 o1.
Proof. exact BuilderFrames.key_ops_commute. Qed.
Print Assumptions C19_key_ops_commute.

Theorem C19_claims_step_effect :
  (forall c t, exists c', claims_builder_step c (CO_issuer t) = Ok c' /\
     claims_fields c' (Some t) (c_sub c) (c_aud c) (c_exp c) (c_nbf c) (c_iat c) (c_cti c) (c_rest c))
  /\ (forall c t, exists c', claims_builder_step c (CO_subject t) = Ok c' /\
     claims_fields c' (c_iss c) (Some t) (c_aud c) (c_exp c) (c_nbf c) (c_iat c) (c_cti c) (c_rest c))
  /\ (forall c t, exists c', claims_builder_step c (CO_audience t) = Ok c' /\
     claims_fields c' (c_iss c) (c_sub c) (Some t) (c_exp c) (c_nbf c) (c_iat c) (c_cti c) (c_rest c))
  /\ (forall c t, exists c', claims_builder_step c (CO_expiration_time t) = Ok c' /\
     claims_fields c' (c_iss c) (c_sub c) (c_aud c) (Some t) (c_nbf c) (c_iat c) (c_cti c) (c_rest c))
  /\ (forall c t, exists c', claims_builder_step c (CO_not_before t) = Ok c' /\
     claims_fields c' (c_iss c) (c_sub c) (c_aud c) (c_exp c) (Some t) (c_iat c) (c_cti c) (c_rest c))
  /\ (forall c t, exists c', claims_builder_step c (CO_issued_at t) = Ok c' /\
     claims_fields c' (c_iss c) (c_sub c) (c_aud c) (c_exp c) (c_nbf c) (Some t) (c_cti c) (c_rest c))
  /\ (forall c b, exists c', claims_builder_step c (CO_cwt_id b) = Ok c' /\
     claims_fields c' (c_iss c) (c_sub c) (c_aud c) (c_exp c) (c_nbf c) (c_iat c) (Some b) (c_rest c))
  /\ (* claim: documented panic exactly on the core claims 1..7 *)
  (forall c n v, ~ (1 <= n <= 7) -> exists c', claims_builder_step c (CO_claim n v) = Ok c' /\
     claims_fields c' (c_iss c) (c_sub c) (c_aud c) (c_exp c) (c_nbf c) (c_iat c) (c_cti c) (c_rest c ++ [(PAssigned n, v)]))
  /\ (forall c n v, 1 <= n <= 7 -> claims_builder_step c (CO_claim n v) = Panic)
  /\ (forall c n v, exists c', claims_builder_step c (CO_text_claim n v) = Ok c' /\
     claims_fields c' (c_iss c) (c_sub c) (c_aud c) (c_exp c) (c_nbf c) (c_iat c) (c_cti c) (c_rest c ++ [(PText n, v)]))
  /\ (* private_claim: documented panic exactly outside the private range *)
  (forall c i v, i < -65536 -> exists c', claims_builder_step c (CO_private_claim i v) = Ok c' /\
     claims_fields c' (c_iss c) (c_sub c) (c_aud c) (c_exp c) (c_nbf c) (c_iat c) (c_cti c) (c_rest c ++ [(PPrivate i, v)]))
  /\ (forall c i v, ~ (i < -65536) -> claims_builder_step c (CO_private_claim i v) = Panic).
Proof. exact BuilderFrames.claims_step_effect. Qed.
Print Assumptions C19_claims_step_effect.

Theorem C19_claims_step_frame :
  forall c o c',
  claims_builder_step c o = Ok c' -> claims_unchanged_outside (claims_writes o) c c'.
Proof. exact BuilderFrames.claims_step_frame. Qed.
Print Assumptions C19_claims_step_frame.

Theorem C19_claims_later_setter_overrides :
  (forall c t1 t2, seq2 claims_builder_step c (CO_issuer t1) (CO_issuer t2) = claims_builder_step c (CO_issuer t2))
  /\ (forall c t1 t2, seq2 claims_builder_step c (CO_subject t1) (CO_subject t2) = claims_builder_step c (CO_subject t2))
  /\ (forall c t1 t2, seq2 claims_builder_step c (CO_audience t1) (CO_audience t2) = claims_builder_step c (CO_audience t2))
  /\ (forall c t1 t2, seq2 claims_builder_step c (CO_expiration_time t1) (CO_expiration_time t2) = claims_builder_step c (CO_expiration_time t2))
  /\ (forall c t1 t2, seq2 claims_builder_step c (CO_not_before t1) (CO_not_before t2) = claims_builder_step c (CO_not_before t2))
  /\ (forall c t1 t2, seq2 claims_builder_step c (CO_issued_at t1) (CO_issued_at t2) = claims_builder_step c (CO_issued_at t2))
  /\ (forall c b1 b2, seq2 claims_builder_step c (CO_cwt_id b1) (CO_cwt_id b2) = claims_builder_step c (CO_cwt_id b2)).
Proof. exact BuilderFrames.claims_later_setter_overrides. Qed.
Print Assumptions C19_claims_later_setter_overrides.

Theorem C19_claims_accumulates :
  (forall nvs c, Forall (fun nv => ~ (1 <= fst nv <= 7)) nvs ->
     run_ops claims_builder_step (map (fun nv => CO_claim (fst nv) (snd nv)) nvs) c =
     Ok (claims_set_rest (c_rest c ++ map (fun nv => (PAssigned (fst nv), snd nv)) nvs) c))
  /\ (forall nvs c, run_ops claims_builder_step (map (fun nv => CO_text_claim (fst nv) (snd nv)) nvs) c =
     Ok (claims_set_rest (c_rest c ++ map (fun nv => (PText (fst nv), snd nv)) nvs) c))
  /\ (forall nvs c, Forall (fun nv => fst nv < -65536) nvs ->
     run_ops claims_builder_step (map (fun nv => CO_private_claim (fst nv) (snd nv)) nvs) c =
     Ok (claims_set_rest (c_rest c ++ map (fun nv => (PPrivate (fst nv), snd nv)) nvs) c)).
Proof. exact BuilderFrames.claims_accumulates. Qed.
Print Assumptions C19_claims_accumulates.

Theorem C19_claims_ops_commute :
  forall c o1 o2, claims_independent o1 o2 ->
  seq2 claims_builder_step c o1 o2 = seq2 claims_builder_step c o2 o1.
Proof. exact BuilderFrames.claims_ops_commute. Qed.
Print Assumptions C19_claims_ops_commute.

Theorem C19_party_step_effect :
  (forall p b, exists p', party_builder_step p (PO_identity b) = Ok p' /\
     party_fields p' (Some b) (pi_nonce p) (pi_other p))
  /\ (forall p n, exists p', party_builder_step p (PO_nonce n) = Ok p' /\
     party_fields p' (pi_identity p) (Some n) (pi_other p))
  /\ (forall p b, exists p', party_builder_step p (PO_other b) = Ok p' /\
     party_fields p' (pi_identity p) (pi_nonce p) (Some b)).
Proof. exact BuilderFrames.party_step_effect. Qed.
Print Assumptions C19_party_step_effect.

Theorem C19_party_step_frame :
  forall p o p',
  party_builder_step p o = Ok p' -> party_unchanged_outside (party_writes o) p p'.
Proof. exact BuilderFrames.party_step_frame. Qed.
Print Assumptions C19_party_step_frame.

Theorem C19_party_later_setter_overrides :
  (forall p b1 b2, seq2 party_builder_step p (PO_identity b1) (PO_identity b2) = party_builder_step p (PO_identity b2))
  /\ (forall p n1 n2, seq2 party_builder_step p (PO_nonce n1) (PO_nonce n2) = party_builder_step p (PO_nonce n2))
  /\ (forall p b1 b2, seq2 party_builder_step p (PO_other b1) (PO_other b2) = party_builder_step p (PO_other b2)).
Proof. exact BuilderFrames.party_later_setter_overrides. Qed.
Print Assumptions C19_party_later_setter_overrides.

Theorem C19_party_ops_commute :
  forall p o1 o2, party_independent o1 o2 ->
  seq2 party_builder_step p o1 o2 = seq2 party_builder_step p o2 o1.
Proof. exact BuilderFrames.party_ops_commute. Qed.
Print Assumptions C19_party_ops_commute.

Theorem C19_supp_step_effect :
  (forall s n, exists s', supp_builder_step s (UO_key_data_length n) = Ok s' /\
     supp_fields s' n (sp_prot s) (sp_other s))
  /\ (* retained wire bytes are dropped *)
  (forall s h, exists s', supp_builder_step s (UO_protected h) = Ok s' /\
     supp_fields s' (sp_len s) (mkProtected None h) (sp_other s))
  /\ (forall s b, exists s', supp_builder_step s (UO_other b) = Ok s' /\
     supp_fields s' (sp_len s) (sp_prot s) (Some b)).
Proof. exact BuilderFrames.supp_step_effect. Qed.
Print Assumptions C19_supp_step_effect.

Theorem C19_supp_step_frame :
  forall s o s',
  supp_builder_step s o = Ok s' -> supp_unchanged_outside (supp_writes o) s s'.
Proof. exact BuilderFrames.supp_step_frame. Qed.
Print Assumptions C19_supp_step_frame.

Theorem C19_supp_later_setter_overrides :
  (forall s n1 n2, seq2 supp_builder_step s (UO_key_data_length n1) (UO_key_data_length n2) = supp_builder_step s (UO_key_data_length n2))
  /\ (forall s h1 h2, seq2 supp_builder_step s (UO_protected h1) (UO_protected h2) = supp_builder_step s (UO_protected h2))
  /\ (forall s b1 b2, seq2 supp_builder_step s (UO_other b1) (UO_other b2) = supp_builder_step s (UO_other b2)).
Proof. exact BuilderFrames.supp_later_setter_overrides. Qed.
Print Assumptions C19_supp_later_setter_overrides.

Theorem C19_supp_ops_commute :
  forall s o1 o2, supp_independent o1 o2 ->
  seq2 supp_builder_step s o1 o2 = seq2 supp_builder_step s o2 o1.
Proof. exact BuilderFrames.supp_ops_commute. Qed.
Print Assumptions C19_supp_ops_commute.

Theorem C19_kdf_step_effect :
  (forall k p, exists k', kdf_builder_step k (DO_party_u_info p) = Ok k' /\
     kdf_fields k' (kc_alg k) p (kc_v k) (kc_pub k) (kc_priv k))
  /\ (forall k p, exists k', kdf_builder_step k (DO_party_v_info p) = Ok k' /\
     kdf_fields k' (kc_alg k) (kc_u k) p (kc_pub k) (kc_priv k))
  /\ (forall k s, exists k', kdf_builder_step k (DO_supp_pub_info s) = Ok k' /\
     kdf_fields k' (kc_alg k) (kc_u k) (kc_v k) s (kc_priv k))
  /\ (forall k a, exists k', kdf_builder_step k (DO_algorithm a) = Ok k' /\
     kdf_fields k' (PAssigned a) (kc_u k) (kc_v k) (kc_pub k) (kc_priv k))
  /\ (forall k b, exists k', kdf_builder_step k (DO_add_supp_priv_info b) = Ok k' /\
     kdf_fields k' (kc_alg k) (kc_u k) (kc_v k) (kc_pub k) (kc_priv k ++ [b])).
Proof. exact BuilderFrames.kdf_step_effect. Qed.
Print Assumptions C19_kdf_step_effect.

Theorem C19_kdf_step_frame :
  forall k o k',
  kdf_builder_step k o = Ok k' -> kdf_unchanged_outside (kdf_writes o) k k'.
Proof. exact BuilderFrames.kdf_step_frame. Qed.
Print Assumptions C19_kdf_step_frame.

Theorem C19_kdf_later_setter_overrides :
  (forall k p1 p2, seq2 kdf_builder_step k (DO_party_u_info p1) (DO_party_u_info p2) = kdf_builder_step k (DO_party_u_info p2))
  /\ (forall k p1 p2, seq2 kdf_builder_step k (DO_party_v_info p1) (DO_party_v_info p2) = kdf_builder_step k (DO_party_v_info p2))
  /\ (forall k s1 s2, seq2 kdf_builder_step k (DO_supp_pub_info s1) (DO_supp_pub_info s2) = kdf_builder_step k (DO_supp_pub_info s2))
  /\ (forall k a1 a2, seq2 kdf_builder_step k (DO_algorithm a1) (DO_algorithm a2) = kdf_builder_step k (DO_algorithm a2)).
Proof. exact BuilderFrames.kdf_later_setter_overrides. Qed.
Print Assumptions C19_kdf_later_setter_overrides.

Theorem C19_kdf_accumulates :
  (forall l k, run_ops kdf_builder_step (map DO_add_supp_priv_info l) k =
     Ok (mkKdf (kc_alg k) (kc_u k) (kc_v k) (kc_pub k) (kc_priv k ++ l))).
Proof. exact BuilderFrames.kdf_accumulates. Qed.
Print Assumptions C19_kdf_accumulates.

Theorem C19_kdf_ops_commute :
  forall k o1 o2, kdf_independent o1 o2 ->
  seq2 kdf_builder_step k o1 o2 = seq2 kdf_builder_step k o2 o1.
Proof. exact BuilderFrames.kdf_ops_commute. Qed.
Print Assumptions C19_kdf_ops_commute.

Theorem C19_sign1_creators_are_setters :
  (forall m aad f tbs sg, Sign1_tbs_data m aad = Ok tbs -> f tbs = Some sg ->
     sign1_builder_step m (S1_create_signature aad f) = sign1_builder_step m (S1_signature sg))
  /\ (forall m aad f tbs sg, Sign1_tbs_data m aad = Ok tbs -> f tbs = Some sg ->
     sign1_builder_step m (S1_try_create_signature aad f) = sign1_builder_step m (S1_signature sg))
  /\ (forall m pl aad f tbs sg, Sign1_tbs_detached_data m pl aad = Ok tbs -> f tbs = Some sg ->
     sign1_builder_step m (S1_create_detached_signature pl aad f) = sign1_builder_step m (S1_signature sg))
  /\ (forall m pl aad f tbs sg, Sign1_tbs_detached_data m pl aad = Ok tbs -> f tbs = Some sg ->
     sign1_builder_step m (S1_try_create_detached_signature pl aad f) = sign1_builder_step m (S1_signature sg)).
Proof. exact BuilderFrames.sign1_creators_are_setters. Qed.
Print Assumptions C19_sign1_creators_are_setters.

Theorem C19_sign_creators_are_adders :
  (forall m s aad f tbs sg, Sign_tbs_data m aad s = Ok tbs -> f tbs = Some sg ->
     sign_builder_step m (SN_add_created_signature s aad f)
     = sign_builder_step m (SN_add_signature (mkSignature (s_prot s) (s_unprot s) sg)))
  /\ (forall m s aad f tbs sg, Sign_tbs_data m aad s = Ok tbs -> f tbs = Some sg ->
     sign_builder_step m (SN_try_add_created_signature s aad f)
     = sign_builder_step m (SN_add_signature (mkSignature (s_prot s) (s_unprot s) sg)))
  /\ (forall m s pl aad f tbs sg, Sign_tbs_detached_data m pl aad s = Ok tbs -> f tbs = Some sg ->
     sign_builder_step m (SN_add_detached_signature s pl aad f)
     = sign_builder_step m (SN_add_signature (mkSignature (s_prot s) (s_unprot s) sg)))
  /\ (forall m s pl aad f tbs sg, Sign_tbs_detached_data m pl aad s = Ok tbs -> f tbs = Some sg ->
     sign_builder_step m (SN_try_add_detached_signature s pl aad f)
     = sign_builder_step m (SN_add_signature (mkSignature (s_prot s) (s_unprot s) sg))).
Proof. exact BuilderFrames.sign_creators_are_adders. Qed.
Print Assumptions C19_sign_creators_are_adders.

Theorem C19_mac0_creators_are_setters :
  (forall m aad f tbm tg, Mac0_tbm m aad = Ok tbm -> f tbm = Some tg ->
     mac0_builder_step m (M0_create_tag aad f) = mac0_builder_step m (M0_tag tg))
  /\ (forall m aad f tbm tg, Mac0_tbm m aad = Ok tbm -> f tbm = Some tg ->
     mac0_builder_step m (M0_try_create_tag aad f) = mac0_builder_step m (M0_tag tg)).
Proof. exact BuilderFrames.mac0_creators_are_setters. Qed.
Print Assumptions C19_mac0_creators_are_setters.

Theorem C19_mac_creators_are_setters :
  (forall m aad f tbm tg, Mac_tbm m aad = Ok tbm -> f tbm = Some tg ->
     mac_builder_step m (MC_create_tag aad f) = mac_builder_step m (MC_tag tg))
  /\ (forall m aad f tbm tg, Mac_tbm m aad = Ok tbm -> f tbm = Some tg ->
     mac_builder_step m (MC_try_create_tag aad f) = mac_builder_step m (MC_tag tg)).
Proof. exact BuilderFrames.mac_creators_are_setters. Qed.
Print Assumptions C19_mac_creators_are_setters.

Theorem C19_recipient_creators_are_setters :
  (forall m c pt aad f a ct, recipient_aad m c aad = Ok a -> f pt a = Some ct ->
     recipient_builder_step m (RO_create_ciphertext c pt aad f) = recipient_builder_step m (RO_ciphertext ct))
  /\ (forall m c pt aad f a ct, recipient_aad m c aad = Ok a -> f pt a = Some ct ->
     recipient_builder_step m (RO_try_create_ciphertext c pt aad f) = recipient_builder_step m (RO_ciphertext ct)).
Proof. exact BuilderFrames.recipient_creators_are_setters. Qed.
Print Assumptions C19_recipient_creators_are_setters.

Theorem C19_encrypt_creators_are_setters :
  (forall m pt aad f a ct, enc_structure_data EncCoseEncrypt (en_prot m) aad = Ok a -> f pt a = Some ct ->
     encrypt_builder_step m (EO_create_ciphertext pt aad f) = encrypt_builder_step m (EO_ciphertext ct))
  /\ (forall m pt aad f a ct, enc_structure_data EncCoseEncrypt (en_prot m) aad = Ok a -> f pt a = Some ct ->
     encrypt_builder_step m (EO_try_create_ciphertext pt aad f) = encrypt_builder_step m (EO_ciphertext ct)).
Proof. exact BuilderFrames.encrypt_creators_are_setters. Qed.
Print Assumptions C19_encrypt_creators_are_setters.

Theorem C19_encrypt0_creators_are_setters :
  (forall m pt aad f a ct, enc_structure_data EncCoseEncrypt0 (e0_prot m) aad = Ok a -> f pt a = Some ct ->
     encrypt0_builder_step m (E0_create_ciphertext pt aad f) = encrypt0_builder_step m (E0_ciphertext ct))
  /\ (forall m pt aad f a ct, enc_structure_data EncCoseEncrypt0 (e0_prot m) aad = Ok a -> f pt a = Some ct ->
     encrypt0_builder_step m (E0_try_create_ciphertext pt aad f) = encrypt0_builder_step m (E0_ciphertext ct)).
Proof. exact BuilderFrames.encrypt0_creators_are_setters. Qed.
Print Assumptions C19_encrypt0_creators_are_setters.

