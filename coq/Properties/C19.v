(* C19 - Builders apply exactly the documented effect of each call, in any order.
   The statements quantify over every builder state and every call sequence (run_ops =
   fold_left of the step function).  What ties each macro-generated Rust setter to its step
   function is the correspondence run on call histories (a copy-paste slip in one setter shows
   up there, with this proved model as the oracle). *)
From Coset.Model Require Import Prelude Cbor Iana Label Msg Key Cwt Context Builders.
From Coset.Proofs Require Import BuilderInv.
Open Scope Z_scope.

(* header builder = the documented effect written independently as record updates *)
Theorem C19_header_builder_is_documented_effect :
  (forall h o, header_builder_step h o = match header_effect o h with Some h' => Ok h' | None => Panic end) /\
  (forall ops h, run_ops header_builder_step ops h =
     fold_left (fun acc o => match acc with
                             | Ok s => match header_effect o s with Some s' => Ok s' | None => Panic end
                             | r => r end) ops (Ok h)).
Proof. exact (conj header_builder_refines_effect header_builder_run). Qed.
Print Assumptions C19_header_builder_is_documented_effect.

(* a built header never carries both an IV and a Partial IV, whatever the call sequence *)
Theorem C19_built_header_never_both_ivs :
  forall ops h, run_ops header_builder_step ops header_default = Ok h -> iv_clash h = false.
Proof. exact built_header_never_both_ivs_new. Qed.
Print Assumptions C19_built_header_never_both_ivs.

(* reserved labels are refused with the documented panic, every other label is appended *)
Theorem C19_reserved_labels :
  (forall h l v, header_builder_step h (HO_value l v) = Panic <-> 1 <= l <= 7) /\
  (forall h l v, ~ 1 <= l <= 7 -> header_builder_step h (HO_value l v) = Ok (set_rest (h_rest h ++ [(LInt l, v)]) h)) /\
  (forall k l v, key_builder_step k (KO_param l v) = Panic <-> 0 <= l <= 5) /\
  (forall c n v, claims_builder_step c (CO_claim n v) = Panic <-> 1 <= n <= 7) /\
  (forall c i v, claims_builder_step c (CO_private_claim i v) = Panic <-> ~ i < -65536).
Proof. exact (conj header_value_panics_iff (conj header_value_appends (conj key_param_panics_iff (conj claim_panics_iff private_claim_panics_iff)))). Qed.
Print Assumptions C19_reserved_labels.

(* setting a protected header discards previously retained wire bytes (all nine builders) *)
Theorem C19_protected_setter_discards_wire_bytes :
  (forall s h, exists s', signature_builder_step s (SO_protected h) = Ok s'
      /\ p_orig (s_prot s') = None /\ p_hdr (s_prot s') = h)
  /\ (forall m h, exists m', sign1_builder_step m (S1_protected h) = Ok m'
      /\ p_orig (s1_prot m') = None /\ p_hdr (s1_prot m') = h)
  /\ (forall m h, exists m', sign_builder_step m (SN_protected h) = Ok m'
      /\ p_orig (sn_prot m') = None /\ p_hdr (sn_prot m') = h)
  /\ (forall m h, exists m', mac0_builder_step m (M0_protected h) = Ok m'
      /\ p_orig (m0_prot m') = None /\ p_hdr (m0_prot m') = h)
  /\ (forall m h, exists m', mac_builder_step m (MC_protected h) = Ok m'
      /\ p_orig (mc_prot m') = None /\ p_hdr (mc_prot m') = h)
  /\ (forall m h, exists m', recipient_builder_step m (RO_protected h) = Ok m'
      /\ p_orig (r_prot m') = None /\ p_hdr (r_prot m') = h)
  /\ (forall m h, exists m', encrypt_builder_step m (EO_protected h) = Ok m'
      /\ p_orig (en_prot m') = None /\ p_hdr (en_prot m') = h)
  /\ (forall m h, exists m', encrypt0_builder_step m (E0_protected h) = Ok m'
      /\ p_orig (e0_prot m') = None /\ p_hdr (e0_prot m') = h)
  /\ (forall s h, exists s', supp_builder_step s (UO_protected h) = Ok s'
      /\ p_orig (sp_prot s') = None /\ p_hdr (sp_prot s') = h).
Proof. exact protected_setter_discards_wire_bytes. Qed.
Print Assumptions C19_protected_setter_discards_wire_bytes.

(* a setter replaces its field and leaves all others untouched (CoseSign1Builder) *)
Theorem C19_sign1_setters_frame :
  (forall m h, exists m', sign1_builder_step m (S1_unprotected h) = Ok m'
      /\ s1_unprot m' = h /\ s1_prot m' = s1_prot m /\ s1_payload m' = s1_payload m
      /\ s1_sig m' = s1_sig m)
  /\ (forall m h, exists m', sign1_builder_step m (S1_protected h) = Ok m'
      /\ s1_prot m' = mkProtected None h /\ s1_unprot m' = s1_unprot m
      /\ s1_payload m' = s1_payload m /\ s1_sig m' = s1_sig m)
  /\ (forall m b, exists m', sign1_builder_step m (S1_payload b) = Ok m'
      /\ s1_payload m' = Some b /\ s1_prot m' = s1_prot m /\ s1_unprot m' = s1_unprot m
      /\ s1_sig m' = s1_sig m)
  /\ (forall m b, exists m', sign1_builder_step m (S1_signature b) = Ok m'
      /\ s1_sig m' = b /\ s1_prot m' = s1_prot m /\ s1_unprot m' = s1_unprot m
      /\ s1_payload m' = s1_payload m).
Proof. exact sign1_setters_frame. Qed.
Print Assumptions C19_sign1_setters_frame.

(* ... (CoseMac0Builder) *)
Theorem C19_mac0_setters_frame :
  (forall m h, exists m', mac0_builder_step m (M0_unprotected h) = Ok m'
      /\ m0_unprot m' = h /\ m0_prot m' = m0_prot m /\ m0_payload m' = m0_payload m
      /\ m0_tag m' = m0_tag m)
  /\ (forall m h, exists m', mac0_builder_step m (M0_protected h) = Ok m'
      /\ m0_prot m' = mkProtected None h /\ m0_unprot m' = m0_unprot m
      /\ m0_payload m' = m0_payload m /\ m0_tag m' = m0_tag m)
  /\ (forall m b, exists m', mac0_builder_step m (M0_payload b) = Ok m'
      /\ m0_payload m' = Some b /\ m0_prot m' = m0_prot m /\ m0_unprot m' = m0_unprot m
      /\ m0_tag m' = m0_tag m)
  /\ (forall m b, exists m', mac0_builder_step m (M0_tag b) = Ok m'
      /\ m0_tag m' = b /\ m0_prot m' = m0_prot m /\ m0_unprot m' = m0_unprot m
      /\ m0_payload m' = m0_payload m).
Proof. exact mac0_setters_frame. Qed.
Print Assumptions C19_mac0_setters_frame.

(* ... (CoseEncrypt0Builder) *)
Theorem C19_encrypt0_setters_frame :
  (forall m h, exists m', encrypt0_builder_step m (E0_unprotected h) = Ok m'
      /\ e0_unprot m' = h /\ e0_prot m' = e0_prot m /\ e0_ct m' = e0_ct m)
  /\ (forall m h, exists m', encrypt0_builder_step m (E0_protected h) = Ok m'
      /\ e0_prot m' = mkProtected None h /\ e0_unprot m' = e0_unprot m /\ e0_ct m' = e0_ct m)
  /\ (forall m b, exists m', encrypt0_builder_step m (E0_ciphertext b) = Ok m'
      /\ e0_ct m' = Some b /\ e0_prot m' = e0_prot m /\ e0_unprot m' = e0_unprot m).
Proof. exact encrypt0_setters_frame. Qed.
Print Assumptions C19_encrypt0_setters_frame.

(* ... (CoseKeyBuilder) *)
Theorem C19_key_setters_frame :
  (forall k b, exists k', key_builder_step k (KO_key_id b) = Ok k'
      /\ k_kid k' = b /\ k_kty k' = k_kty k /\ k_alg k' = k_alg k /\ k_ops k' = k_ops k
      /\ k_base_iv k' = k_base_iv k /\ k_params k' = k_params k)
  /\ (forall k b, exists k', key_builder_step k (KO_base_iv b) = Ok k'
      /\ k_base_iv k' = b /\ k_kty k' = k_kty k /\ k_kid k' = k_kid k /\ k_alg k' = k_alg k
      /\ k_ops k' = k_ops k /\ k_params k' = k_params k)
  /\ (forall k t, exists k', key_builder_step k (KO_key_type t) = Ok k'
      /\ k_kty k' = RAssigned t /\ k_kid k' = k_kid k /\ k_alg k' = k_alg k /\ k_ops k' = k_ops k
      /\ k_base_iv k' = k_base_iv k /\ k_params k' = k_params k)
  /\ (forall k a, exists k', key_builder_step k (KO_algorithm a) = Ok k'
      /\ k_alg k' = Some (PAssigned a) /\ k_kty k' = k_kty k /\ k_kid k' = k_kid k
      /\ k_ops k' = k_ops k /\ k_base_iv k' = k_base_iv k /\ k_params k' = k_params k).
Proof. exact key_setters_frame. Qed.
Print Assumptions C19_key_setters_frame.

(* a later setter overrides an earlier one *)
Theorem C19_later_setter_overrides :
  (forall m h1 h2,
     (do m1 <- sign1_builder_step m (S1_unprotected h1); sign1_builder_step m1 (S1_unprotected h2))
     = sign1_builder_step m (S1_unprotected h2))
  /\ (forall m b1 b2,
     (do m1 <- sign1_builder_step m (S1_payload b1); sign1_builder_step m1 (S1_payload b2))
     = sign1_builder_step m (S1_payload b2)).
Proof. exact later_setter_overrides. Qed.
Print Assumptions C19_later_setter_overrides.

(* the key constructors populate exactly the key type and parameters they name *)
Theorem C19_key_constructors :
  (forall k c x y, key_builder_step k (KO_new_ec2_pub_key c x y) =
     Ok (mkKey (RAssigned 2) [] None [] []
               [(LInt (-1), VInt c); (LInt (-2), VBytes x); (LInt (-3), VBytes y)]))
  /\ (forall k c x ys, key_builder_step k (KO_new_ec2_pub_key_y_sign c x ys) =
     Ok (mkKey (RAssigned 2) [] None [] []
               [(LInt (-1), VInt c); (LInt (-2), VBytes x); (LInt (-3), VBool ys)]))
  /\ (forall k c x y d, key_builder_step k (KO_new_ec2_priv_key c x y d) =
     Ok (mkKey (RAssigned 2) [] None [] []
               [(LInt (-1), VInt c); (LInt (-2), VBytes x); (LInt (-3), VBytes y);
                (LInt (-4), VBytes d)]))
  /\ (forall k kk, key_builder_step k (KO_new_symmetric_key kk) =
     Ok (mkKey (RAssigned 4) [] None [] [] [(LInt (-1), VBytes kk)]))
  /\ (forall k, key_builder_step k KO_new_okp_key =
     Ok (mkKey (RAssigned 1) [] None [] [] [])).
Proof. exact key_constructors. Qed.
Print Assumptions C19_key_constructors.

Example C19_nonvacuous :
  run_ops header_builder_step [HO_iv [x01]; HO_partial_iv [x02]; HO_value 8 VNull] header_default
  = Ok (mkHeader None [] None [] [] [x02] [] [(LInt 8, VNull)])
  /\ run_ops header_builder_step [HO_value 7 VNull] header_default = Panic.
Proof. split; reflexivity. Qed.
