(* C13 - An accepted input is exactly one CBOR item; byte and Value APIs agree. *)
From Coset.Model Require Import Prelude Cbor Iana Label Msg Api.
From Coset.Proofs Require Import Head Codec Fuel OneItem.
Open Scope nat_scope.

Theorem C13_suffix_rejected_as_extraneous :
  forall (T : Type) (fromv : value -> res T) b x s,
    from_slice fromv b = Ok x -> s <> [] -> from_slice fromv (b ++ s) = Err EExtra.
Proof. exact from_slice_suffix. Qed.
Print Assumptions C13_suffix_rejected_as_extraneous.

Theorem C13_proper_prefix_rejected :
  forall (T : Type) (fromv : value -> res T) b x k,
    from_slice fromv b = Ok x -> k < length b -> exists e, from_slice fromv (firstn k b) = Err e.
Proof. exact from_slice_prefix. Qed.
Print Assumptions C13_proper_prefix_rejected.

Theorem C13_tagged_suffix_prefix :
  (forall (T : Type) (fromv : value -> res T) tag b x s,
     from_tagged_slice fromv tag b = Ok x -> s <> [] -> from_tagged_slice fromv tag (b ++ s) = Err EExtra) /\
  (forall (T : Type) (fromv : value -> res T) tag b x k,
     from_tagged_slice fromv tag b = Ok x -> k < length b -> exists e, from_tagged_slice fromv tag (firstn k b) = Err e).
Proof. exact (conj from_tagged_slice_suffix from_tagged_slice_prefix). Qed.
Print Assumptions C13_tagged_suffix_prefix.

(* the same for the header map inside a protected byte string, at any nesting budget *)
Theorem C13_inside_protected_bstr :
  (forall n h s p, s <> [] -> h <> [] ->
     protected_from_bstr (parse_prot_at n) (VBytes h) = Ok p ->
     protected_from_bstr (parse_prot_at n) (VBytes (h ++ s)) = Err EExtra) /\
  (forall n h k p, 0 < k < length h ->
     protected_from_bstr (parse_prot_at n) (VBytes h) = Ok p ->
     exists e, protected_from_bstr (parse_prot_at n) (VBytes (firstn k h)) = Err e).
Proof. exact (conj protected_suffix_rejected protected_prefix_rejected). Qed.
Print Assumptions C13_inside_protected_bstr.

(* the two API layers: definitional in the model; their agreement on the implementation is
   checked by the correspondence run (decval / encval cases) *)
Theorem C13_api_layers :
  (forall (T : Type) (fromv : value -> res T) b, from_slice fromv b = (do v <- read_to_value b; fromv v)) /\
  (forall (T : Type) (tov : T -> res value) x, to_vec tov x = (do v <- tov x; Ok (ser v))).
Proof. exact (conj from_slice_is_read_then_convert to_vec_is_convert_then_serialise). Qed.
Print Assumptions C13_api_layers.

Example C13_nonvacuous :
  from_slice CoseSign1_from_value [x84; x40; xa0; xf6; x40] <> Err EExtra /\
  (exists m, from_slice CoseSign1_from_value [x84; x40; xa0; xf6; x40] = Ok m) /\
  from_slice CoseSign1_from_value [x84; x40; xa0; xf6; x40; x00] = Err EExtra.
Proof. split; [|split]; [vm_compute; discriminate | eexists; vm_compute; reflexivity | vm_compute; reflexivity]. Qed.
