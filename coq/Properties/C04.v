(* C04 - To-be-MACed bytes are exactly RFC 8152 MAC_structure. *)
From Coset.Model Require Import Prelude Cbor Iana Label Msg.
From Coset.Spec Require Import DetCbor Structures.
From Coset.Proofs Require Import Head Structures.

Theorem C04_mac_structure_data_is_rfc8152 :
  forall c p aad pl,
    mac_structure_data c p aad pl =
      match protected_bytes p with
      | Ok b => Ok (mac_structure (rfc_mac_ctx c) b aad pl)
      | Err _ | Panic => Panic
      | OutOfFuel => OutOfFuel
      end.
Proof. exact mac_structure_data_spec. Qed.
Print Assumptions C04_mac_structure_data_is_rfc8152.

(* what is handed to the caller's MAC function; creating / verifying without a payload panics *)
Theorem C04_callers :
  (forall m aad, Mac_tbm m aad =
     match mc_payload m with None => Panic | Some pl => mac_structure_data MacCoseMac (mc_prot m) aad pl end) /\
  (forall m aad, Mac0_tbm m aad =
     match m0_payload m with None => Panic | Some pl => mac_structure_data MacCoseMac0 (m0_prot m) aad pl end) /\
  (forall (R : Type) m aad (f : bytes -> bytes -> R),
     Mac_verify_tag m aad f = do tbm <- Mac_tbm m aad; Ok (f (mc_tag m) tbm)) /\
  (forall (R : Type) m aad (f : bytes -> bytes -> R),
     Mac0_verify_tag m aad f = do tbm <- Mac0_tbm m aad; Ok (f (m0_tag m) tbm)) /\
  rfc_mac_ctx MacCoseMac = MAC /\ rfc_mac_ctx MacCoseMac0 = MAC0.
Proof. exact (conj Mac_tbm_eq (conj Mac0_tbm_eq (conj Mac_verify_eq (conj Mac0_verify_eq (conj eq_refl eq_refl))))). Qed.
Print Assumptions C04_callers.

Theorem C04_context_strings_from_source :
  forall c, mac_context_text c = ascii_bytes (mac_ctx_string (rfc_mac_ctx c)).
Proof. exact mac_context_text_rfc. Qed.
Print Assumptions C04_context_strings_from_source.

Theorem C04_mac_structure_injective :
  forall c p aad pl c' p' aad' pl',
    short p -> short aad -> short pl -> short p' -> short aad' -> short pl' ->
    mac_structure c p aad pl = mac_structure c' p' aad' pl' ->
    c = c' /\ p = p' /\ aad = aad' /\ pl = pl'.
Proof. exact mac_structure_injective. Qed.
Print Assumptions C04_mac_structure_injective.

Example C04_nonvacuous :
  Mac0_tbm (mkMac0 (mkProtected (Some []) header_default) header_default (Some [x01]) []) [x02]
  = Ok (mac_structure MAC0 [] [x02] [x01])
  /\ Mac0_tbm (mkMac0 (mkProtected (Some []) header_default) header_default None []) [x02] = Panic.
Proof. split; reflexivity. Qed.
