(* C07 - Decode-encode reaches a fixed point in one step and loses nothing.
   PARTIAL + one known class.  Proved: (1) the byte layer: every value the parser returns from an
   input shorter than 2^64 bytes is in normal form (lengths, integer range, UTF-8, floats) and
   within 256 nesting levels, and re-serialising and re-parsing it returns it unchanged UNLESS it
   contains tag 2/3 directly over a byte string of <= 16 bytes that is not a bignum normal form
   (finding F4, witness proved); (2) the value layer for Label, PartyInfo, CoseKey, CoseKeySet,
   ClaimsSet: decode => encode succeeds and decodes to the same value; (3) protected headers are
   re-emitted verbatim at every nesting level (C02), so messages round-trip their protected
   slots.  Missing: the value-layer fixed point for unprotected Header maps (hence the message
   types) as one theorem; covered by the correspondence run on every accepted generated input. *)
From Coset.Model Require Import Prelude Cbor Iana Label Msg Key Cwt Context Api.
From Coset.Proofs Require Import Head RoundTrip DecodedNf TypedRoundTrip.
Open Scope N_scope.

(* what the byte parser returns is in normal form (mod the bignum-shape clause) and within the nesting budget *)
Theorem C07_from_reader_output :
  forall l v, N.of_nat (length l) < p64 -> from_reader l = Ok (v, []) ->
  value_nf0 v = true /\ (depth v <= 256)%nat.
Proof. exact from_reader_output. Qed.
Print Assumptions C07_from_reader_output.

(* byte layer: parse, serialise, parse again = identity, outside the known class *)
Theorem C07_decoded_roundtrips :
  forall l v, N.of_nat (length l) < p64 -> from_reader l = Ok (v, []) ->
  no_bad_bignum v = true -> from_reader (ser v) = Ok (v, []).
Proof. exact decoded_roundtrips. Qed.
Print Assumptions C07_decoded_roundtrips.

Theorem C07_nf_split :
  forall v, value_nf v = value_nf0 v && no_bad_bignum v.
Proof. exact nf_split. Qed.
Print Assumptions C07_nf_split.

(* value layer *)
Theorem C07_key_decode_encode_fixed_point :
  forall v k, CoseKey_from_value v = Ok k ->
  exists v', CoseKey_to_value k = Ok v' /\ CoseKey_from_value v' = Ok k.
Proof. exact key_decode_encode_fixed_point. Qed.
Print Assumptions C07_key_decode_encode_fixed_point.

Theorem C07_keyset_decode_encode_fixed_point :
  forall v ks, CoseKeySet_from_value v = Ok ks ->
  exists v', CoseKeySet_to_value ks = Ok v' /\ CoseKeySet_from_value v' = Ok ks.
Proof. exact keyset_decode_encode_fixed_point. Qed.
Print Assumptions C07_keyset_decode_encode_fixed_point.

Theorem C07_party_decode_encode_fixed_point :
  forall v p, PartyInfo_from_value v = Ok p ->
  exists v', PartyInfo_to_value p = Ok v' /\ PartyInfo_from_value v' = Ok p.
Proof. exact party_decode_encode_fixed_point. Qed.
Print Assumptions C07_party_decode_encode_fixed_point.

Theorem C07_label_decode_encode_fixed_point :
  forall v l, Label_from_value v = Ok l ->
  exists v', Label_to_value l = Ok v' /\ Label_from_value v' = Ok l.
Proof. exact label_decode_encode_fixed_point. Qed.
Print Assumptions C07_label_decode_encode_fixed_point.

Theorem C07_claims_decode_encode_fixed_point :
  forall v c, ClaimsSet_from_value v = Ok c ->
  exists v', ClaimsSet_to_value c = Ok v' /\ ClaimsSet_from_value v' = Ok c.
Proof. exact claims_decode_encode_fixed_point. Qed.
Print Assumptions C07_claims_decode_encode_fixed_point.

(* byte-level fixed point, generic in the type, from the value-level one *)
Theorem C07_bytes_fixed_point :
  forall (T : Type) (fromv : value -> res T) (tov : T -> res value) b x,
  (forall v y, fromv v = Ok y -> exists v', tov y = Ok v' /\ fromv v' = Ok y) ->
  from_slice fromv b = Ok x ->
  forall v', tov x = Ok v' -> value_nf v' = true -> (depth v' <= 256)%nat ->
  exists b', to_vec tov x = Ok b' /\ from_slice fromv b' = Ok x /\ to_vec tov x = Ok b'.
Proof. exact bytes_fixed_point. Qed.
Print Assumptions C07_bytes_fixed_point.

Theorem C07_key_bytes_fixed_point :
  forall b k v', from_slice CoseKey_from_value b = Ok k ->
  CoseKey_to_value k = Ok v' -> value_nf v' = true -> (depth v' <= 256)%nat ->
  exists b', to_vec CoseKey_to_value k = Ok b' /\ from_slice CoseKey_from_value b' = Ok k /\
             to_vec CoseKey_to_value k = Ok b'.
Proof. exact key_bytes_fixed_point. Qed.
Print Assumptions C07_key_bytes_fixed_point.

Theorem C07_claims_bytes_fixed_point :
  forall b c v', from_slice ClaimsSet_from_value b = Ok c ->
  ClaimsSet_to_value c = Ok v' -> value_nf v' = true -> (depth v' <= 256)%nat ->
  exists b', to_vec ClaimsSet_to_value c = Ok b' /\ from_slice ClaimsSet_from_value b' = Ok c /\
             to_vec ClaimsSet_to_value c = Ok b'.
Proof. exact claims_bytes_fixed_point. Qed.
Print Assumptions C07_claims_bytes_fixed_point.

(* known finding F4: tag 2 over an indefinite-length byte string of one byte *)
Theorem C07_short_bignum_refuted :
  exists b v b', from_slice Header_from_value b = Ok v /\ to_vec header_to_value v = Ok b' /\
                 from_slice Header_from_value b' <> Ok v.
Proof.
  exists [xa1; x18; x63; xc2; x5f; x41; x01; xff].
  eexists. eexists. split; [vm_compute; reflexivity|split; [vm_compute; reflexivity|vm_compute; discriminate]].
Qed.
Print Assumptions C07_short_bignum_refuted.
