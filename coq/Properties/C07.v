(* C07 - Decode-encode reaches a fixed point in one step and loses nothing.
   One known class.  Proved: (1) byte layer: every value the parser returns from an input shorter
   than 2^64 bytes is in normal form (lengths, integer range, UTF-8, floats) and within 256 nesting
   levels, and re-serialising and re-parsing it returns it unchanged UNLESS it contains tag 2/3
   directly over a byte string of <= 16 bytes that is not a bignum normal form (finding F4,
   witness proved); (2) value layer, for EVERY type: if the value-level decoder returns m then the
   encoder succeeds on m and the decoder maps its output back to m (protected headers re-emitted
   verbatim at every nesting level); (3) byte layer for every type from (1)+(2), under the
   hypothesis that the re-encoded value is wire-normal.  Remaining gap, stated honestly: (3) keeps
   "value_nf v' /\ depth v' <= 256" of the RE-ENCODED value as a hypothesis instead of deriving it
   from (1) (it holds because the re-encoding only rearranges sub-values of the decoded input, a
   fact that is exercised, not proved). *)
From Coset.Model Require Import Prelude Cbor Iana Label Msg Key Cwt Context Api.
From Coset.Proofs Require Import Head RoundTrip DecodedNf TypedRoundTrip.
From Coset.Proofs Require HeaderRoundTrip MsgRoundTrip.
Import MsgRoundTrip.
Open Scope N_scope.

(* what the byte parser returns is in normal form (mod the bignum-shape clause) and within the nesting budget *)
Theorem C07_from_reader_output :
  forall l v, N.of_nat (length l) < p64 -> from_reader l = Ok (v, []) ->
  value_nf0 v = true /\ (depth v <= 256)%nat.
Proof. exact from_reader_output. Qed.
Print Assumptions C07_from_reader_output.

(* byte layer: parse, serialise, parse again = identity, outside the known class *)
Theorem C07_decoded_roundtrips :
  forall l v, N.of_nat (length l) < p64 -> from_reader l = Ok (v, []) ->
  no_bad_bignum v = true -> from_reader (ser v) = Ok (v, []).
Proof. exact decoded_roundtrips. Qed.
Print Assumptions C07_decoded_roundtrips.

Theorem C07_nf_split :
  forall v, value_nf v = value_nf0 v && no_bad_bignum v.
Proof. exact nf_split. Qed.
Print Assumptions C07_nf_split.

(* value layer *)
Theorem C07_key_decode_encode_fixed_point :
  forall v k, CoseKey_from_value v = Ok k ->
  exists v', CoseKey_to_value k = Ok v' /\ CoseKey_from_value v' = Ok k.
Proof. exact key_decode_encode_fixed_point. Qed.
Print Assumptions C07_key_decode_encode_fixed_point.

Theorem C07_keyset_decode_encode_fixed_point :
  forall v ks, CoseKeySet_from_value v = Ok ks ->
  exists v', CoseKeySet_to_value ks = Ok v' /\ CoseKeySet_from_value v' = Ok ks.
Proof. exact keyset_decode_encode_fixed_point. Qed.
Print Assumptions C07_keyset_decode_encode_fixed_point.

Theorem C07_party_decode_encode_fixed_point :
  forall v p, PartyInfo_from_value v = Ok p ->
  exists v', PartyInfo_to_value p = Ok v' /\ PartyInfo_from_value v' = Ok p.
Proof. exact party_decode_encode_fixed_point. Qed.
Print Assumptions C07_party_decode_encode_fixed_point.

Theorem C07_label_decode_encode_fixed_point :
  forall v l, Label_from_value v = Ok l ->
  exists v', Label_to_value l = Ok v' /\ Label_from_value v' = Ok l.
Proof. exact label_decode_encode_fixed_point. Qed.
Print Assumptions C07_label_decode_encode_fixed_point.

Theorem C07_claims_decode_encode_fixed_point :
  forall v c, ClaimsSet_from_value v = Ok c ->
  exists v', ClaimsSet_to_value c = Ok v' /\ ClaimsSet_from_value v' = Ok c.
Proof. exact claims_decode_encode_fixed_point. Qed.
Print Assumptions C07_claims_decode_encode_fixed_point.

(* byte-level fixed point, generic in the type, from the value-level one *)
Theorem C07_bytes_fixed_point :
  forall (T : Type) (fromv : value -> res T) (tov : T -> res value) b x,
  (forall v y, fromv v = Ok y -> exists v', tov y = Ok v' /\ fromv v' = Ok y) ->
  from_slice fromv b = Ok x ->
  forall v', tov x = Ok v' -> value_nf v' = true -> (depth v' <= 256)%nat ->
  exists b', to_vec tov x = Ok b' /\ from_slice fromv b' = Ok x /\ to_vec tov x = Ok b'.
Proof. exact bytes_fixed_point. Qed.
Print Assumptions C07_bytes_fixed_point.

Theorem C07_key_bytes_fixed_point :
  forall b k v', from_slice CoseKey_from_value b = Ok k ->
  CoseKey_to_value k = Ok v' -> value_nf v' = true -> (depth v' <= 256)%nat ->
  exists b', to_vec CoseKey_to_value k = Ok b' /\ from_slice CoseKey_from_value b' = Ok k /\
             to_vec CoseKey_to_value k = Ok b'.
Proof. exact key_bytes_fixed_point. Qed.
Print Assumptions C07_key_bytes_fixed_point.

Theorem C07_claims_bytes_fixed_point :
  forall b c v', from_slice ClaimsSet_from_value b = Ok c ->
  ClaimsSet_to_value c = Ok v' -> value_nf v' = true -> (depth v' <= 256)%nat ->
  exists b', to_vec ClaimsSet_to_value c = Ok b' /\ from_slice ClaimsSet_from_value b' = Ok c /\
             to_vec ClaimsSet_to_value c = Ok b'.
Proof. exact claims_bytes_fixed_point. Qed.
Print Assumptions C07_claims_bytes_fixed_point.

(* value layer for header maps, signatures and protected headers, at every nesting budget *)
Theorem C07_header_decode_encode_fixed_point :
  forall n v h, header_at n v = Ok h ->
  exists v', header_to_value h = Ok v' /\ header_at n v' = Ok h.
Proof. exact HeaderRoundTrip.header_decode_encode_fixed_point. Qed.
Print Assumptions C07_header_decode_encode_fixed_point.

Theorem C07_signature_decode_encode_fixed_point :
  forall n v s,
  signature_from_value (parse_prot_at n) v = Ok s ->
  exists v', signature_to_value s = Ok v' /\ signature_from_value (parse_prot_at n) v' = Ok s.
Proof. exact HeaderRoundTrip.signature_decode_encode_fixed_point. Qed.
Print Assumptions C07_signature_decode_encode_fixed_point.

Theorem C07_protected_decode_encode_fixed_point :
  forall n v p,
  protected_from_bstr (parse_prot_at n) v = Ok p ->
  protected_cbor_bstr p = Ok v /\ protected_from_bstr (parse_prot_at n) v = Ok p.
Proof. exact HeaderRoundTrip.protected_decode_encode_fixed_point. Qed.
Print Assumptions C07_protected_decode_encode_fixed_point.

Theorem C07_Header_decode_encode_fixed_point :
  forall v h, Header_from_value v = Ok h ->
  exists v', Header_to_value h = Ok v' /\ Header_from_value v' = Ok h.
Proof. exact HeaderRoundTrip.Header_decode_encode_fixed_point. Qed.
Print Assumptions C07_Header_decode_encode_fixed_point.

Theorem C07_CoseSignature_decode_encode_fixed_point :
  forall v s, CoseSignature_from_value v = Ok s ->
  exists v', CoseSignature_to_value s = Ok v' /\ CoseSignature_from_value v' = Ok s.
Proof. exact HeaderRoundTrip.CoseSignature_decode_encode_fixed_point. Qed.
Print Assumptions C07_CoseSignature_decode_encode_fixed_point.

(* value layer for every message structure and the KDF types *)
Theorem C07_CoseSign1_decode_encode_fixed_point :
  forall v m, CoseSign1_from_value v = Ok m ->
  exists v', CoseSign1_to_value m = Ok v' /\ CoseSign1_from_value v' = Ok m.
Proof. exact MsgRoundTrip.CoseSign1_decode_encode_fixed_point. Qed.
Print Assumptions C07_CoseSign1_decode_encode_fixed_point.

Theorem C07_CoseSign_decode_encode_fixed_point :
  forall v m, CoseSign_from_value v = Ok m ->
  exists v', CoseSign_to_value m = Ok v' /\ CoseSign_from_value v' = Ok m.
Proof. exact MsgRoundTrip.CoseSign_decode_encode_fixed_point. Qed.
Print Assumptions C07_CoseSign_decode_encode_fixed_point.

Theorem C07_CoseMac_decode_encode_fixed_point :
  forall v m, CoseMac_from_value v = Ok m ->
  exists v', CoseMac_to_value m = Ok v' /\ CoseMac_from_value v' = Ok m.
Proof. exact MsgRoundTrip.CoseMac_decode_encode_fixed_point. Qed.
Print Assumptions C07_CoseMac_decode_encode_fixed_point.

Theorem C07_CoseMac0_decode_encode_fixed_point :
  forall v m, CoseMac0_from_value v = Ok m ->
  exists v', CoseMac0_to_value m = Ok v' /\ CoseMac0_from_value v' = Ok m.
Proof. exact MsgRoundTrip.CoseMac0_decode_encode_fixed_point. Qed.
Print Assumptions C07_CoseMac0_decode_encode_fixed_point.

Theorem C07_CoseEncrypt_decode_encode_fixed_point :
  forall v m, CoseEncrypt_from_value v = Ok m ->
  exists v', CoseEncrypt_to_value m = Ok v' /\ CoseEncrypt_from_value v' = Ok m.
Proof. exact MsgRoundTrip.CoseEncrypt_decode_encode_fixed_point. Qed.
Print Assumptions C07_CoseEncrypt_decode_encode_fixed_point.

Theorem C07_CoseEncrypt0_decode_encode_fixed_point :
  forall v m, CoseEncrypt0_from_value v = Ok m ->
  exists v', CoseEncrypt0_to_value m = Ok v' /\ CoseEncrypt0_from_value v' = Ok m.
Proof. exact MsgRoundTrip.CoseEncrypt0_decode_encode_fixed_point. Qed.
Print Assumptions C07_CoseEncrypt0_decode_encode_fixed_point.

Theorem C07_CoseRecipient_decode_encode_fixed_point :
  forall v r, CoseRecipient_from_value v = Ok r ->
  exists v', CoseRecipient_to_value r = Ok v' /\ CoseRecipient_from_value v' = Ok r.
Proof. exact MsgRoundTrip.CoseRecipient_decode_encode_fixed_point. Qed.
Print Assumptions C07_CoseRecipient_decode_encode_fixed_point.

Theorem C07_SuppPubInfo_decode_encode_fixed_point :
  forall v s, SuppPubInfo_from_value v = Ok s ->
  exists v', SuppPubInfo_to_value s = Ok v' /\ SuppPubInfo_from_value v' = Ok s.
Proof. exact MsgRoundTrip.SuppPubInfo_decode_encode_fixed_point. Qed.
Print Assumptions C07_SuppPubInfo_decode_encode_fixed_point.

Theorem C07_CoseKdfContext_decode_encode_fixed_point :
  forall v k, CoseKdfContext_from_value v = Ok k ->
  exists v', CoseKdfContext_to_value k = Ok v' /\ CoseKdfContext_from_value v' = Ok k.
Proof. exact MsgRoundTrip.CoseKdfContext_decode_encode_fixed_point. Qed.
Print Assumptions C07_CoseKdfContext_decode_encode_fixed_point.

(* byte level for all eleven header-carrying types: if b decodes to m and the re-encoding of m is
   wire-normal (always true outside the known class, by C07_from_reader_output / nf_split), then
   to_vec m = b', from_slice b' = m, and encoding again gives b' *)
Theorem C07_messages_bytes_fixed_point :
  bytes_fp CoseSign1_from_value CoseSign1_to_value /\
  bytes_fp CoseSign_from_value CoseSign_to_value /\
  bytes_fp CoseMac_from_value CoseMac_to_value /\
  bytes_fp CoseMac0_from_value CoseMac0_to_value /\
  bytes_fp CoseEncrypt_from_value CoseEncrypt_to_value /\
  bytes_fp CoseEncrypt0_from_value CoseEncrypt0_to_value /\
  bytes_fp CoseRecipient_from_value CoseRecipient_to_value /\
  bytes_fp SuppPubInfo_from_value SuppPubInfo_to_value /\
  bytes_fp CoseKdfContext_from_value CoseKdfContext_to_value /\
  bytes_fp Header_from_value Header_to_value /\
  bytes_fp CoseSignature_from_value CoseSignature_to_value.
Proof. exact MsgRoundTrip.messages_bytes_fixed_point. Qed.
Print Assumptions C07_messages_bytes_fixed_point.

(* known finding F4: tag 2 over an indefinite-length byte string of one byte *)
Theorem C07_short_bignum_refuted :
  exists b v b', from_slice Header_from_value b = Ok v /\ to_vec header_to_value v = Ok b' /\
                 from_slice Header_from_value b' <> Ok v.
Proof.
  exists [xa1; x18; x63; xc2; x5f; x41; x01; xff].
  eexists. eexists. split; [vm_compute; reflexivity|split; [vm_compute; reflexivity|vm_compute; discriminate]].
Qed.
Print Assumptions C07_short_bignum_refuted.
