(* C07 - Decode-encode reaches a fixed point in one step and loses nothing.
   One known class.  Proved: (1) byte layer: every value the parser returns from an input shorter
   than 2^64 bytes is in normal form (lengths, integer range, UTF-8, floats) and within 256 nesting
   levels, and re-serialising and re-parsing it returns it unchanged UNLESS it contains tag 2/3
   directly over a byte string of <= 16 bytes that is not a bignum normal form (finding F4,
   witness proved); (2) value layer, for EVERY type: if the value-level decoder returns m then the
   encoder succeeds on m and the decoder maps its output back to m (protected headers re-emitted
   verbatim at every nesting level); (3) byte layer for every type from (1)+(2), under the
   hypothesis that the re-encoded value is wire-normal.  (4) Proofs/ReencodeNf.v discharges that hypothesis: the re-encoding of a decoded value is
   wire-normal and no deeper than the parser's output, which gives the full byte-level statement
   for every type outside the known class (C07_all_types_bytes_fixed_point_full). *)
From Coset.Model Require Import Prelude Cbor Iana Label Msg Key Cwt Context Api.
From Coset.Proofs Require Import Head RoundTrip DecodedNf TypedRoundTrip.
From Coset.Proofs Require HeaderRoundTrip MsgRoundTrip ReencodeNf.
Import MsgRoundTrip.
Open Scope N_scope.

(* what the byte parser returns is in normal form (mod the bignum-shape clause) and within the nesting budget *)
Theorem C07_from_reader_output :
  forall l v, N.of_nat (length l) < p64 -> from_reader l = Ok (v, []) ->
  value_nf0 v = true /\ (depth v <= 256)%nat.
Proof. exact from_reader_output. Qed.
Print Assumptions C07_from_reader_output.

(* byte layer: parse, serialise, parse again = identity, outside the known class *)
Theorem C07_decoded_roundtrips :
  forall l v, N.of_nat (length l) < p64 -> from_reader l = Ok (v, []) ->
  no_bad_bignum v = true -> from_reader (ser v) = Ok (v, []).
Proof. exact decoded_roundtrips. Qed.
Print Assumptions C07_decoded_roundtrips.

Theorem C07_nf_split :
  forall v, value_nf v = value_nf0 v && no_bad_bignum v.
Proof. exact nf_split. Qed.
Print Assumptions C07_nf_split.

(* value layer *)
Theorem C07_key_decode_encode_fixed_point :
  forall v k, CoseKey_from_value v = Ok k ->
  exists v', CoseKey_to_value k = Ok v' /\ CoseKey_from_value v' = Ok k.
Proof. exact key_decode_encode_fixed_point. Qed.
Print Assumptions C07_key_decode_encode_fixed_point.

Theorem C07_keyset_decode_encode_fixed_point :
  forall v ks, CoseKeySet_from_value v = Ok ks ->
  exists v', CoseKeySet_to_value ks = Ok v' /\ CoseKeySet_from_value v' = Ok ks.
Proof. exact keyset_decode_encode_fixed_point. Qed.
Print Assumptions C07_keyset_decode_encode_fixed_point.

Theorem C07_party_decode_encode_fixed_point :
  forall v p, PartyInfo_from_value v = Ok p ->
  exists v', PartyInfo_to_value p = Ok v' /\ PartyInfo_from_value v' = Ok p.
Proof. exact party_decode_encode_fixed_point. Qed.
Print Assumptions C07_party_decode_encode_fixed_point.

Theorem C07_label_decode_encode_fixed_point :
  forall v l, Label_from_value v = Ok l ->
  exists v', Label_to_value l = Ok v' /\ Label_from_value v' = Ok l.
Proof. exact label_decode_encode_fixed_point. Qed.
Print Assumptions C07_label_decode_encode_fixed_point.

Theorem C07_claims_decode_encode_fixed_point :
  forall v c, ClaimsSet_from_value v = Ok c ->
  exists v', ClaimsSet_to_value c = Ok v' /\ ClaimsSet_from_value v' = Ok c.
Proof. exact claims_decode_encode_fixed_point. Qed.
Print Assumptions C07_claims_decode_encode_fixed_point.

(* byte-level fixed point, generic in the type, from the value-level one *)
Theorem C07_bytes_fixed_point :
  forall (T : Type) (fromv : value -> res T) (tov : T -> res value) b x,
  (forall v y, fromv v = Ok y -> exists v', tov y = Ok v' /\ fromv v' = Ok y) ->
  from_slice fromv b = Ok x ->
  forall v', tov x = Ok v' -> value_nf v' = true -> (depth v' <= 256)%nat ->
  exists b', to_vec tov x = Ok b' /\ from_slice fromv b' = Ok x /\ to_vec tov x = Ok b'.
Proof. exact bytes_fixed_point. Qed.
Print Assumptions C07_bytes_fixed_point.

Theorem C07_key_bytes_fixed_point :
  forall b k v', from_slice CoseKey_from_value b = Ok k ->
  CoseKey_to_value k = Ok v' -> value_nf v' = true -> (depth v' <= 256)%nat ->
  exists b', to_vec CoseKey_to_value k = Ok b' /\ from_slice CoseKey_from_value b' = Ok k /\
             to_vec CoseKey_to_value k = Ok b'.
Proof. exact key_bytes_fixed_point. Qed.
Print Assumptions C07_key_bytes_fixed_point.

Theorem C07_claims_bytes_fixed_point :
  forall b c v', from_slice ClaimsSet_from_value b = Ok c ->
  ClaimsSet_to_value c = Ok v' -> value_nf v' = true -> (depth v' <= 256)%nat ->
  exists b', to_vec ClaimsSet_to_value c = Ok b' /\ from_slice ClaimsSet_from_value b' = Ok c /\
             to_vec ClaimsSet_to_value c = Ok b'.
Proof. exact claims_bytes_fixed_point. Qed.
Print Assumptions C07_claims_bytes_fixed_point.

(* value layer for header maps, signatures and protected headers, at every nesting budget *)
Theorem C07_header_decode_encode_fixed_point :
  forall n v h, header_at n v = Ok h ->
  exists v', header_to_value h = Ok v' /\ header_at n v' = Ok h.
Proof. exact HeaderRoundTrip.header_decode_encode_fixed_point. Qed.
Print Assumptions C07_header_decode_encode_fixed_point.

Theorem C07_signature_decode_encode_fixed_point :
  forall n v s,
  signature_from_value (parse_prot_at n) v = Ok s ->
  exists v', signature_to_value s = Ok v' /\ signature_from_value (parse_prot_at n) v' = Ok s.
Proof. exact HeaderRoundTrip.signature_decode_encode_fixed_point. Qed.
Print Assumptions C07_signature_decode_encode_fixed_point.

Theorem C07_protected_decode_encode_fixed_point :
  forall n v p,
  protected_from_bstr (parse_prot_at n) v = Ok p ->
  protected_cbor_bstr p = Ok v /\ protected_from_bstr (parse_prot_at n) v = Ok p.
Proof. exact HeaderRoundTrip.protected_decode_encode_fixed_point. Qed.
Print Assumptions C07_protected_decode_encode_fixed_point.

Theorem C07_Header_decode_encode_fixed_point :
  forall v h, Header_from_value v = Ok h ->
  exists v', Header_to_value h = Ok v' /\ Header_from_value v' = Ok h.
Proof. exact HeaderRoundTrip.Header_decode_encode_fixed_point. Qed.
Print Assumptions C07_Header_decode_encode_fixed_point.

Theorem C07_CoseSignature_decode_encode_fixed_point :
  forall v s, CoseSignature_from_value v = Ok s ->
  exists v', CoseSignature_to_value s = Ok v' /\ CoseSignature_from_value v' = Ok s.
Proof. exact HeaderRoundTrip.CoseSignature_decode_encode_fixed_point. Qed.
Print Assumptions C07_CoseSignature_decode_encode_fixed_point.

(* value layer for every message structure and the KDF types *)
Theorem C07_CoseSign1_decode_encode_fixed_point :
  forall v m, CoseSign1_from_value v = Ok m ->
  exists v', CoseSign1_to_value m = Ok v' /\ CoseSign1_from_value v' = Ok m.
Proof. exact MsgRoundTrip.CoseSign1_decode_encode_fixed_point. Qed.
Print Assumptions C07_CoseSign1_decode_encode_fixed_point.

Theorem C07_CoseSign_decode_encode_fixed_point :
  forall v m, CoseSign_from_value v = Ok m ->
  exists v', CoseSign_to_value m = Ok v' /\ CoseSign_from_value v' = Ok m.
Proof. exact MsgRoundTrip.CoseSign_decode_encode_fixed_point. Qed.
Print Assumptions C07_CoseSign_decode_encode_fixed_point.

Theorem C07_CoseMac_decode_encode_fixed_point :
  forall v m, CoseMac_from_value v = Ok m ->
  exists v', CoseMac_to_value m = Ok v' /\ CoseMac_from_value v' = Ok m.
Proof. exact MsgRoundTrip.CoseMac_decode_encode_fixed_point. Qed.
Print Assumptions C07_CoseMac_decode_encode_fixed_point.

Theorem C07_CoseMac0_decode_encode_fixed_point :
  forall v m, CoseMac0_from_value v = Ok m ->
  exists v', CoseMac0_to_value m = Ok v' /\ CoseMac0_from_value v' = Ok m.
Proof. exact MsgRoundTrip.CoseMac0_decode_encode_fixed_point. Qed.
Print Assumptions C07_CoseMac0_decode_encode_fixed_point.

Theorem C07_CoseEncrypt_decode_encode_fixed_point :
  forall v m, CoseEncrypt_from_value v = Ok m ->
  exists v', CoseEncrypt_to_value m = Ok v' /\ CoseEncrypt_from_value v' = Ok m.
Proof. exact MsgRoundTrip.CoseEncrypt_decode_encode_fixed_point. Qed.
Print Assumptions C07_CoseEncrypt_decode_encode_fixed_point.

Theorem C07_CoseEncrypt0_decode_encode_fixed_point :
  forall v m, CoseEncrypt0_from_value v = Ok m ->
  exists v', CoseEncrypt0_to_value m = Ok v' /\ CoseEncrypt0_from_value v' = Ok m.
Proof. exact MsgRoundTrip.CoseEncrypt0_decode_encode_fixed_point. Qed.
Print Assumptions C07_CoseEncrypt0_decode_encode_fixed_point.

Theorem C07_CoseRecipient_decode_encode_fixed_point :
  forall v r, CoseRecipient_from_value v = Ok r ->
  exists v', CoseRecipient_to_value r = Ok v' /\ CoseRecipient_from_value v' = Ok r.
Proof. exact MsgRoundTrip.CoseRecipient_decode_encode_fixed_point. Qed.
Print Assumptions C07_CoseRecipient_decode_encode_fixed_point.

Theorem C07_SuppPubInfo_decode_encode_fixed_point :
  forall v s, SuppPubInfo_from_value v = Ok s ->
  exists v', SuppPubInfo_to_value s = Ok v' /\ SuppPubInfo_from_value v' = Ok s.
Proof. exact MsgRoundTrip.SuppPubInfo_decode_encode_fixed_point. Qed.
Print Assumptions C07_SuppPubInfo_decode_encode_fixed_point.

Theorem C07_CoseKdfContext_decode_encode_fixed_point :
  forall v k, CoseKdfContext_from_value v = Ok k ->
  exists v', CoseKdfContext_to_value k = Ok v' /\ CoseKdfContext_from_value v' = Ok k.
Proof. exact MsgRoundTrip.CoseKdfContext_decode_encode_fixed_point. Qed.
Print Assumptions C07_CoseKdfContext_decode_encode_fixed_point.

(* byte level for all eleven header-carrying types: if b decodes to m and the re-encoding of m is
   wire-normal (always true outside the known class, by C07_from_reader_output / nf_split), then
   to_vec m = b', from_slice b' = m, and encoding again gives b' *)
Theorem C07_messages_bytes_fixed_point :
  bytes_fp CoseSign1_from_value CoseSign1_to_value /\
  bytes_fp CoseSign_from_value CoseSign_to_value /\
  bytes_fp CoseMac_from_value CoseMac_to_value /\
  bytes_fp CoseMac0_from_value CoseMac0_to_value /\
  bytes_fp CoseEncrypt_from_value CoseEncrypt_to_value /\
  bytes_fp CoseEncrypt0_from_value CoseEncrypt0_to_value /\
  bytes_fp CoseRecipient_from_value CoseRecipient_to_value /\
  bytes_fp SuppPubInfo_from_value SuppPubInfo_to_value /\
  bytes_fp CoseKdfContext_from_value CoseKdfContext_to_value /\
  bytes_fp Header_from_value Header_to_value /\
  bytes_fp CoseSignature_from_value CoseSignature_to_value.
Proof. exact MsgRoundTrip.messages_bytes_fixed_point. Qed.
Print Assumptions C07_messages_bytes_fixed_point.

(* ===== the full statement (Proofs/ReencodeNf.v): re-encoding a decoded value only rearranges
   sub-values of the parser's output, so it stays wire-normal and no deeper; hence for EVERY type and
   every input b shorter than 2^64 bytes whose parse contains no tag 2/3 directly over a short
   non-normal byte string (the known class F4): if b decodes to m then m encodes to some b' and b'
   decodes to m again (and, to_vec being a function, encoding that result again yields b'). ===== *)
Theorem C07_CoseSign1_bytes_fixed_point_full :
  forall b v m,
    (N.of_nat (length b) < p64)%N -> from_reader b = Ok (v, []) -> DecodedNf.no_bad_bignum v = true ->
    CoseSign1_from_value v = Ok m ->
    exists b', to_vec CoseSign1_to_value m = Ok b' /\ from_slice CoseSign1_from_value b' = Ok m.
Proof. exact ReencodeNf.CoseSign1_bytes_fixed_point_full. Qed.
Print Assumptions C07_CoseSign1_bytes_fixed_point_full.

(* reencode_nf fromv tov := forall v m v', value_nf v = true -> fromv v = Ok m -> tov m = Ok v' ->
                              value_nf v' = true /\ depth v' <= depth v *)
Theorem C07_all_types_reencode_nf :
  ReencodeNf.reencode_nf Label_from_value Label_to_value /\
  ReencodeNf.reencode_nf PartyInfo_from_value PartyInfo_to_value /\
  ReencodeNf.reencode_nf CoseKey_from_value CoseKey_to_value /\
  ReencodeNf.reencode_nf CoseKeySet_from_value CoseKeySet_to_value /\
  ReencodeNf.reencode_nf ClaimsSet_from_value ClaimsSet_to_value /\
  ReencodeNf.reencode_nf Header_from_value Header_to_value /\
  ReencodeNf.reencode_nf ProtectedHeader_from_value protected_to_value /\
  ReencodeNf.reencode_nf ProtectedHeader_from_cbor_bstr protected_cbor_bstr /\
  ReencodeNf.reencode_nf CoseSignature_from_value CoseSignature_to_value /\
  ReencodeNf.reencode_nf CoseSign1_from_value CoseSign1_to_value /\
  ReencodeNf.reencode_nf CoseSign_from_value CoseSign_to_value /\
  ReencodeNf.reencode_nf CoseMac_from_value CoseMac_to_value /\
  ReencodeNf.reencode_nf CoseMac0_from_value CoseMac0_to_value /\
  ReencodeNf.reencode_nf CoseEncrypt_from_value CoseEncrypt_to_value /\
  ReencodeNf.reencode_nf CoseEncrypt0_from_value CoseEncrypt0_to_value /\
  ReencodeNf.reencode_nf CoseRecipient_from_value CoseRecipient_to_value /\
  ReencodeNf.reencode_nf SuppPubInfo_from_value SuppPubInfo_to_value /\
  ReencodeNf.reencode_nf CoseKdfContext_from_value CoseKdfContext_to_value.
Proof. exact ReencodeNf.all_types_reencode_nf. Qed.
Print Assumptions C07_all_types_reencode_nf.

(* bytes_fp_full fromv tov := the statement of C07_CoseSign1_bytes_fixed_point_full for (fromv, tov) *)
Theorem C07_all_types_bytes_fixed_point_full :
  ReencodeNf.bytes_fp_full Label_from_value Label_to_value /\
  ReencodeNf.bytes_fp_full PartyInfo_from_value PartyInfo_to_value /\
  ReencodeNf.bytes_fp_full CoseKey_from_value CoseKey_to_value /\
  ReencodeNf.bytes_fp_full CoseKeySet_from_value CoseKeySet_to_value /\
  ReencodeNf.bytes_fp_full ClaimsSet_from_value ClaimsSet_to_value /\
  ReencodeNf.bytes_fp_full Header_from_value Header_to_value /\
  ReencodeNf.bytes_fp_full ProtectedHeader_from_value protected_to_value /\
  ReencodeNf.bytes_fp_full ProtectedHeader_from_cbor_bstr protected_cbor_bstr /\
  ReencodeNf.bytes_fp_full CoseSignature_from_value CoseSignature_to_value /\
  ReencodeNf.bytes_fp_full CoseSign1_from_value CoseSign1_to_value /\
  ReencodeNf.bytes_fp_full CoseSign_from_value CoseSign_to_value /\
  ReencodeNf.bytes_fp_full CoseMac_from_value CoseMac_to_value /\
  ReencodeNf.bytes_fp_full CoseMac0_from_value CoseMac0_to_value /\
  ReencodeNf.bytes_fp_full CoseEncrypt_from_value CoseEncrypt_to_value /\
  ReencodeNf.bytes_fp_full CoseEncrypt0_from_value CoseEncrypt0_to_value /\
  ReencodeNf.bytes_fp_full CoseRecipient_from_value CoseRecipient_to_value /\
  ReencodeNf.bytes_fp_full SuppPubInfo_from_value SuppPubInfo_to_value /\
  ReencodeNf.bytes_fp_full CoseKdfContext_from_value CoseKdfContext_to_value.
Proof. exact ReencodeNf.all_types_bytes_fixed_point_full. Qed.
Print Assumptions C07_all_types_bytes_fixed_point_full.

(* same with `from_slice fromv b = Ok m` as the hypothesis *)
Theorem C07_all_types_bytes_fixed_point_full_slice :
  ReencodeNf.bytes_fp_full_slice Label_from_value Label_to_value /\
  ReencodeNf.bytes_fp_full_slice PartyInfo_from_value PartyInfo_to_value /\
  ReencodeNf.bytes_fp_full_slice CoseKey_from_value CoseKey_to_value /\
  ReencodeNf.bytes_fp_full_slice CoseKeySet_from_value CoseKeySet_to_value /\
  ReencodeNf.bytes_fp_full_slice ClaimsSet_from_value ClaimsSet_to_value /\
  ReencodeNf.bytes_fp_full_slice Header_from_value Header_to_value /\
  ReencodeNf.bytes_fp_full_slice ProtectedHeader_from_value protected_to_value /\
  ReencodeNf.bytes_fp_full_slice ProtectedHeader_from_cbor_bstr protected_cbor_bstr /\
  ReencodeNf.bytes_fp_full_slice CoseSignature_from_value CoseSignature_to_value /\
  ReencodeNf.bytes_fp_full_slice CoseSign1_from_value CoseSign1_to_value /\
  ReencodeNf.bytes_fp_full_slice CoseSign_from_value CoseSign_to_value /\
  ReencodeNf.bytes_fp_full_slice CoseMac_from_value CoseMac_to_value /\
  ReencodeNf.bytes_fp_full_slice CoseMac0_from_value CoseMac0_to_value /\
  ReencodeNf.bytes_fp_full_slice CoseEncrypt_from_value CoseEncrypt_to_value /\
  ReencodeNf.bytes_fp_full_slice CoseEncrypt0_from_value CoseEncrypt0_to_value /\
  ReencodeNf.bytes_fp_full_slice CoseRecipient_from_value CoseRecipient_to_value /\
  ReencodeNf.bytes_fp_full_slice SuppPubInfo_from_value SuppPubInfo_to_value /\
  ReencodeNf.bytes_fp_full_slice CoseKdfContext_from_value CoseKdfContext_to_value.
Proof. exact ReencodeNf.all_types_bytes_fixed_point_full_slice. Qed.
Print Assumptions C07_all_types_bytes_fixed_point_full_slice.

(* the hypotheses are satisfiable: an 18-byte COSE_Sign1 with protected {1: -7} and unprotected {4: h'3131'} *)
Theorem C07_bytes_fixed_point_full_nonvacuous :
  (* all hypotheses of CoseSign1_bytes_fixed_point_full hold for the example ... *)
  (N.of_nat (length ReencodeNf.example_sign1_bytes) < p64)%N /\
  from_reader ReencodeNf.example_sign1_bytes = Ok (ReencodeNf.example_sign1_value, []) /\
  DecodedNf.no_bad_bignum ReencodeNf.example_sign1_value = true /\
  CoseSign1_from_value ReencodeNf.example_sign1_value = Ok ReencodeNf.example_sign1 /\
  (* ... so does that of the from_slice form ... *)
  from_slice CoseSign1_from_value ReencodeNf.example_sign1_bytes = Ok ReencodeNf.example_sign1 /\
  (* ... the message is not trivial ... *)
  h_alg (p_hdr (s1_prot ReencodeNf.example_sign1)) = Some (PAssigned (-7)) /\
  h_kid (s1_unprot ReencodeNf.example_sign1) = [x31; x31] /\
  (* ... and the conclusion, here with the very same bytes *)
  to_vec CoseSign1_to_value ReencodeNf.example_sign1 = Ok ReencodeNf.example_sign1_bytes /\
  exists b', to_vec CoseSign1_to_value ReencodeNf.example_sign1 = Ok b' /\
             from_slice CoseSign1_from_value b' = Ok ReencodeNf.example_sign1.
Proof. exact ReencodeNf.CoseSign1_bytes_fixed_point_full_nonvacuous. Qed.
Print Assumptions C07_bytes_fixed_point_full_nonvacuous.

(* known finding F4: tag 2 over an indefinite-length byte string of one byte *)
Theorem C07_short_bignum_refuted :
  exists b v b', from_slice Header_from_value b = Ok v /\ to_vec header_to_value v = Ok b' /\
                 from_slice Header_from_value b' <> Ok v.
Proof.
  exists [xa1; x18; x63; xc2; x5f; x41; x01; xff].
  eexists. eexists. split; [vm_compute; reflexivity|split; [vm_compute; reflexivity|vm_compute; discriminate]].
Qed.
Print Assumptions C07_short_bignum_refuted.
