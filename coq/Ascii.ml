open Bool
open Byte

type ascii =
| Ascii of bool * bool * bool * bool * bool * bool * bool * bool

(** val ascii_dec : ascii -> ascii -> bool **)

let ascii_dec a b =
  let Ascii (b0, b1, b2, b3, b4, b5, b6, b7) = a in
  let Ascii (b8, b9, b10, b11, b12, b13, b14, b15) = b in
  if bool_dec b0 b8
  then if bool_dec b1 b9
       then if bool_dec b2 b10
            then if bool_dec b3 b11
                 then if bool_dec b4 b12
                      then if bool_dec b5 b13
                           then if bool_dec b6 b14
                                then bool_dec b7 b15
                                else false
                           else false
                      else false
                 else false
            else false
       else false
  else false

(** val eqb : ascii -> ascii -> bool **)

let eqb a b =
  let Ascii (a0, a1, a2, a3, a4, a5, a6, a7) = a in
  let Ascii (b0, b1, b2, b3, b4, b5, b6, b7) = b in
  if if if if if if if eqb a0 b0 then eqb a1 b1 else false
                 then eqb a2 b2
                 else false
              then eqb a3 b3
              else false
           then eqb a4 b4
           else false
        then eqb a5 b5
        else false
     then eqb a6 b6
     else false
  then eqb a7 b7
  else false

(** val ascii_of_byte : byte -> ascii **)

let ascii_of_byte b =
  let (b0, p) = to_bits b in
  let (b1, p0) = p in
  let (b2, p1) = p0 in
  let (b3, p2) = p1 in
  let (b4, p3) = p2 in
  let (b5, p4) = p3 in
  let (b6, b7) = p4 in Ascii (b0, b1, b2, b3, b4, b5, b6, b7)

(** val byte_of_ascii : ascii -> byte **)

let byte_of_ascii = function
| Ascii (b0, b1, b2, b3, b4, b5, b6, b7) ->
  of_bits (b0, (b1, (b2, (b3, (b4, (b5, (b6, b7)))))))
