open Ascii
open BinInt
open BinNat
open BinNums
open Cbor
open Datatypes
open Generated
open Iana
open Label
open List
open PeanoNat
open Prelude
open String

val try_as_bytes : value -> bytes res

val try_as_nonempty_bytes : value -> bytes res

val try_as_array : value -> value list res

val try_as_map : value -> (value * value) list res

val try_as_string : value -> bytes res

val try_as_integer : value -> coq_Z res

val bytes_or_nil : value -> bytes option res

val read_to_value : bytes -> value res

type header =
| Coq_mkHeader of regp_label option * reg_label list * reg_label option
   * bytes * bytes * bytes * signature list * (label * value) list
and signature =
| Coq_mkSignature of protected * header * bytes
and protected =
| Coq_mkProtected of bytes option * header

val h_alg : header -> regp_label option

val h_crit : header -> reg_label list

val h_ctype : header -> reg_label option

val h_kid : header -> bytes

val h_iv : header -> bytes

val h_piv : header -> bytes

val h_csigs : header -> signature list

val h_rest : header -> (label * value) list

val s_prot : signature -> protected

val s_unprot : signature -> header

val s_sig : signature -> bytes

val p_orig : protected -> bytes option

val p_hdr : protected -> header

val header_default : header

val protected_default : protected

val signature_default : signature

val header_is_empty : header -> bool

val ws_prefix : bytes -> bool

val ws_suffix : bytes -> bool

val count_slash : bytes -> nat

val check_content_type_text : bytes -> unit res

val map_loop :
  ('a1 -> label -> value -> 'a1 res) -> (value * value) list -> 'a1 -> label
  list -> 'a1 res

val set_alg : regp_label option -> header -> header

val set_crit : reg_label list -> header -> header

val set_ctype : reg_label option -> header -> header

val set_kid : bytes -> header -> header

val set_iv : bytes -> header -> header

val set_piv : bytes -> header -> header

val set_csigs : signature list -> header -> header

val set_rest : (label * value) list -> header -> header

val is_lint : label -> coq_Z -> bool

val iv_clash : header -> bool

val protected_from_bstr : (bytes -> header res) -> value -> protected res

val signature_from_value_with :
  (bytes -> header res) -> (value -> header res) -> value -> signature res

val header_step :
  (bytes -> header res) -> (value -> header res) -> header -> label -> value
  -> header res

val header_from_value : (bytes -> header res) -> value -> header res

val signature_from_value : (bytes -> header res) -> value -> signature res

val header_at : nat -> value -> header res

val parse_prot_at : nat -> bytes -> header res

val coq_Header_from_value : value -> header res

val coq_ProtectedHeader_from_cbor_bstr : value -> protected res

val coq_CoseSignature_from_value : value -> signature res

val coq_ProtectedHeader_from_value : value -> protected res

val opt_entry : coq_Z -> 'a1 option -> ('a1 -> value) -> (value * value) list

val bytes_entry : coq_Z -> bytes -> (value * value) list

val emit_rest :
  (label * value) list -> label list -> (value * value) list ->
  (value * value) list res

val seed_seen : (value * value) list -> label list res

val header_to_value : header -> value res

val signature_to_value : signature -> value res

val protected_cbor_bstr : protected -> value res

val protected_to_value : protected -> value res

val s2b : string -> bytes

type sig_context =
| SigCoseSignature
| SigCoseSign1
| SigCounterSignature

type mac_context =
| MacCoseMac
| MacCoseMac0

type enc_context =
| EncCoseEncrypt
| EncCoseEncrypt0
| EncEncRecipient
| EncMacRecipient
| EncRecRecipient

val sig_context_text : sig_context -> bytes

val mac_context_text : mac_context -> bytes

val enc_context_text : enc_context -> bytes

val expect : 'a1 res -> 'a1 res

val sig_structure_data :
  sig_context -> protected -> protected option -> bytes -> bytes -> bytes res

val mac_structure_data :
  mac_context -> protected -> bytes -> bytes -> bytes res

val enc_structure_data : enc_context -> protected -> bytes -> bytes res

type sign1 = { s1_prot : protected; s1_unprot : header;
               s1_payload : bytes option; s1_sig : bytes }

type sign = { sn_prot : protected; sn_unprot : header;
              sn_payload : bytes option; sn_sigs : signature list }

type mac0 = { m0_prot : protected; m0_unprot : header;
              m0_payload : bytes option; m0_tag : bytes }

type recipient = { r_prot : protected; r_unprot : header;
                   r_ct : bytes option; r_recipients : recipient list }

type mac = { mc_prot : protected; mc_unprot : header;
             mc_payload : bytes option; mc_tag : bytes;
             mc_recipients : recipient list }

type encrypt = { en_prot : protected; en_unprot : header;
                 en_ct : bytes option; en_recipients : recipient list }

type encrypt0 = { e0_prot : protected; e0_unprot : header;
                  e0_ct : bytes option }

val opt_bytes_value : bytes option -> value

val coq_CoseSign1_from_value : value -> sign1 res

val coq_CoseSign1_to_value : sign1 -> value res

val coq_CoseSign_from_value : value -> sign res

val coq_CoseSign_to_value : sign -> value res

val coq_CoseMac0_from_value : value -> mac0 res

val coq_CoseMac0_to_value : mac0 -> value res

val coq_CoseRecipient_from_value : value -> recipient res

val coq_CoseRecipient_to_value : recipient -> value res

val recipients_from_value : value -> recipient list res

val coq_CoseMac_from_value : value -> mac res

val coq_CoseMac_to_value : mac -> value res

val coq_CoseEncrypt_from_value : value -> encrypt res

val coq_CoseEncrypt_to_value : encrypt -> value res

val coq_CoseEncrypt0_from_value : value -> encrypt0 res

val coq_CoseEncrypt0_to_value : encrypt0 -> value res

val unwrap_or_empty : bytes option -> bytes

val coq_Sign1_tbs_data : sign1 -> bytes -> bytes res

val coq_Sign1_tbs_detached_data : sign1 -> bytes -> bytes -> bytes res

val coq_Sign_tbs_data : sign -> bytes -> signature -> bytes res

val coq_Sign_tbs_detached_data :
  sign -> bytes -> bytes -> signature -> bytes res

val coq_Mac_tbm : mac -> bytes -> bytes res

val coq_Mac0_tbm : mac0 -> bytes -> bytes res

val is_recipient_context : enc_context -> bool

val coq_Sign1_verify_signature :
  sign1 -> bytes -> (bytes -> bytes -> 'a1) -> 'a1 res

val coq_Sign1_verify_detached_signature :
  sign1 -> bytes -> bytes -> (bytes -> bytes -> 'a1) -> 'a1 res

val coq_Sign_verify_signature :
  sign -> nat -> bytes -> (bytes -> bytes -> 'a1) -> 'a1 res

val coq_Sign_verify_detached_signature :
  sign -> nat -> bytes -> bytes -> (bytes -> bytes -> 'a1) -> 'a1 res

val coq_Mac_verify_tag : mac -> bytes -> (bytes -> bytes -> 'a1) -> 'a1 res

val coq_Mac0_verify_tag : mac0 -> bytes -> (bytes -> bytes -> 'a1) -> 'a1 res

val coq_Encrypt_decrypt :
  encrypt -> bytes -> (bytes -> bytes -> 'a1) -> 'a1 res

val coq_Encrypt0_decrypt :
  encrypt0 -> bytes -> (bytes -> bytes -> 'a1) -> 'a1 res

val coq_Recipient_decrypt :
  recipient -> enc_context -> bytes -> (bytes -> bytes -> 'a1) -> 'a1 res
