open BinNums
open Bool
open Byte

(** val eqb : byte -> byte -> bool **)

let eqb a b =
  let (a0, p) = to_bits a in
  let (a1, p0) = p in
  let (a2, p1) = p0 in
  let (a3, p2) = p1 in
  let (a4, p3) = p2 in
  let (a5, p4) = p3 in
  let (a6, a7) = p4 in
  let (b0, p5) = to_bits b in
  let (b1, p6) = p5 in
  let (b2, p7) = p6 in
  let (b3, p8) = p7 in
  let (b4, p9) = p8 in
  let (b5, p10) = p9 in
  let (b6, b7) = p10 in
  (&&)
    ((&&)
      ((&&)
        ((&&)
          ((&&) ((&&) ((&&) (eqb a0 b0) (eqb a1 b1)) (eqb a2 b2)) (eqb a3 b3))
          (eqb a4 b4)) (eqb a5 b5)) (eqb a6 b6)) (eqb a7 b7)

(** val to_N : byte -> coq_N **)

let to_N = function
| Coq_x00 -> N0
| Coq_x01 -> Npos Coq_xH
| Coq_x02 -> Npos (Coq_xO Coq_xH)
| Coq_x03 -> Npos (Coq_xI Coq_xH)
| Coq_x04 -> Npos (Coq_xO (Coq_xO Coq_xH))
| Coq_x05 -> Npos (Coq_xI (Coq_xO Coq_xH))
| Coq_x06 -> Npos (Coq_xO (Coq_xI Coq_xH))
| Coq_x07 -> Npos (Coq_xI (Coq_xI Coq_xH))
| Coq_x08 -> Npos (Coq_xO (Coq_xO (Coq_xO Coq_xH)))
| Coq_x09 -> Npos (Coq_xI (Coq_xO (Coq_xO Coq_xH)))
| Coq_x0a -> Npos (Coq_xO (Coq_xI (Coq_xO Coq_xH)))
| Coq_x0b -> Npos (Coq_xI (Coq_xI (Coq_xO Coq_xH)))
| Coq_x0c -> Npos (Coq_xO (Coq_xO (Coq_xI Coq_xH)))
| Coq_x0d -> Npos (Coq_xI (Coq_xO (Coq_xI Coq_xH)))
| Coq_x0e -> Npos (Coq_xO (Coq_xI (Coq_xI Coq_xH)))
| Coq_x0f -> Npos (Coq_xI (Coq_xI (Coq_xI Coq_xH)))
| Coq_x10 -> Npos (Coq_xO (Coq_xO (Coq_xO (Coq_xO Coq_xH))))
| Coq_x11 -> Npos (Coq_xI (Coq_xO (Coq_xO (Coq_xO Coq_xH))))
| Coq_x12 -> Npos (Coq_xO (Coq_xI (Coq_xO (Coq_xO Coq_xH))))
| Coq_x13 -> Npos (Coq_xI (Coq_xI (Coq_xO (Coq_xO Coq_xH))))
| Coq_x14 -> Npos (Coq_xO (Coq_xO (Coq_xI (Coq_xO Coq_xH))))
| Coq_x15 -> Npos (Coq_xI (Coq_xO (Coq_xI (Coq_xO Coq_xH))))
| Coq_x16 -> Npos (Coq_xO (Coq_xI (Coq_xI (Coq_xO Coq_xH))))
| Coq_x17 -> Npos (Coq_xI (Coq_xI (Coq_xI (Coq_xO Coq_xH))))
| Coq_x18 -> Npos (Coq_xO (Coq_xO (Coq_xO (Coq_xI Coq_xH))))
| Coq_x19 -> Npos (Coq_xI (Coq_xO (Coq_xO (Coq_xI Coq_xH))))
| Coq_x1a -> Npos (Coq_xO (Coq_xI (Coq_xO (Coq_xI Coq_xH))))
| Coq_x1b -> Npos (Coq_xI (Coq_xI (Coq_xO (Coq_xI Coq_xH))))
| Coq_x1c -> Npos (Coq_xO (Coq_xO (Coq_xI (Coq_xI Coq_xH))))
| Coq_x1d -> Npos (Coq_xI (Coq_xO (Coq_xI (Coq_xI Coq_xH))))
| Coq_x1e -> Npos (Coq_xO (Coq_xI (Coq_xI (Coq_xI Coq_xH))))
| Coq_x1f -> Npos (Coq_xI (Coq_xI (Coq_xI (Coq_xI Coq_xH))))
| Coq_x20 -> Npos (Coq_xO (Coq_xO (Coq_xO (Coq_xO (Coq_xO Coq_xH)))))
| Coq_x21 -> Npos (Coq_xI (Coq_xO (Coq_xO (Coq_xO (Coq_xO Coq_xH)))))
| Coq_x22 -> Npos (Coq_xO (Coq_xI (Coq_xO (Coq_xO (Coq_xO Coq_xH)))))
| Coq_x23 -> Npos (Coq_xI (Coq_xI (Coq_xO (Coq_xO (Coq_xO Coq_xH)))))
| Coq_x24 -> Npos (Coq_xO (Coq_xO (Coq_xI (Coq_xO (Coq_xO Coq_xH)))))
| Coq_x25 -> Npos (Coq_xI (Coq_xO (Coq_xI (Coq_xO (Coq_xO Coq_xH)))))
| Coq_x26 -> Npos (Coq_xO (Coq_xI (Coq_xI (Coq_xO (Coq_xO Coq_xH)))))
| Coq_x27 -> Npos (Coq_xI (Coq_xI (Coq_xI (Coq_xO (Coq_xO Coq_xH)))))
| Coq_x28 -> Npos (Coq_xO (Coq_xO (Coq_xO (Coq_xI (Coq_xO Coq_xH)))))
| Coq_x29 -> Npos (Coq_xI (Coq_xO (Coq_xO (Coq_xI (Coq_xO Coq_xH)))))
| Coq_x2a -> Npos (Coq_xO (Coq_xI (Coq_xO (Coq_xI (Coq_xO Coq_xH)))))
| Coq_x2b -> Npos (Coq_xI (Coq_xI (Coq_xO (Coq_xI (Coq_xO Coq_xH)))))
| Coq_x2c -> Npos (Coq_xO (Coq_xO (Coq_xI (Coq_xI (Coq_xO Coq_xH)))))
| Coq_x2d -> Npos (Coq_xI (Coq_xO (Coq_xI (Coq_xI (Coq_xO Coq_xH)))))
| Coq_x2e -> Npos (Coq_xO (Coq_xI (Coq_xI (Coq_xI (Coq_xO Coq_xH)))))
| Coq_x2f -> Npos (Coq_xI (Coq_xI (Coq_xI (Coq_xI (Coq_xO Coq_xH)))))
| Coq_x30 -> Npos (Coq_xO (Coq_xO (Coq_xO (Coq_xO (Coq_xI Coq_xH)))))
| Coq_x31 -> Npos (Coq_xI (Coq_xO (Coq_xO (Coq_xO (Coq_xI Coq_xH)))))
| Coq_x32 -> Npos (Coq_xO (Coq_xI (Coq_xO (Coq_xO (Coq_xI Coq_xH)))))
| Coq_x33 -> Npos (Coq_xI (Coq_xI (Coq_xO (Coq_xO (Coq_xI Coq_xH)))))
| Coq_x34 -> Npos (Coq_xO (Coq_xO (Coq_xI (Coq_xO (Coq_xI Coq_xH)))))
| Coq_x35 -> Npos (Coq_xI (Coq_xO (Coq_xI (Coq_xO (Coq_xI Coq_xH)))))
| Coq_x36 -> Npos (Coq_xO (Coq_xI (Coq_xI (Coq_xO (Coq_xI Coq_xH)))))
| Coq_x37 -> Npos (Coq_xI (Coq_xI (Coq_xI (Coq_xO (Coq_xI Coq_xH)))))
| Coq_x38 -> Npos (Coq_xO (Coq_xO (Coq_xO (Coq_xI (Coq_xI Coq_xH)))))
| Coq_x39 -> Npos (Coq_xI (Coq_xO (Coq_xO (Coq_xI (Coq_xI Coq_xH)))))
| Coq_x3a -> Npos (Coq_xO (Coq_xI (Coq_xO (Coq_xI (Coq_xI Coq_xH)))))
| Coq_x3b -> Npos (Coq_xI (Coq_xI (Coq_xO (Coq_xI (Coq_xI Coq_xH)))))
| Coq_x3c -> Npos (Coq_xO (Coq_xO (Coq_xI (Coq_xI (Coq_xI Coq_xH)))))
| Coq_x3d -> Npos (Coq_xI (Coq_xO (Coq_xI (Coq_xI (Coq_xI Coq_xH)))))
| Coq_x3e -> Npos (Coq_xO (Coq_xI (Coq_xI (Coq_xI (Coq_xI Coq_xH)))))
| Coq_x3f -> Npos (Coq_xI (Coq_xI (Coq_xI (Coq_xI (Coq_xI Coq_xH)))))
| Coq_x40 -> Npos (Coq_xO (Coq_xO (Coq_xO (Coq_xO (Coq_xO (Coq_xO Coq_xH))))))
| Coq_x41 -> Npos (Coq_xI (Coq_xO (Coq_xO (Coq_xO (Coq_xO (Coq_xO Coq_xH))))))
| Coq_x42 -> Npos (Coq_xO (Coq_xI (Coq_xO (Coq_xO (Coq_xO (Coq_xO Coq_xH))))))
| Coq_x43 -> Npos (Coq_xI (Coq_xI (Coq_xO (Coq_xO (Coq_xO (Coq_xO Coq_xH))))))
| Coq_x44 -> Npos (Coq_xO (Coq_xO (Coq_xI (Coq_xO (Coq_xO (Coq_xO Coq_xH))))))
| Coq_x45 -> Npos (Coq_xI (Coq_xO (Coq_xI (Coq_xO (Coq_xO (Coq_xO Coq_xH))))))
| Coq_x46 -> Npos (Coq_xO (Coq_xI (Coq_xI (Coq_xO (Coq_xO (Coq_xO Coq_xH))))))
| Coq_x47 -> Npos (Coq_xI (Coq_xI (Coq_xI (Coq_xO (Coq_xO (Coq_xO Coq_xH))))))
| Coq_x48 -> Npos (Coq_xO (Coq_xO (Coq_xO (Coq_xI (Coq_xO (Coq_xO Coq_xH))))))
| Coq_x49 -> Npos (Coq_xI (Coq_xO (Coq_xO (Coq_xI (Coq_xO (Coq_xO Coq_xH))))))
| Coq_x4a -> Npos (Coq_xO (Coq_xI (Coq_xO (Coq_xI (Coq_xO (Coq_xO Coq_xH))))))
| Coq_x4b -> Npos (Coq_xI (Coq_xI (Coq_xO (Coq_xI (Coq_xO (Coq_xO Coq_xH))))))
| Coq_x4c -> Npos (Coq_xO (Coq_xO (Coq_xI (Coq_xI (Coq_xO (Coq_xO Coq_xH))))))
| Coq_x4d -> Npos (Coq_xI (Coq_xO (Coq_xI (Coq_xI (Coq_xO (Coq_xO Coq_xH))))))
| Coq_x4e -> Npos (Coq_xO (Coq_xI (Coq_xI (Coq_xI (Coq_xO (Coq_xO Coq_xH))))))
| Coq_x4f -> Npos (Coq_xI (Coq_xI (Coq_xI (Coq_xI (Coq_xO (Coq_xO Coq_xH))))))
| Coq_x50 -> Npos (Coq_xO (Coq_xO (Coq_xO (Coq_xO (Coq_xI (Coq_xO Coq_xH))))))
| Coq_x51 -> Npos (Coq_xI (Coq_xO (Coq_xO (Coq_xO (Coq_xI (Coq_xO Coq_xH))))))
| Coq_x52 -> Npos (Coq_xO (Coq_xI (Coq_xO (Coq_xO (Coq_xI (Coq_xO Coq_xH))))))
| Coq_x53 -> Npos (Coq_xI (Coq_xI (Coq_xO (Coq_xO (Coq_xI (Coq_xO Coq_xH))))))
| Coq_x54 -> Npos (Coq_xO (Coq_xO (Coq_xI (Coq_xO (Coq_xI (Coq_xO Coq_xH))))))
| Coq_x55 -> Npos (Coq_xI (Coq_xO (Coq_xI (Coq_xO (Coq_xI (Coq_xO Coq_xH))))))
| Coq_x56 -> Npos (Coq_xO (Coq_xI (Coq_xI (Coq_xO (Coq_xI (Coq_xO Coq_xH))))))
| Coq_x57 -> Npos (Coq_xI (Coq_xI (Coq_xI (Coq_xO (Coq_xI (Coq_xO Coq_xH))))))
| Coq_x58 -> Npos (Coq_xO (Coq_xO (Coq_xO (Coq_xI (Coq_xI (Coq_xO Coq_xH))))))
| Coq_x59 -> Npos (Coq_xI (Coq_xO (Coq_xO (Coq_xI (Coq_xI (Coq_xO Coq_xH))))))
| Coq_x5a -> Npos (Coq_xO (Coq_xI (Coq_xO (Coq_xI (Coq_xI (Coq_xO Coq_xH))))))
| Coq_x5b -> Npos (Coq_xI (Coq_xI (Coq_xO (Coq_xI (Coq_xI (Coq_xO Coq_xH))))))
| Coq_x5c -> Npos (Coq_xO (Coq_xO (Coq_xI (Coq_xI (Coq_xI (Coq_xO Coq_xH))))))
| Coq_x5d -> Npos (Coq_xI (Coq_xO (Coq_xI (Coq_xI (Coq_xI (Coq_xO Coq_xH))))))
| Coq_x5e -> Npos (Coq_xO (Coq_xI (Coq_xI (Coq_xI (Coq_xI (Coq_xO Coq_xH))))))
| Coq_x5f -> Npos (Coq_xI (Coq_xI (Coq_xI (Coq_xI (Coq_xI (Coq_xO Coq_xH))))))
| Coq_x60 -> Npos (Coq_xO (Coq_xO (Coq_xO (Coq_xO (Coq_xO (Coq_xI Coq_xH))))))
| Coq_x61 -> Npos (Coq_xI (Coq_xO (Coq_xO (Coq_xO (Coq_xO (Coq_xI Coq_xH))))))
| Coq_x62 -> Npos (Coq_xO (Coq_xI (Coq_xO (Coq_xO (Coq_xO (Coq_xI Coq_xH))))))
| Coq_x63 -> Npos (Coq_xI (Coq_xI (Coq_xO (Coq_xO (Coq_xO (Coq_xI Coq_xH))))))
| Coq_x64 -> Npos (Coq_xO (Coq_xO (Coq_xI (Coq_xO (Coq_xO (Coq_xI Coq_xH))))))
| Coq_x65 -> Npos (Coq_xI (Coq_xO (Coq_xI (Coq_xO (Coq_xO (Coq_xI Coq_xH))))))
| Coq_x66 -> Npos (Coq_xO (Coq_xI (Coq_xI (Coq_xO (Coq_xO (Coq_xI Coq_xH))))))
| Coq_x67 -> Npos (Coq_xI (Coq_xI (Coq_xI (Coq_xO (Coq_xO (Coq_xI Coq_xH))))))
| Coq_x68 -> Npos (Coq_xO (Coq_xO (Coq_xO (Coq_xI (Coq_xO (Coq_xI Coq_xH))))))
| Coq_x69 -> Npos (Coq_xI (Coq_xO (Coq_xO (Coq_xI (Coq_xO (Coq_xI Coq_xH))))))
| Coq_x6a -> Npos (Coq_xO (Coq_xI (Coq_xO (Coq_xI (Coq_xO (Coq_xI Coq_xH))))))
| Coq_x6b -> Npos (Coq_xI (Coq_xI (Coq_xO (Coq_xI (Coq_xO (Coq_xI Coq_xH))))))
| Coq_x6c -> Npos (Coq_xO (Coq_xO (Coq_xI (Coq_xI (Coq_xO (Coq_xI Coq_xH))))))
| Coq_x6d -> Npos (Coq_xI (Coq_xO (Coq_xI (Coq_xI (Coq_xO (Coq_xI Coq_xH))))))
| Coq_x6e -> Npos (Coq_xO (Coq_xI (Coq_xI (Coq_xI (Coq_xO (Coq_xI Coq_xH))))))
| Coq_x6f -> Npos (Coq_xI (Coq_xI (Coq_xI (Coq_xI (Coq_xO (Coq_xI Coq_xH))))))
| Coq_x70 -> Npos (Coq_xO (Coq_xO (Coq_xO (Coq_xO (Coq_xI (Coq_xI Coq_xH))))))
| Coq_x71 -> Npos (Coq_xI (Coq_xO (Coq_xO (Coq_xO (Coq_xI (Coq_xI Coq_xH))))))
| Coq_x72 -> Npos (Coq_xO (Coq_xI (Coq_xO (Coq_xO (Coq_xI (Coq_xI Coq_xH))))))
| Coq_x73 -> Npos (Coq_xI (Coq_xI (Coq_xO (Coq_xO (Coq_xI (Coq_xI Coq_xH))))))
| Coq_x74 -> Npos (Coq_xO (Coq_xO (Coq_xI (Coq_xO (Coq_xI (Coq_xI Coq_xH))))))
| Coq_x75 -> Npos (Coq_xI (Coq_xO (Coq_xI (Coq_xO (Coq_xI (Coq_xI Coq_xH))))))
| Coq_x76 -> Npos (Coq_xO (Coq_xI (Coq_xI (Coq_xO (Coq_xI (Coq_xI Coq_xH))))))
| Coq_x77 -> Npos (Coq_xI (Coq_xI (Coq_xI (Coq_xO (Coq_xI (Coq_xI Coq_xH))))))
| Coq_x78 -> Npos (Coq_xO (Coq_xO (Coq_xO (Coq_xI (Coq_xI (Coq_xI Coq_xH))))))
| Coq_x79 -> Npos (Coq_xI (Coq_xO (Coq_xO (Coq_xI (Coq_xI (Coq_xI Coq_xH))))))
| Coq_x7a -> Npos (Coq_xO (Coq_xI (Coq_xO (Coq_xI (Coq_xI (Coq_xI Coq_xH))))))
| Coq_x7b -> Npos (Coq_xI (Coq_xI (Coq_xO (Coq_xI (Coq_xI (Coq_xI Coq_xH))))))
| Coq_x7c -> Npos (Coq_xO (Coq_xO (Coq_xI (Coq_xI (Coq_xI (Coq_xI Coq_xH))))))
| Coq_x7d -> Npos (Coq_xI (Coq_xO (Coq_xI (Coq_xI (Coq_xI (Coq_xI Coq_xH))))))
| Coq_x7e -> Npos (Coq_xO (Coq_xI (Coq_xI (Coq_xI (Coq_xI (Coq_xI Coq_xH))))))
| Coq_x7f -> Npos (Coq_xI (Coq_xI (Coq_xI (Coq_xI (Coq_xI (Coq_xI Coq_xH))))))
| Coq_x80 ->
  Npos (Coq_xO (Coq_xO (Coq_xO (Coq_xO (Coq_xO (Coq_xO (Coq_xO Coq_xH)))))))
| Coq_x81 ->
  Npos (Coq_xI (Coq_xO (Coq_xO (Coq_xO (Coq_xO (Coq_xO (Coq_xO Coq_xH)))))))
| Coq_x82 ->
  Npos (Coq_xO (Coq_xI (Coq_xO (Coq_xO (Coq_xO (Coq_xO (Coq_xO Coq_xH)))))))
| Coq_x83 ->
  Npos (Coq_xI (Coq_xI (Coq_xO (Coq_xO (Coq_xO (Coq_xO (Coq_xO Coq_xH)))))))
| Coq_x84 ->
  Npos (Coq_xO (Coq_xO (Coq_xI (Coq_xO (Coq_xO (Coq_xO (Coq_xO Coq_xH)))))))
| Coq_x85 ->
  Npos (Coq_xI (Coq_xO (Coq_xI (Coq_xO (Coq_xO (Coq_xO (Coq_xO Coq_xH)))))))
| Coq_x86 ->
  Npos (Coq_xO (Coq_xI (Coq_xI (Coq_xO (Coq_xO (Coq_xO (Coq_xO Coq_xH)))))))
| Coq_x87 ->
  Npos (Coq_xI (Coq_xI (Coq_xI (Coq_xO (Coq_xO (Coq_xO (Coq_xO Coq_xH)))))))
| Coq_x88 ->
  Npos (Coq_xO (Coq_xO (Coq_xO (Coq_xI (Coq_xO (Coq_xO (Coq_xO Coq_xH)))))))
| Coq_x89 ->
  Npos (Coq_xI (Coq_xO (Coq_xO (Coq_xI (Coq_xO (Coq_xO (Coq_xO Coq_xH)))))))
| Coq_x8a ->
  Npos (Coq_xO (Coq_xI (Coq_xO (Coq_xI (Coq_xO (Coq_xO (Coq_xO Coq_xH)))))))
| Coq_x8b ->
  Npos (Coq_xI (Coq_xI (Coq_xO (Coq_xI (Coq_xO (Coq_xO (Coq_xO Coq_xH)))))))
| Coq_x8c ->
  Npos (Coq_xO (Coq_xO (Coq_xI (Coq_xI (Coq_xO (Coq_xO (Coq_xO Coq_xH)))))))
| Coq_x8d ->
  Npos (Coq_xI (Coq_xO (Coq_xI (Coq_xI (Coq_xO (Coq_xO (Coq_xO Coq_xH)))))))
| Coq_x8e ->
  Npos (Coq_xO (Coq_xI (Coq_xI (Coq_xI (Coq_xO (Coq_xO (Coq_xO Coq_xH)))))))
| Coq_x8f ->
  Npos (Coq_xI (Coq_xI (Coq_xI (Coq_xI (Coq_xO (Coq_xO (Coq_xO Coq_xH)))))))
| Coq_x90 ->
  Npos (Coq_xO (Coq_xO (Coq_xO (Coq_xO (Coq_xI (Coq_xO (Coq_xO Coq_xH)))))))
| Coq_x91 ->
  Npos (Coq_xI (Coq_xO (Coq_xO (Coq_xO (Coq_xI (Coq_xO (Coq_xO Coq_xH)))))))
| Coq_x92 ->
  Npos (Coq_xO (Coq_xI (Coq_xO (Coq_xO (Coq_xI (Coq_xO (Coq_xO Coq_xH)))))))
| Coq_x93 ->
  Npos (Coq_xI (Coq_xI (Coq_xO (Coq_xO (Coq_xI (Coq_xO (Coq_xO Coq_xH)))))))
| Coq_x94 ->
  Npos (Coq_xO (Coq_xO (Coq_xI (Coq_xO (Coq_xI (Coq_xO (Coq_xO Coq_xH)))))))
| Coq_x95 ->
  Npos (Coq_xI (Coq_xO (Coq_xI (Coq_xO (Coq_xI (Coq_xO (Coq_xO Coq_xH)))))))
| Coq_x96 ->
  Npos (Coq_xO (Coq_xI (Coq_xI (Coq_xO (Coq_xI (Coq_xO (Coq_xO Coq_xH)))))))
| Coq_x97 ->
  Npos (Coq_xI (Coq_xI (Coq_xI (Coq_xO (Coq_xI (Coq_xO (Coq_xO Coq_xH)))))))
| Coq_x98 ->
  Npos (Coq_xO (Coq_xO (Coq_xO (Coq_xI (Coq_xI (Coq_xO (Coq_xO Coq_xH)))))))
| Coq_x99 ->
  Npos (Coq_xI (Coq_xO (Coq_xO (Coq_xI (Coq_xI (Coq_xO (Coq_xO Coq_xH)))))))
| Coq_x9a ->
  Npos (Coq_xO (Coq_xI (Coq_xO (Coq_xI (Coq_xI (Coq_xO (Coq_xO Coq_xH)))))))
| Coq_x9b ->
  Npos (Coq_xI (Coq_xI (Coq_xO (Coq_xI (Coq_xI (Coq_xO (Coq_xO Coq_xH)))))))
| Coq_x9c ->
  Npos (Coq_xO (Coq_xO (Coq_xI (Coq_xI (Coq_xI (Coq_xO (Coq_xO Coq_xH)))))))
| Coq_x9d ->
  Npos (Coq_xI (Coq_xO (Coq_xI (Coq_xI (Coq_xI (Coq_xO (Coq_xO Coq_xH)))))))
| Coq_x9e ->
  Npos (Coq_xO (Coq_xI (Coq_xI (Coq_xI (Coq_xI (Coq_xO (Coq_xO Coq_xH)))))))
| Coq_x9f ->
  Npos (Coq_xI (Coq_xI (Coq_xI (Coq_xI (Coq_xI (Coq_xO (Coq_xO Coq_xH)))))))
| Coq_xa0 ->
  Npos (Coq_xO (Coq_xO (Coq_xO (Coq_xO (Coq_xO (Coq_xI (Coq_xO Coq_xH)))))))
| Coq_xa1 ->
  Npos (Coq_xI (Coq_xO (Coq_xO (Coq_xO (Coq_xO (Coq_xI (Coq_xO Coq_xH)))))))
| Coq_xa2 ->
  Npos (Coq_xO (Coq_xI (Coq_xO (Coq_xO (Coq_xO (Coq_xI (Coq_xO Coq_xH)))))))
| Coq_xa3 ->
  Npos (Coq_xI (Coq_xI (Coq_xO (Coq_xO (Coq_xO (Coq_xI (Coq_xO Coq_xH)))))))
| Coq_xa4 ->
  Npos (Coq_xO (Coq_xO (Coq_xI (Coq_xO (Coq_xO (Coq_xI (Coq_xO Coq_xH)))))))
| Coq_xa5 ->
  Npos (Coq_xI (Coq_xO (Coq_xI (Coq_xO (Coq_xO (Coq_xI (Coq_xO Coq_xH)))))))
| Coq_xa6 ->
  Npos (Coq_xO (Coq_xI (Coq_xI (Coq_xO (Coq_xO (Coq_xI (Coq_xO Coq_xH)))))))
| Coq_xa7 ->
  Npos (Coq_xI (Coq_xI (Coq_xI (Coq_xO (Coq_xO (Coq_xI (Coq_xO Coq_xH)))))))
| Coq_xa8 ->
  Npos (Coq_xO (Coq_xO (Coq_xO (Coq_xI (Coq_xO (Coq_xI (Coq_xO Coq_xH)))))))
| Coq_xa9 ->
  Npos (Coq_xI (Coq_xO (Coq_xO (Coq_xI (Coq_xO (Coq_xI (Coq_xO Coq_xH)))))))
| Coq_xaa ->
  Npos (Coq_xO (Coq_xI (Coq_xO (Coq_xI (Coq_xO (Coq_xI (Coq_xO Coq_xH)))))))
| Coq_xab ->
  Npos (Coq_xI (Coq_xI (Coq_xO (Coq_xI (Coq_xO (Coq_xI (Coq_xO Coq_xH)))))))
| Coq_xac ->
  Npos (Coq_xO (Coq_xO (Coq_xI (Coq_xI (Coq_xO (Coq_xI (Coq_xO Coq_xH)))))))
| Coq_xad ->
  Npos (Coq_xI (Coq_xO (Coq_xI (Coq_xI (Coq_xO (Coq_xI (Coq_xO Coq_xH)))))))
| Coq_xae ->
  Npos (Coq_xO (Coq_xI (Coq_xI (Coq_xI (Coq_xO (Coq_xI (Coq_xO Coq_xH)))))))
| Coq_xaf ->
  Npos (Coq_xI (Coq_xI (Coq_xI (Coq_xI (Coq_xO (Coq_xI (Coq_xO Coq_xH)))))))
| Coq_xb0 ->
  Npos (Coq_xO (Coq_xO (Coq_xO (Coq_xO (Coq_xI (Coq_xI (Coq_xO Coq_xH)))))))
| Coq_xb1 ->
  Npos (Coq_xI (Coq_xO (Coq_xO (Coq_xO (Coq_xI (Coq_xI (Coq_xO Coq_xH)))))))
| Coq_xb2 ->
  Npos (Coq_xO (Coq_xI (Coq_xO (Coq_xO (Coq_xI (Coq_xI (Coq_xO Coq_xH)))))))
| Coq_xb3 ->
  Npos (Coq_xI (Coq_xI (Coq_xO (Coq_xO (Coq_xI (Coq_xI (Coq_xO Coq_xH)))))))
| Coq_xb4 ->
  Npos (Coq_xO (Coq_xO (Coq_xI (Coq_xO (Coq_xI (Coq_xI (Coq_xO Coq_xH)))))))
| Coq_xb5 ->
  Npos (Coq_xI (Coq_xO (Coq_xI (Coq_xO (Coq_xI (Coq_xI (Coq_xO Coq_xH)))))))
| Coq_xb6 ->
  Npos (Coq_xO (Coq_xI (Coq_xI (Coq_xO (Coq_xI (Coq_xI (Coq_xO Coq_xH)))))))
| Coq_xb7 ->
  Npos (Coq_xI (Coq_xI (Coq_xI (Coq_xO (Coq_xI (Coq_xI (Coq_xO Coq_xH)))))))
| Coq_xb8 ->
  Npos (Coq_xO (Coq_xO (Coq_xO (Coq_xI (Coq_xI (Coq_xI (Coq_xO Coq_xH)))))))
| Coq_xb9 ->
  Npos (Coq_xI (Coq_xO (Coq_xO (Coq_xI (Coq_xI (Coq_xI (Coq_xO Coq_xH)))))))
| Coq_xba ->
  Npos (Coq_xO (Coq_xI (Coq_xO (Coq_xI (Coq_xI (Coq_xI (Coq_xO Coq_xH)))))))
| Coq_xbb ->
  Npos (Coq_xI (Coq_xI (Coq_xO (Coq_xI (Coq_xI (Coq_xI (Coq_xO Coq_xH)))))))
| Coq_xbc ->
  Npos (Coq_xO (Coq_xO (Coq_xI (Coq_xI (Coq_xI (Coq_xI (Coq_xO Coq_xH)))))))
| Coq_xbd ->
  Npos (Coq_xI (Coq_xO (Coq_xI (Coq_xI (Coq_xI (Coq_xI (Coq_xO Coq_xH)))))))
| Coq_xbe ->
  Npos (Coq_xO (Coq_xI (Coq_xI (Coq_xI (Coq_xI (Coq_xI (Coq_xO Coq_xH)))))))
| Coq_xbf ->
  Npos (Coq_xI (Coq_xI (Coq_xI (Coq_xI (Coq_xI (Coq_xI (Coq_xO Coq_xH)))))))
| Coq_xc0 ->
  Npos (Coq_xO (Coq_xO (Coq_xO (Coq_xO (Coq_xO (Coq_xO (Coq_xI Coq_xH)))))))
| Coq_xc1 ->
  Npos (Coq_xI (Coq_xO (Coq_xO (Coq_xO (Coq_xO (Coq_xO (Coq_xI Coq_xH)))))))
| Coq_xc2 ->
  Npos (Coq_xO (Coq_xI (Coq_xO (Coq_xO (Coq_xO (Coq_xO (Coq_xI Coq_xH)))))))
| Coq_xc3 ->
  Npos (Coq_xI (Coq_xI (Coq_xO (Coq_xO (Coq_xO (Coq_xO (Coq_xI Coq_xH)))))))
| Coq_xc4 ->
  Npos (Coq_xO (Coq_xO (Coq_xI (Coq_xO (Coq_xO (Coq_xO (Coq_xI Coq_xH)))))))
| Coq_xc5 ->
  Npos (Coq_xI (Coq_xO (Coq_xI (Coq_xO (Coq_xO (Coq_xO (Coq_xI Coq_xH)))))))
| Coq_xc6 ->
  Npos (Coq_xO (Coq_xI (Coq_xI (Coq_xO (Coq_xO (Coq_xO (Coq_xI Coq_xH)))))))
| Coq_xc7 ->
  Npos (Coq_xI (Coq_xI (Coq_xI (Coq_xO (Coq_xO (Coq_xO (Coq_xI Coq_xH)))))))
| Coq_xc8 ->
  Npos (Coq_xO (Coq_xO (Coq_xO (Coq_xI (Coq_xO (Coq_xO (Coq_xI Coq_xH)))))))
| Coq_xc9 ->
  Npos (Coq_xI (Coq_xO (Coq_xO (Coq_xI (Coq_xO (Coq_xO (Coq_xI Coq_xH)))))))
| Coq_xca ->
  Npos (Coq_xO (Coq_xI (Coq_xO (Coq_xI (Coq_xO (Coq_xO (Coq_xI Coq_xH)))))))
| Coq_xcb ->
  Npos (Coq_xI (Coq_xI (Coq_xO (Coq_xI (Coq_xO (Coq_xO (Coq_xI Coq_xH)))))))
| Coq_xcc ->
  Npos (Coq_xO (Coq_xO (Coq_xI (Coq_xI (Coq_xO (Coq_xO (Coq_xI Coq_xH)))))))
| Coq_xcd ->
  Npos (Coq_xI (Coq_xO (Coq_xI (Coq_xI (Coq_xO (Coq_xO (Coq_xI Coq_xH)))))))
| Coq_xce ->
  Npos (Coq_xO (Coq_xI (Coq_xI (Coq_xI (Coq_xO (Coq_xO (Coq_xI Coq_xH)))))))
| Coq_xcf ->
  Npos (Coq_xI (Coq_xI (Coq_xI (Coq_xI (Coq_xO (Coq_xO (Coq_xI Coq_xH)))))))
| Coq_xd0 ->
  Npos (Coq_xO (Coq_xO (Coq_xO (Coq_xO (Coq_xI (Coq_xO (Coq_xI Coq_xH)))))))
| Coq_xd1 ->
  Npos (Coq_xI (Coq_xO (Coq_xO (Coq_xO (Coq_xI (Coq_xO (Coq_xI Coq_xH)))))))
| Coq_xd2 ->
  Npos (Coq_xO (Coq_xI (Coq_xO (Coq_xO (Coq_xI (Coq_xO (Coq_xI Coq_xH)))))))
| Coq_xd3 ->
  Npos (Coq_xI (Coq_xI (Coq_xO (Coq_xO (Coq_xI (Coq_xO (Coq_xI Coq_xH)))))))
| Coq_xd4 ->
  Npos (Coq_xO (Coq_xO (Coq_xI (Coq_xO (Coq_xI (Coq_xO (Coq_xI Coq_xH)))))))
| Coq_xd5 ->
  Npos (Coq_xI (Coq_xO (Coq_xI (Coq_xO (Coq_xI (Coq_xO (Coq_xI Coq_xH)))))))
| Coq_xd6 ->
  Npos (Coq_xO (Coq_xI (Coq_xI (Coq_xO (Coq_xI (Coq_xO (Coq_xI Coq_xH)))))))
| Coq_xd7 ->
  Npos (Coq_xI (Coq_xI (Coq_xI (Coq_xO (Coq_xI (Coq_xO (Coq_xI Coq_xH)))))))
| Coq_xd8 ->
  Npos (Coq_xO (Coq_xO (Coq_xO (Coq_xI (Coq_xI (Coq_xO (Coq_xI Coq_xH)))))))
| Coq_xd9 ->
  Npos (Coq_xI (Coq_xO (Coq_xO (Coq_xI (Coq_xI (Coq_xO (Coq_xI Coq_xH)))))))
| Coq_xda ->
  Npos (Coq_xO (Coq_xI (Coq_xO (Coq_xI (Coq_xI (Coq_xO (Coq_xI Coq_xH)))))))
| Coq_xdb ->
  Npos (Coq_xI (Coq_xI (Coq_xO (Coq_xI (Coq_xI (Coq_xO (Coq_xI Coq_xH)))))))
| Coq_xdc ->
  Npos (Coq_xO (Coq_xO (Coq_xI (Coq_xI (Coq_xI (Coq_xO (Coq_xI Coq_xH)))))))
| Coq_xdd ->
  Npos (Coq_xI (Coq_xO (Coq_xI (Coq_xI (Coq_xI (Coq_xO (Coq_xI Coq_xH)))))))
| Coq_xde ->
  Npos (Coq_xO (Coq_xI (Coq_xI (Coq_xI (Coq_xI (Coq_xO (Coq_xI Coq_xH)))))))
| Coq_xdf ->
  Npos (Coq_xI (Coq_xI (Coq_xI (Coq_xI (Coq_xI (Coq_xO (Coq_xI Coq_xH)))))))
| Coq_xe0 ->
  Npos (Coq_xO (Coq_xO (Coq_xO (Coq_xO (Coq_xO (Coq_xI (Coq_xI Coq_xH)))))))
| Coq_xe1 ->
  Npos (Coq_xI (Coq_xO (Coq_xO (Coq_xO (Coq_xO (Coq_xI (Coq_xI Coq_xH)))))))
| Coq_xe2 ->
  Npos (Coq_xO (Coq_xI (Coq_xO (Coq_xO (Coq_xO (Coq_xI (Coq_xI Coq_xH)))))))
| Coq_xe3 ->
  Npos (Coq_xI (Coq_xI (Coq_xO (Coq_xO (Coq_xO (Coq_xI (Coq_xI Coq_xH)))))))
| Coq_xe4 ->
  Npos (Coq_xO (Coq_xO (Coq_xI (Coq_xO (Coq_xO (Coq_xI (Coq_xI Coq_xH)))))))
| Coq_xe5 ->
  Npos (Coq_xI (Coq_xO (Coq_xI (Coq_xO (Coq_xO (Coq_xI (Coq_xI Coq_xH)))))))
| Coq_xe6 ->
  Npos (Coq_xO (Coq_xI (Coq_xI (Coq_xO (Coq_xO (Coq_xI (Coq_xI Coq_xH)))))))
| Coq_xe7 ->
  Npos (Coq_xI (Coq_xI (Coq_xI (Coq_xO (Coq_xO (Coq_xI (Coq_xI Coq_xH)))))))
| Coq_xe8 ->
  Npos (Coq_xO (Coq_xO (Coq_xO (Coq_xI (Coq_xO (Coq_xI (Coq_xI Coq_xH)))))))
| Coq_xe9 ->
  Npos (Coq_xI (Coq_xO (Coq_xO (Coq_xI (Coq_xO (Coq_xI (Coq_xI Coq_xH)))))))
| Coq_xea ->
  Npos (Coq_xO (Coq_xI (Coq_xO (Coq_xI (Coq_xO (Coq_xI (Coq_xI Coq_xH)))))))
| Coq_xeb ->
  Npos (Coq_xI (Coq_xI (Coq_xO (Coq_xI (Coq_xO (Coq_xI (Coq_xI Coq_xH)))))))
| Coq_xec ->
  Npos (Coq_xO (Coq_xO (Coq_xI (Coq_xI (Coq_xO (Coq_xI (Coq_xI Coq_xH)))))))
| Coq_xed ->
  Npos (Coq_xI (Coq_xO (Coq_xI (Coq_xI (Coq_xO (Coq_xI (Coq_xI Coq_xH)))))))
| Coq_xee ->
  Npos (Coq_xO (Coq_xI (Coq_xI (Coq_xI (Coq_xO (Coq_xI (Coq_xI Coq_xH)))))))
| Coq_xef ->
  Npos (Coq_xI (Coq_xI (Coq_xI (Coq_xI (Coq_xO (Coq_xI (Coq_xI Coq_xH)))))))
| Coq_xf0 ->
  Npos (Coq_xO (Coq_xO (Coq_xO (Coq_xO (Coq_xI (Coq_xI (Coq_xI Coq_xH)))))))
| Coq_xf1 ->
  Npos (Coq_xI (Coq_xO (Coq_xO (Coq_xO (Coq_xI (Coq_xI (Coq_xI Coq_xH)))))))
| Coq_xf2 ->
  Npos (Coq_xO (Coq_xI (Coq_xO (Coq_xO (Coq_xI (Coq_xI (Coq_xI Coq_xH)))))))
| Coq_xf3 ->
  Npos (Coq_xI (Coq_xI (Coq_xO (Coq_xO (Coq_xI (Coq_xI (Coq_xI Coq_xH)))))))
| Coq_xf4 ->
  Npos (Coq_xO (Coq_xO (Coq_xI (Coq_xO (Coq_xI (Coq_xI (Coq_xI Coq_xH)))))))
| Coq_xf5 ->
  Npos (Coq_xI (Coq_xO (Coq_xI (Coq_xO (Coq_xI (Coq_xI (Coq_xI Coq_xH)))))))
| Coq_xf6 ->
  Npos (Coq_xO (Coq_xI (Coq_xI (Coq_xO (Coq_xI (Coq_xI (Coq_xI Coq_xH)))))))
| Coq_xf7 ->
  Npos (Coq_xI (Coq_xI (Coq_xI (Coq_xO (Coq_xI (Coq_xI (Coq_xI Coq_xH)))))))
| Coq_xf8 ->
  Npos (Coq_xO (Coq_xO (Coq_xO (Coq_xI (Coq_xI (Coq_xI (Coq_xI Coq_xH)))))))
| Coq_xf9 ->
  Npos (Coq_xI (Coq_xO (Coq_xO (Coq_xI (Coq_xI (Coq_xI (Coq_xI Coq_xH)))))))
| Coq_xfa ->
  Npos (Coq_xO (Coq_xI (Coq_xO (Coq_xI (Coq_xI (Coq_xI (Coq_xI Coq_xH)))))))
| Coq_xfb ->
  Npos (Coq_xI (Coq_xI (Coq_xO (Coq_xI (Coq_xI (Coq_xI (Coq_xI Coq_xH)))))))
| Coq_xfc ->
  Npos (Coq_xO (Coq_xO (Coq_xI (Coq_xI (Coq_xI (Coq_xI (Coq_xI Coq_xH)))))))
| Coq_xfd ->
  Npos (Coq_xI (Coq_xO (Coq_xI (Coq_xI (Coq_xI (Coq_xI (Coq_xI Coq_xH)))))))
| Coq_xfe ->
  Npos (Coq_xO (Coq_xI (Coq_xI (Coq_xI (Coq_xI (Coq_xI (Coq_xI Coq_xH)))))))
| Coq_xff ->
  Npos (Coq_xI (Coq_xI (Coq_xI (Coq_xI (Coq_xI (Coq_xI (Coq_xI Coq_xH)))))))

(** val of_N : coq_N -> byte option **)

let of_N = function
| N0 -> Some Coq_x00
| Npos p ->
  (match p with
   | Coq_xI p0 ->
     (match p0 with
      | Coq_xI p1 ->
        (match p1 with
         | Coq_xI p2 ->
           (match p2 with
            | Coq_xI p3 ->
              (match p3 with
               | Coq_xI p4 ->
                 (match p4 with
                  | Coq_xI p5 ->
                    (match p5 with
                     | Coq_xI p6 ->
                       (match p6 with
                        | Coq_xH -> Some Coq_xff
                        | _ -> None)
                     | Coq_xO p6 ->
                       (match p6 with
                        | Coq_xH -> Some Coq_xbf
                        | _ -> None)
                     | Coq_xH -> Some Coq_x7f)
                  | Coq_xO p5 ->
                    (match p5 with
                     | Coq_xI p6 ->
                       (match p6 with
                        | Coq_xH -> Some Coq_xdf
                        | _ -> None)
                     | Coq_xO p6 ->
                       (match p6 with
                        | Coq_xH -> Some Coq_x9f
                        | _ -> None)
                     | Coq_xH -> Some Coq_x5f)
                  | Coq_xH -> Some Coq_x3f)
               | Coq_xO p4 ->
                 (match p4 with
                  | Coq_xI p5 ->
                    (match p5 with
                     | Coq_xI p6 ->
                       (match p6 with
                        | Coq_xH -> Some Coq_xef
                        | _ -> None)
                     | Coq_xO p6 ->
                       (match p6 with
                        | Coq_xH -> Some Coq_xaf
                        | _ -> None)
                     | Coq_xH -> Some Coq_x6f)
                  | Coq_xO p5 ->
                    (match p5 with
                     | Coq_xI p6 ->
                       (match p6 with
                        | Coq_xH -> Some Coq_xcf
                        | _ -> None)
                     | Coq_xO p6 ->
                       (match p6 with
                        | Coq_xH -> Some Coq_x8f
                        | _ -> None)
                     | Coq_xH -> Some Coq_x4f)
                  | Coq_xH -> Some Coq_x2f)
               | Coq_xH -> Some Coq_x1f)
            | Coq_xO p3 ->
              (match p3 with
               | Coq_xI p4 ->
                 (match p4 with
                  | Coq_xI p5 ->
                    (match p5 with
                     | Coq_xI p6 ->
                       (match p6 with
                        | Coq_xH -> Some Coq_xf7
                        | _ -> None)
                     | Coq_xO p6 ->
                       (match p6 with
                        | Coq_xH -> Some Coq_xb7
                        | _ -> None)
                     | Coq_xH -> Some Coq_x77)
                  | Coq_xO p5 ->
                    (match p5 with
                     | Coq_xI p6 ->
                       (match p6 with
                        | Coq_xH -> Some Coq_xd7
                        | _ -> None)
                     | Coq_xO p6 ->
                       (match p6 with
                        | Coq_xH -> Some Coq_x97
                        | _ -> None)
                     | Coq_xH -> Some Coq_x57)
                  | Coq_xH -> Some Coq_x37)
               | Coq_xO p4 ->
                 (match p4 with
                  | Coq_xI p5 ->
                    (match p5 with
                     | Coq_xI p6 ->
                       (match p6 with
                        | Coq_xH -> Some Coq_xe7
                        | _ -> None)
                     | Coq_xO p6 ->
                       (match p6 with
                        | Coq_xH -> Some Coq_xa7
                        | _ -> None)
                     | Coq_xH -> Some Coq_x67)
                  | Coq_xO p5 ->
                    (match p5 with
                     | Coq_xI p6 ->
                       (match p6 with
                        | Coq_xH -> Some Coq_xc7
                        | _ -> None)
                     | Coq_xO p6 ->
                       (match p6 with
                        | Coq_xH -> Some Coq_x87
                        | _ -> None)
                     | Coq_xH -> Some Coq_x47)
                  | Coq_xH -> Some Coq_x27)
               | Coq_xH -> Some Coq_x17)
            | Coq_xH -> Some Coq_x0f)
         | Coq_xO p2 ->
           (match p2 with
            | Coq_xI p3 ->
              (match p3 with
               | Coq_xI p4 ->
                 (match p4 with
                  | Coq_xI p5 ->
                    (match p5 with
                     | Coq_xI p6 ->
                       (match p6 with
                        | Coq_xH -> Some Coq_xfb
                        | _ -> None)
                     | Coq_xO p6 ->
                       (match p6 with
                        | Coq_xH -> Some Coq_xbb
                        | _ -> None)
                     | Coq_xH -> Some Coq_x7b)
                  | Coq_xO p5 ->
                    (match p5 with
                     | Coq_xI p6 ->
                       (match p6 with
                        | Coq_xH -> Some Coq_xdb
                        | _ -> None)
                     | Coq_xO p6 ->
                       (match p6 with
                        | Coq_xH -> Some Coq_x9b
                        | _ -> None)
                     | Coq_xH -> Some Coq_x5b)
                  | Coq_xH -> Some Coq_x3b)
               | Coq_xO p4 ->
                 (match p4 with
                  | Coq_xI p5 ->
                    (match p5 with
                     | Coq_xI p6 ->
                       (match p6 with
                        | Coq_xH -> Some Coq_xeb
                        | _ -> None)
                     | Coq_xO p6 ->
                       (match p6 with
                        | Coq_xH -> Some Coq_xab
                        | _ -> None)
                     | Coq_xH -> Some Coq_x6b)
                  | Coq_xO p5 ->
                    (match p5 with
                     | Coq_xI p6 ->
                       (match p6 with
                        | Coq_xH -> Some Coq_xcb
                        | _ -> None)
                     | Coq_xO p6 ->
                       (match p6 with
                        | Coq_xH -> Some Coq_x8b
                        | _ -> None)
                     | Coq_xH -> Some Coq_x4b)
                  | Coq_xH -> Some Coq_x2b)
               | Coq_xH -> Some Coq_x1b)
            | Coq_xO p3 ->
              (match p3 with
               | Coq_xI p4 ->
                 (match p4 with
                  | Coq_xI p5 ->
                    (match p5 with
                     | Coq_xI p6 ->
                       (match p6 with
                        | Coq_xH -> Some Coq_xf3
                        | _ -> None)
                     | Coq_xO p6 ->
                       (match p6 with
                        | Coq_xH -> Some Coq_xb3
                        | _ -> None)
                     | Coq_xH -> Some Coq_x73)
                  | Coq_xO p5 ->
                    (match p5 with
                     | Coq_xI p6 ->
                       (match p6 with
                        | Coq_xH -> Some Coq_xd3
                        | _ -> None)
                     | Coq_xO p6 ->
                       (match p6 with
                        | Coq_xH -> Some Coq_x93
                        | _ -> None)
                     | Coq_xH -> Some Coq_x53)
                  | Coq_xH -> Some Coq_x33)
               | Coq_xO p4 ->
                 (match p4 with
                  | Coq_xI p5 ->
                    (match p5 with
                     | Coq_xI p6 ->
                       (match p6 with
                        | Coq_xH -> Some Coq_xe3
                        | _ -> None)
                     | Coq_xO p6 ->
                       (match p6 with
                        | Coq_xH -> Some Coq_xa3
                        | _ -> None)
                     | Coq_xH -> Some Coq_x63)
                  | Coq_xO p5 ->
                    (match p5 with
                     | Coq_xI p6 ->
                       (match p6 with
                        | Coq_xH -> Some Coq_xc3
                        | _ -> None)
                     | Coq_xO p6 ->
                       (match p6 with
                        | Coq_xH -> Some Coq_x83
                        | _ -> None)
                     | Coq_xH -> Some Coq_x43)
                  | Coq_xH -> Some Coq_x23)
               | Coq_xH -> Some Coq_x13)
            | Coq_xH -> Some Coq_x0b)
         | Coq_xH -> Some Coq_x07)
      | Coq_xO p1 ->
        (match p1 with
         | Coq_xI p2 ->
           (match p2 with
            | Coq_xI p3 ->
              (match p3 with
               | Coq_xI p4 ->
                 (match p4 with
                  | Coq_xI p5 ->
                    (match p5 with
                     | Coq_xI p6 ->
                       (match p6 with
                        | Coq_xH -> Some Coq_xfd
                        | _ -> None)
                     | Coq_xO p6 ->
                       (match p6 with
                        | Coq_xH -> Some Coq_xbd
                        | _ -> None)
                     | Coq_xH -> Some Coq_x7d)
                  | Coq_xO p5 ->
                    (match p5 with
                     | Coq_xI p6 ->
                       (match p6 with
                        | Coq_xH -> Some Coq_xdd
                        | _ -> None)
                     | Coq_xO p6 ->
                       (match p6 with
                        | Coq_xH -> Some Coq_x9d
                        | _ -> None)
                     | Coq_xH -> Some Coq_x5d)
                  | Coq_xH -> Some Coq_x3d)
               | Coq_xO p4 ->
                 (match p4 with
                  | Coq_xI p5 ->
                    (match p5 with
                     | Coq_xI p6 ->
                       (match p6 with
                        | Coq_xH -> Some Coq_xed
                        | _ -> None)
                     | Coq_xO p6 ->
                       (match p6 with
                        | Coq_xH -> Some Coq_xad
                        | _ -> None)
                     | Coq_xH -> Some Coq_x6d)
                  | Coq_xO p5 ->
                    (match p5 with
                     | Coq_xI p6 ->
                       (match p6 with
                        | Coq_xH -> Some Coq_xcd
                        | _ -> None)
                     | Coq_xO p6 ->
                       (match p6 with
                        | Coq_xH -> Some Coq_x8d
                        | _ -> None)
                     | Coq_xH -> Some Coq_x4d)
                  | Coq_xH -> Some Coq_x2d)
               | Coq_xH -> Some Coq_x1d)
            | Coq_xO p3 ->
              (match p3 with
               | Coq_xI p4 ->
                 (match p4 with
                  | Coq_xI p5 ->
                    (match p5 with
                     | Coq_xI p6 ->
                       (match p6 with
                        | Coq_xH -> Some Coq_xf5
                        | _ -> None)
                     | Coq_xO p6 ->
                       (match p6 with
                        | Coq_xH -> Some Coq_xb5
                        | _ -> None)
                     | Coq_xH -> Some Coq_x75)
                  | Coq_xO p5 ->
                    (match p5 with
                     | Coq_xI p6 ->
                       (match p6 with
                        | Coq_xH -> Some Coq_xd5
                        | _ -> None)
                     | Coq_xO p6 ->
                       (match p6 with
                        | Coq_xH -> Some Coq_x95
                        | _ -> None)
                     | Coq_xH -> Some Coq_x55)
                  | Coq_xH -> Some Coq_x35)
               | Coq_xO p4 ->
                 (match p4 with
                  | Coq_xI p5 ->
                    (match p5 with
                     | Coq_xI p6 ->
                       (match p6 with
                        | Coq_xH -> Some Coq_xe5
                        | _ -> None)
                     | Coq_xO p6 ->
                       (match p6 with
                        | Coq_xH -> Some Coq_xa5
                        | _ -> None)
                     | Coq_xH -> Some Coq_x65)
                  | Coq_xO p5 ->
                    (match p5 with
                     | Coq_xI p6 ->
                       (match p6 with
                        | Coq_xH -> Some Coq_xc5
                        | _ -> None)
                     | Coq_xO p6 ->
                       (match p6 with
                        | Coq_xH -> Some Coq_x85
                        | _ -> None)
                     | Coq_xH -> Some Coq_x45)
                  | Coq_xH -> Some Coq_x25)
               | Coq_xH -> Some Coq_x15)
            | Coq_xH -> Some Coq_x0d)
         | Coq_xO p2 ->
           (match p2 with
            | Coq_xI p3 ->
              (match p3 with
               | Coq_xI p4 ->
                 (match p4 with
                  | Coq_xI p5 ->
                    (match p5 with
                     | Coq_xI p6 ->
                       (match p6 with
                        | Coq_xH -> Some Coq_xf9
                        | _ -> None)
                     | Coq_xO p6 ->
                       (match p6 with
                        | Coq_xH -> Some Coq_xb9
                        | _ -> None)
                     | Coq_xH -> Some Coq_x79)
                  | Coq_xO p5 ->
                    (match p5 with
                     | Coq_xI p6 ->
                       (match p6 with
                        | Coq_xH -> Some Coq_xd9
                        | _ -> None)
                     | Coq_xO p6 ->
                       (match p6 with
                        | Coq_xH -> Some Coq_x99
                        | _ -> None)
                     | Coq_xH -> Some Coq_x59)
                  | Coq_xH -> Some Coq_x39)
               | Coq_xO p4 ->
                 (match p4 with
                  | Coq_xI p5 ->
                    (match p5 with
                     | Coq_xI p6 ->
                       (match p6 with
                        | Coq_xH -> Some Coq_xe9
                        | _ -> None)
                     | Coq_xO p6 ->
                       (match p6 with
                        | Coq_xH -> Some Coq_xa9
                        | _ -> None)
                     | Coq_xH -> Some Coq_x69)
                  | Coq_xO p5 ->
                    (match p5 with
                     | Coq_xI p6 ->
                       (match p6 with
                        | Coq_xH -> Some Coq_xc9
                        | _ -> None)
                     | Coq_xO p6 ->
                       (match p6 with
                        | Coq_xH -> Some Coq_x89
                        | _ -> None)
                     | Coq_xH -> Some Coq_x49)
                  | Coq_xH -> Some Coq_x29)
               | Coq_xH -> Some Coq_x19)
            | Coq_xO p3 ->
              (match p3 with
               | Coq_xI p4 ->
                 (match p4 with
                  | Coq_xI p5 ->
                    (match p5 with
                     | Coq_xI p6 ->
                       (match p6 with
                        | Coq_xH -> Some Coq_xf1
                        | _ -> None)
                     | Coq_xO p6 ->
                       (match p6 with
                        | Coq_xH -> Some Coq_xb1
                        | _ -> None)
                     | Coq_xH -> Some Coq_x71)
                  | Coq_xO p5 ->
                    (match p5 with
                     | Coq_xI p6 ->
                       (match p6 with
                        | Coq_xH -> Some Coq_xd1
                        | _ -> None)
                     | Coq_xO p6 ->
                       (match p6 with
                        | Coq_xH -> Some Coq_x91
                        | _ -> None)
                     | Coq_xH -> Some Coq_x51)
                  | Coq_xH -> Some Coq_x31)
               | Coq_xO p4 ->
                 (match p4 with
                  | Coq_xI p5 ->
                    (match p5 with
                     | Coq_xI p6 ->
                       (match p6 with
                        | Coq_xH -> Some Coq_xe1
                        | _ -> None)
                     | Coq_xO p6 ->
                       (match p6 with
                        | Coq_xH -> Some Coq_xa1
                        | _ -> None)
                     | Coq_xH -> Some Coq_x61)
                  | Coq_xO p5 ->
                    (match p5 with
                     | Coq_xI p6 ->
                       (match p6 with
                        | Coq_xH -> Some Coq_xc1
                        | _ -> None)
                     | Coq_xO p6 ->
                       (match p6 with
                        | Coq_xH -> Some Coq_x81
                        | _ -> None)
                     | Coq_xH -> Some Coq_x41)
                  | Coq_xH -> Some Coq_x21)
               | Coq_xH -> Some Coq_x11)
            | Coq_xH -> Some Coq_x09)
         | Coq_xH -> Some Coq_x05)
      | Coq_xH -> Some Coq_x03)
   | Coq_xO p0 ->
     (match p0 with
      | Coq_xI p1 ->
        (match p1 with
         | Coq_xI p2 ->
           (match p2 with
            | Coq_xI p3 ->
              (match p3 with
               | Coq_xI p4 ->
                 (match p4 with
                  | Coq_xI p5 ->
                    (match p5 with
                     | Coq_xI p6 ->
                       (match p6 with
                        | Coq_xH -> Some Coq_xfe
                        | _ -> None)
                     | Coq_xO p6 ->
                       (match p6 with
                        | Coq_xH -> Some Coq_xbe
                        | _ -> None)
                     | Coq_xH -> Some Coq_x7e)
                  | Coq_xO p5 ->
                    (match p5 with
                     | Coq_xI p6 ->
                       (match p6 with
                        | Coq_xH -> Some Coq_xde
                        | _ -> None)
                     | Coq_xO p6 ->
                       (match p6 with
                        | Coq_xH -> Some Coq_x9e
                        | _ -> None)
                     | Coq_xH -> Some Coq_x5e)
                  | Coq_xH -> Some Coq_x3e)
               | Coq_xO p4 ->
                 (match p4 with
                  | Coq_xI p5 ->
                    (match p5 with
                     | Coq_xI p6 ->
                       (match p6 with
                        | Coq_xH -> Some Coq_xee
                        | _ -> None)
                     | Coq_xO p6 ->
                       (match p6 with
                        | Coq_xH -> Some Coq_xae
                        | _ -> None)
                     | Coq_xH -> Some Coq_x6e)
                  | Coq_xO p5 ->
                    (match p5 with
                     | Coq_xI p6 ->
                       (match p6 with
                        | Coq_xH -> Some Coq_xce
                        | _ -> None)
                     | Coq_xO p6 ->
                       (match p6 with
                        | Coq_xH -> Some Coq_x8e
                        | _ -> None)
                     | Coq_xH -> Some Coq_x4e)
                  | Coq_xH -> Some Coq_x2e)
               | Coq_xH -> Some Coq_x1e)
            | Coq_xO p3 ->
              (match p3 with
               | Coq_xI p4 ->
                 (match p4 with
                  | Coq_xI p5 ->
                    (match p5 with
                     | Coq_xI p6 ->
                       (match p6 with
                        | Coq_xH -> Some Coq_xf6
                        | _ -> None)
                     | Coq_xO p6 ->
                       (match p6 with
                        | Coq_xH -> Some Coq_xb6
                        | _ -> None)
                     | Coq_xH -> Some Coq_x76)
                  | Coq_xO p5 ->
                    (match p5 with
                     | Coq_xI p6 ->
                       (match p6 with
                        | Coq_xH -> Some Coq_xd6
                        | _ -> None)
                     | Coq_xO p6 ->
                       (match p6 with
                        | Coq_xH -> Some Coq_x96
                        | _ -> None)
                     | Coq_xH -> Some Coq_x56)
                  | Coq_xH -> Some Coq_x36)
               | Coq_xO p4 ->
                 (match p4 with
                  | Coq_xI p5 ->
                    (match p5 with
                     | Coq_xI p6 ->
                       (match p6 with
                        | Coq_xH -> Some Coq_xe6
                        | _ -> None)
                     | Coq_xO p6 ->
                       (match p6 with
                        | Coq_xH -> Some Coq_xa6
                        | _ -> None)
                     | Coq_xH -> Some Coq_x66)
                  | Coq_xO p5 ->
                    (match p5 with
                     | Coq_xI p6 ->
                       (match p6 with
                        | Coq_xH -> Some Coq_xc6
                        | _ -> None)
                     | Coq_xO p6 ->
                       (match p6 with
                        | Coq_xH -> Some Coq_x86
                        | _ -> None)
                     | Coq_xH -> Some Coq_x46)
                  | Coq_xH -> Some Coq_x26)
               | Coq_xH -> Some Coq_x16)
            | Coq_xH -> Some Coq_x0e)
         | Coq_xO p2 ->
           (match p2 with
            | Coq_xI p3 ->
              (match p3 with
               | Coq_xI p4 ->
                 (match p4 with
                  | Coq_xI p5 ->
                    (match p5 with
                     | Coq_xI p6 ->
                       (match p6 with
                        | Coq_xH -> Some Coq_xfa
                        | _ -> None)
                     | Coq_xO p6 ->
                       (match p6 with
                        | Coq_xH -> Some Coq_xba
                        | _ -> None)
                     | Coq_xH -> Some Coq_x7a)
                  | Coq_xO p5 ->
                    (match p5 with
                     | Coq_xI p6 ->
                       (match p6 with
                        | Coq_xH -> Some Coq_xda
                        | _ -> None)
                     | Coq_xO p6 ->
                       (match p6 with
                        | Coq_xH -> Some Coq_x9a
                        | _ -> None)
                     | Coq_xH -> Some Coq_x5a)
                  | Coq_xH -> Some Coq_x3a)
               | Coq_xO p4 ->
                 (match p4 with
                  | Coq_xI p5 ->
                    (match p5 with
                     | Coq_xI p6 ->
                       (match p6 with
                        | Coq_xH -> Some Coq_xea
                        | _ -> None)
                     | Coq_xO p6 ->
                       (match p6 with
                        | Coq_xH -> Some Coq_xaa
                        | _ -> None)
                     | Coq_xH -> Some Coq_x6a)
                  | Coq_xO p5 ->
                    (match p5 with
                     | Coq_xI p6 ->
                       (match p6 with
                        | Coq_xH -> Some Coq_xca
                        | _ -> None)
                     | Coq_xO p6 ->
                       (match p6 with
                        | Coq_xH -> Some Coq_x8a
                        | _ -> None)
                     | Coq_xH -> Some Coq_x4a)
                  | Coq_xH -> Some Coq_x2a)
               | Coq_xH -> Some Coq_x1a)
            | Coq_xO p3 ->
              (match p3 with
               | Coq_xI p4 ->
                 (match p4 with
                  | Coq_xI p5 ->
                    (match p5 with
                     | Coq_xI p6 ->
                       (match p6 with
                        | Coq_xH -> Some Coq_xf2
                        | _ -> None)
                     | Coq_xO p6 ->
                       (match p6 with
                        | Coq_xH -> Some Coq_xb2
                        | _ -> None)
                     | Coq_xH -> Some Coq_x72)
                  | Coq_xO p5 ->
                    (match p5 with
                     | Coq_xI p6 ->
                       (match p6 with
                        | Coq_xH -> Some Coq_xd2
                        | _ -> None)
                     | Coq_xO p6 ->
                       (match p6 with
                        | Coq_xH -> Some Coq_x92
                        | _ -> None)
                     | Coq_xH -> Some Coq_x52)
                  | Coq_xH -> Some Coq_x32)
               | Coq_xO p4 ->
                 (match p4 with
                  | Coq_xI p5 ->
                    (match p5 with
                     | Coq_xI p6 ->
                       (match p6 with
                        | Coq_xH -> Some Coq_xe2
                        | _ -> None)
                     | Coq_xO p6 ->
                       (match p6 with
                        | Coq_xH -> Some Coq_xa2
                        | _ -> None)
                     | Coq_xH -> Some Coq_x62)
                  | Coq_xO p5 ->
                    (match p5 with
                     | Coq_xI p6 ->
                       (match p6 with
                        | Coq_xH -> Some Coq_xc2
                        | _ -> None)
                     | Coq_xO p6 ->
                       (match p6 with
                        | Coq_xH -> Some Coq_x82
                        | _ -> None)
                     | Coq_xH -> Some Coq_x42)
                  | Coq_xH -> Some Coq_x22)
               | Coq_xH -> Some Coq_x12)
            | Coq_xH -> Some Coq_x0a)
         | Coq_xH -> Some Coq_x06)
      | Coq_xO p1 ->
        (match p1 with
         | Coq_xI p2 ->
           (match p2 with
            | Coq_xI p3 ->
              (match p3 with
               | Coq_xI p4 ->
                 (match p4 with
                  | Coq_xI p5 ->
                    (match p5 with
                     | Coq_xI p6 ->
                       (match p6 with
                        | Coq_xH -> Some Coq_xfc
                        | _ -> None)
                     | Coq_xO p6 ->
                       (match p6 with
                        | Coq_xH -> Some Coq_xbc
                        | _ -> None)
                     | Coq_xH -> Some Coq_x7c)
                  | Coq_xO p5 ->
                    (match p5 with
                     | Coq_xI p6 ->
                       (match p6 with
                        | Coq_xH -> Some Coq_xdc
                        | _ -> None)
                     | Coq_xO p6 ->
                       (match p6 with
                        | Coq_xH -> Some Coq_x9c
                        | _ -> None)
                     | Coq_xH -> Some Coq_x5c)
                  | Coq_xH -> Some Coq_x3c)
               | Coq_xO p4 ->
                 (match p4 with
                  | Coq_xI p5 ->
                    (match p5 with
                     | Coq_xI p6 ->
                       (match p6 with
                        | Coq_xH -> Some Coq_xec
                        | _ -> None)
                     | Coq_xO p6 ->
                       (match p6 with
                        | Coq_xH -> Some Coq_xac
                        | _ -> None)
                     | Coq_xH -> Some Coq_x6c)
                  | Coq_xO p5 ->
                    (match p5 with
                     | Coq_xI p6 ->
                       (match p6 with
                        | Coq_xH -> Some Coq_xcc
                        | _ -> None)
                     | Coq_xO p6 ->
                       (match p6 with
                        | Coq_xH -> Some Coq_x8c
                        | _ -> None)
                     | Coq_xH -> Some Coq_x4c)
                  | Coq_xH -> Some Coq_x2c)
               | Coq_xH -> Some Coq_x1c)
            | Coq_xO p3 ->
              (match p3 with
               | Coq_xI p4 ->
                 (match p4 with
                  | Coq_xI p5 ->
                    (match p5 with
                     | Coq_xI p6 ->
                       (match p6 with
                        | Coq_xH -> Some Coq_xf4
                        | _ -> None)
                     | Coq_xO p6 ->
                       (match p6 with
                        | Coq_xH -> Some Coq_xb4
                        | _ -> None)
                     | Coq_xH -> Some Coq_x74)
                  | Coq_xO p5 ->
                    (match p5 with
                     | Coq_xI p6 ->
                       (match p6 with
                        | Coq_xH -> Some Coq_xd4
                        | _ -> None)
                     | Coq_xO p6 ->
                       (match p6 with
                        | Coq_xH -> Some Coq_x94
                        | _ -> None)
                     | Coq_xH -> Some Coq_x54)
                  | Coq_xH -> Some Coq_x34)
               | Coq_xO p4 ->
                 (match p4 with
                  | Coq_xI p5 ->
                    (match p5 with
                     | Coq_xI p6 ->
                       (match p6 with
                        | Coq_xH -> Some Coq_xe4
                        | _ -> None)
                     | Coq_xO p6 ->
                       (match p6 with
                        | Coq_xH -> Some Coq_xa4
                        | _ -> None)
                     | Coq_xH -> Some Coq_x64)
                  | Coq_xO p5 ->
                    (match p5 with
                     | Coq_xI p6 ->
                       (match p6 with
                        | Coq_xH -> Some Coq_xc4
                        | _ -> None)
                     | Coq_xO p6 ->
                       (match p6 with
                        | Coq_xH -> Some Coq_x84
                        | _ -> None)
                     | Coq_xH -> Some Coq_x44)
                  | Coq_xH -> Some Coq_x24)
               | Coq_xH -> Some Coq_x14)
            | Coq_xH -> Some Coq_x0c)
         | Coq_xO p2 ->
           (match p2 with
            | Coq_xI p3 ->
              (match p3 with
               | Coq_xI p4 ->
                 (match p4 with
                  | Coq_xI p5 ->
                    (match p5 with
                     | Coq_xI p6 ->
                       (match p6 with
                        | Coq_xH -> Some Coq_xf8
                        | _ -> None)
                     | Coq_xO p6 ->
                       (match p6 with
                        | Coq_xH -> Some Coq_xb8
                        | _ -> None)
                     | Coq_xH -> Some Coq_x78)
                  | Coq_xO p5 ->
                    (match p5 with
                     | Coq_xI p6 ->
                       (match p6 with
                        | Coq_xH -> Some Coq_xd8
                        | _ -> None)
                     | Coq_xO p6 ->
                       (match p6 with
                        | Coq_xH -> Some Coq_x98
                        | _ -> None)
                     | Coq_xH -> Some Coq_x58)
                  | Coq_xH -> Some Coq_x38)
               | Coq_xO p4 ->
                 (match p4 with
                  | Coq_xI p5 ->
                    (match p5 with
                     | Coq_xI p6 ->
                       (match p6 with
                        | Coq_xH -> Some Coq_xe8
                        | _ -> None)
                     | Coq_xO p6 ->
                       (match p6 with
                        | Coq_xH -> Some Coq_xa8
                        | _ -> None)
                     | Coq_xH -> Some Coq_x68)
                  | Coq_xO p5 ->
                    (match p5 with
                     | Coq_xI p6 ->
                       (match p6 with
                        | Coq_xH -> Some Coq_xc8
                        | _ -> None)
                     | Coq_xO p6 ->
                       (match p6 with
                        | Coq_xH -> Some Coq_x88
                        | _ -> None)
                     | Coq_xH -> Some Coq_x48)
                  | Coq_xH -> Some Coq_x28)
               | Coq_xH -> Some Coq_x18)
            | Coq_xO p3 ->
              (match p3 with
               | Coq_xI p4 ->
                 (match p4 with
                  | Coq_xI p5 ->
                    (match p5 with
                     | Coq_xI p6 ->
                       (match p6 with
                        | Coq_xH -> Some Coq_xf0
                        | _ -> None)
                     | Coq_xO p6 ->
                       (match p6 with
                        | Coq_xH -> Some Coq_xb0
                        | _ -> None)
                     | Coq_xH -> Some Coq_x70)
                  | Coq_xO p5 ->
                    (match p5 with
                     | Coq_xI p6 ->
                       (match p6 with
                        | Coq_xH -> Some Coq_xd0
                        | _ -> None)
                     | Coq_xO p6 ->
                       (match p6 with
                        | Coq_xH -> Some Coq_x90
                        | _ -> None)
                     | Coq_xH -> Some Coq_x50)
                  | Coq_xH -> Some Coq_x30)
               | Coq_xO p4 ->
                 (match p4 with
                  | Coq_xI p5 ->
                    (match p5 with
                     | Coq_xI p6 ->
                       (match p6 with
                        | Coq_xH -> Some Coq_xe0
                        | _ -> None)
                     | Coq_xO p6 ->
                       (match p6 with
                        | Coq_xH -> Some Coq_xa0
                        | _ -> None)
                     | Coq_xH -> Some Coq_x60)
                  | Coq_xO p5 ->
                    (match p5 with
                     | Coq_xI p6 ->
                       (match p6 with
                        | Coq_xH -> Some Coq_xc0
                        | _ -> None)
                     | Coq_xO p6 ->
                       (match p6 with
                        | Coq_xH -> Some Coq_x80
                        | _ -> None)
                     | Coq_xH -> Some Coq_x40)
                  | Coq_xH -> Some Coq_x20)
               | Coq_xH -> Some Coq_x10)
            | Coq_xH -> Some Coq_x08)
         | Coq_xH -> Some Coq_x04)
      | Coq_xH -> Some Coq_x02)
   | Coq_xH -> Some Coq_x01)
