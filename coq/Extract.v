(* Extraction of the executable model: ExtrOcamlBasic only, no Extract Constant. *)
From Coq Require Extraction.
From Coq Require Import ExtrOcamlBasic.
From Coset.Model Require Import Dispatch.
Extraction Language OCaml.
Separate Extraction run_case.
