open Ascii
open BinNums
open Cbor
open Datatypes
open Iana
open Label
open List
open Msg
open Prelude
open String

type timestamp =
| WholeSeconds of coq_Z
| FractionalSeconds of coq_N

(** val coq_Timestamp_from_value : value -> timestamp res **)

let coq_Timestamp_from_value = function
| VInt i -> bind (to_i64_res i) (fun z -> Ok (WholeSeconds z))
| VFloat f -> Ok (FractionalSeconds f)
| _ -> Err EUnexpected

(** val coq_Timestamp_to_value : timestamp -> value **)

let coq_Timestamp_to_value = function
| WholeSeconds z -> VInt z
| FractionalSeconds f -> VFloat f

type claims = { c_iss : bytes option; c_sub : bytes option;
                c_aud : bytes option; c_exp : timestamp option;
                c_nbf : timestamp option; c_iat : timestamp option;
                c_cti : bytes option; c_rest : (regp_label * value) list }

(** val claims_default : claims **)

let claims_default =
  { c_iss = None; c_sub = None; c_aud = None; c_exp = None; c_nbf = None;
    c_iat = None; c_cti = None; c_rest = [] }

(** val is_claim : regp_label -> coq_Z -> bool **)

let is_claim n c =
  regp_eqb n (PAssigned c)

(** val claims_step : claims -> regp_label -> value -> claims res **)

let claims_step c n x =
  if is_claim n coq_C_ISS
  then bind (try_as_string x) (fun t -> Ok { c_iss = (Some t); c_sub =
         c.c_sub; c_aud = c.c_aud; c_exp = c.c_exp; c_nbf = c.c_nbf; c_iat =
         c.c_iat; c_cti = c.c_cti; c_rest = c.c_rest })
  else if is_claim n coq_C_SUB
       then bind (try_as_string x) (fun t -> Ok { c_iss = c.c_iss; c_sub =
              (Some t); c_aud = c.c_aud; c_exp = c.c_exp; c_nbf = c.c_nbf;
              c_iat = c.c_iat; c_cti = c.c_cti; c_rest = c.c_rest })
       else if is_claim n coq_C_AUD
            then bind (try_as_string x) (fun t -> Ok { c_iss = c.c_iss;
                   c_sub = c.c_sub; c_aud = (Some t); c_exp = c.c_exp;
                   c_nbf = c.c_nbf; c_iat = c.c_iat; c_cti = c.c_cti;
                   c_rest = c.c_rest })
            else if is_claim n coq_C_EXP
                 then bind (coq_Timestamp_from_value x) (fun t -> Ok
                        { c_iss = c.c_iss; c_sub = c.c_sub; c_aud = c.c_aud;
                        c_exp = (Some t); c_nbf = c.c_nbf; c_iat = c.c_iat;
                        c_cti = c.c_cti; c_rest = c.c_rest })
                 else if is_claim n coq_C_NBF
                      then bind (coq_Timestamp_from_value x) (fun t -> Ok
                             { c_iss = c.c_iss; c_sub = c.c_sub; c_aud =
                             c.c_aud; c_exp = c.c_exp; c_nbf = (Some t);
                             c_iat = c.c_iat; c_cti = c.c_cti; c_rest =
                             c.c_rest })
                      else if is_claim n coq_C_IAT
                           then bind (coq_Timestamp_from_value x) (fun t ->
                                  Ok { c_iss = c.c_iss; c_sub = c.c_sub;
                                  c_aud = c.c_aud; c_exp = c.c_exp; c_nbf =
                                  c.c_nbf; c_iat = (Some t); c_cti = c.c_cti;
                                  c_rest = c.c_rest })
                           else if is_claim n coq_C_CTI
                                then bind (try_as_bytes x) (fun b -> Ok
                                       { c_iss = c.c_iss; c_sub = c.c_sub;
                                       c_aud = c.c_aud; c_exp = c.c_exp;
                                       c_nbf = c.c_nbf; c_iat = c.c_iat;
                                       c_cti = (Some b); c_rest = c.c_rest })
                                else Ok { c_iss = c.c_iss; c_sub = c.c_sub;
                                       c_aud = c.c_aud; c_exp = c.c_exp;
                                       c_nbf = c.c_nbf; c_iat = c.c_iat;
                                       c_cti = c.c_cti; c_rest =
                                       (app c.c_rest ((n, x) :: [])) }

(** val claims_loop :
    (value * value) list -> claims -> regp_label list -> claims res **)

let rec claims_loop m c seen =
  match m with
  | [] -> Ok c
  | p :: m' ->
    let (k, x) = p in
    bind
      (regp_from_value (String ((Ascii (true, true, false, false, false,
        false, true, false)), (String ((Ascii (true, true, true, false, true,
        true, true, false)), (String ((Ascii (false, false, true, false,
        true, true, true, false)), (String ((Ascii (true, true, false, false,
        false, false, true, false)), (String ((Ascii (false, false, true,
        true, false, true, true, false)), (String ((Ascii (true, false,
        false, false, false, true, true, false)), (String ((Ascii (true,
        false, false, true, false, true, true, false)), (String ((Ascii
        (true, false, true, true, false, true, true, false)), (String ((Ascii
        (false, true, true, true, false, false, true, false)), (String
        ((Ascii (true, false, false, false, false, true, true, false)),
        (String ((Ascii (true, false, true, true, false, true, true, false)),
        (String ((Ascii (true, false, true, false, false, true, true,
        false)), EmptyString)))))))))))))))))))))))) k) (fun n ->
      if regp_mem n seen
      then Err EDup
      else bind (claims_step c n x) (fun c' -> claims_loop m' c' (n :: seen)))

(** val coq_ClaimsSet_from_value : value -> claims res **)

let coq_ClaimsSet_from_value = function
| VMap m -> claims_loop m claims_default []
| _ -> Err EUnexpected

(** val coq_ClaimsSet_to_value : claims -> value res **)

let coq_ClaimsSet_to_value c =
  Ok (VMap
    (app (opt_entry coq_C_ISS c.c_iss (fun x -> VText x))
      (app (opt_entry coq_C_SUB c.c_sub (fun x -> VText x))
        (app (opt_entry coq_C_AUD c.c_aud (fun x -> VText x))
          (app (opt_entry coq_C_EXP c.c_exp coq_Timestamp_to_value)
            (app (opt_entry coq_C_NBF c.c_nbf coq_Timestamp_to_value)
              (app (opt_entry coq_C_IAT c.c_iat coq_Timestamp_to_value)
                (app (opt_entry coq_C_CTI c.c_cti (fun x -> VBytes x))
                  (map (fun nv -> ((regp_to_value (fst nv)), (snd nv)))
                    c.c_rest)))))))))
