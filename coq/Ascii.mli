open Bool
open Byte

type ascii =
| Ascii of bool * bool * bool * bool * bool * bool * bool * bool

val ascii_dec : ascii -> ascii -> bool

val eqb : ascii -> ascii -> bool

val ascii_of_byte : byte -> ascii

val byte_of_ascii : ascii -> byte
