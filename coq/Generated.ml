open Ascii
open BinNums
open Datatypes
open String

(** val coq_HeaderParameter_table : (string * coq_Z) list **)

let coq_HeaderParameter_table =
  ((String ((Ascii (false, true, false, false, true, false, true, false)),
    (String ((Ascii (true, false, true, false, false, true, true, false)),
    (String ((Ascii (true, true, false, false, true, true, true, false)),
    (String ((Ascii (true, false, true, false, false, true, true, false)),
    (String ((Ascii (false, true, false, false, true, true, true, false)),
    (String ((Ascii (false, true, true, false, true, true, true, false)),
    (String ((Ascii (true, false, true, false, false, true, true, false)),
    (String ((Ascii (false, false, true, false, false, true, true, false)),
    EmptyString)))))))))))))))), Z0) :: (((String ((Ascii (true, false,
    false, false, false, false, true, false)), (String ((Ascii (false, false,
    true, true, false, true, true, false)), (String ((Ascii (true, true,
    true, false, false, true, true, false)), EmptyString)))))), (Zpos
    Coq_xH)) :: (((String ((Ascii (true, true, false, false, false, false,
    true, false)), (String ((Ascii (false, true, false, false, true, true,
    true, false)), (String ((Ascii (true, false, false, true, false, true,
    true, false)), (String ((Ascii (false, false, true, false, true, true,
    true, false)), EmptyString)))))))), (Zpos (Coq_xO Coq_xH))) :: (((String
    ((Ascii (true, true, false, false, false, false, true, false)), (String
    ((Ascii (true, true, true, true, false, true, true, false)), (String
    ((Ascii (false, true, true, true, false, true, true, false)), (String
    ((Ascii (false, false, true, false, true, true, true, false)), (String
    ((Ascii (true, false, true, false, false, true, true, false)), (String
    ((Ascii (false, true, true, true, false, true, true, false)), (String
    ((Ascii (false, false, true, false, true, true, true, false)), (String
    ((Ascii (false, false, true, false, true, false, true, false)), (String
    ((Ascii (true, false, false, true, true, true, true, false)), (String
    ((Ascii (false, false, false, false, true, true, true, false)), (String
    ((Ascii (true, false, true, false, false, true, true, false)),
    EmptyString)))))))))))))))))))))), (Zpos (Coq_xI Coq_xH))) :: (((String
    ((Ascii (true, true, false, true, false, false, true, false)), (String
    ((Ascii (true, false, false, true, false, true, true, false)), (String
    ((Ascii (false, false, true, false, false, true, true, false)),
    EmptyString)))))), (Zpos (Coq_xO (Coq_xO Coq_xH)))) :: (((String ((Ascii
    (true, false, false, true, false, false, true, false)), (String ((Ascii
    (false, true, true, false, true, true, true, false)), EmptyString)))),
    (Zpos (Coq_xI (Coq_xO Coq_xH)))) :: (((String ((Ascii (false, false,
    false, false, true, false, true, false)), (String ((Ascii (true, false,
    false, false, false, true, true, false)), (String ((Ascii (false, true,
    false, false, true, true, true, false)), (String ((Ascii (false, false,
    true, false, true, true, true, false)), (String ((Ascii (true, false,
    false, true, false, true, true, false)), (String ((Ascii (true, false,
    false, false, false, true, true, false)), (String ((Ascii (false, false,
    true, true, false, true, true, false)), (String ((Ascii (true, false,
    false, true, false, false, true, false)), (String ((Ascii (false, true,
    true, false, true, true, true, false)), EmptyString)))))))))))))))))),
    (Zpos (Coq_xO (Coq_xI Coq_xH)))) :: (((String ((Ascii (true, true, false,
    false, false, false, true, false)), (String ((Ascii (true, true, true,
    true, false, true, true, false)), (String ((Ascii (true, false, true,
    false, true, true, true, false)), (String ((Ascii (false, true, true,
    true, false, true, true, false)), (String ((Ascii (false, false, true,
    false, true, true, true, false)), (String ((Ascii (true, false, true,
    false, false, true, true, false)), (String ((Ascii (false, true, false,
    false, true, true, true, false)), (String ((Ascii (true, true, false,
    false, true, false, true, false)), (String ((Ascii (true, false, false,
    true, false, true, true, false)), (String ((Ascii (true, true, true,
    false, false, true, true, false)), (String ((Ascii (false, true, true,
    true, false, true, true, false)), (String ((Ascii (true, false, false,
    false, false, true, true, false)), (String ((Ascii (false, false, true,
    false, true, true, true, false)), (String ((Ascii (true, false, true,
    false, true, true, true, false)), (String ((Ascii (false, true, false,
    false, true, true, true, false)), (String ((Ascii (true, false, true,
    false, false, true, true, false)),
    EmptyString)))))))))))))))))))))))))))))))), (Zpos (Coq_xI (Coq_xI
    Coq_xH)))) :: (((String ((Ascii (true, true, false, false, false, false,
    true, false)), (String ((Ascii (true, true, true, true, false, true,
    true, false)), (String ((Ascii (true, false, true, false, true, true,
    true, false)), (String ((Ascii (false, true, true, true, false, true,
    true, false)), (String ((Ascii (false, false, true, false, true, true,
    true, false)), (String ((Ascii (true, false, true, false, false, true,
    true, false)), (String ((Ascii (false, true, false, false, true, true,
    true, false)), (String ((Ascii (true, true, false, false, true, false,
    true, false)), (String ((Ascii (true, false, false, true, false, true,
    true, false)), (String ((Ascii (true, true, true, false, false, true,
    true, false)), (String ((Ascii (false, true, true, true, false, true,
    true, false)), (String ((Ascii (true, false, false, false, false, true,
    true, false)), (String ((Ascii (false, false, true, false, true, true,
    true, false)), (String ((Ascii (true, false, true, false, true, true,
    true, false)), (String ((Ascii (false, true, false, false, true, true,
    true, false)), (String ((Ascii (true, false, true, false, false, true,
    true, false)), (String ((Ascii (false, false, false, false, true, true,
    false, false)), EmptyString)))))))))))))))))))))))))))))))))), (Zpos
    (Coq_xI (Coq_xO (Coq_xO Coq_xH))))) :: (((String ((Ascii (true, true,
    false, true, false, false, true, false)), (String ((Ascii (true, false,
    false, true, false, true, true, false)), (String ((Ascii (false, false,
    true, false, false, true, true, false)), (String ((Ascii (true, true,
    false, false, false, false, true, false)), (String ((Ascii (true, true,
    true, true, false, true, true, false)), (String ((Ascii (false, true,
    true, true, false, true, true, false)), (String ((Ascii (false, false,
    true, false, true, true, true, false)), (String ((Ascii (true, false,
    true, false, false, true, true, false)), (String ((Ascii (false, false,
    false, true, true, true, true, false)), (String ((Ascii (false, false,
    true, false, true, true, true, false)), EmptyString)))))))))))))))))))),
    (Zpos (Coq_xO (Coq_xI (Coq_xO Coq_xH))))) :: (((String ((Ascii (false,
    false, false, true, true, false, true, false)), (String ((Ascii (true,
    false, true, false, true, true, false, false)), (String ((Ascii (false,
    true, false, false, false, false, true, false)), (String ((Ascii (true,
    false, false, false, false, true, true, false)), (String ((Ascii (true,
    true, true, false, false, true, true, false)), EmptyString)))))))))),
    (Zpos (Coq_xO (Coq_xO (Coq_xO (Coq_xO (Coq_xO Coq_xH))))))) :: (((String
    ((Ascii (false, false, false, true, true, false, true, false)), (String
    ((Ascii (true, false, true, false, true, true, false, false)), (String
    ((Ascii (true, true, false, false, false, false, true, false)), (String
    ((Ascii (false, false, false, true, false, true, true, false)), (String
    ((Ascii (true, false, false, false, false, true, true, false)), (String
    ((Ascii (true, false, false, true, false, true, true, false)), (String
    ((Ascii (false, true, true, true, false, true, true, false)),
    EmptyString)))))))))))))), (Zpos (Coq_xI (Coq_xO (Coq_xO (Coq_xO (Coq_xO
    Coq_xH))))))) :: (((String ((Ascii (false, false, false, true, true,
    false, true, false)), (String ((Ascii (true, false, true, false, true,
    true, false, false)), (String ((Ascii (false, false, true, false, true,
    false, true, false)), EmptyString)))))), (Zpos (Coq_xO (Coq_xI (Coq_xO
    (Coq_xO (Coq_xO Coq_xH))))))) :: (((String ((Ascii (false, false, false,
    true, true, false, true, false)), (String ((Ascii (true, false, true,
    false, true, true, false, false)), (String ((Ascii (true, false, true,
    false, true, false, true, false)), EmptyString)))))), (Zpos (Coq_xI
    (Coq_xI (Coq_xO (Coq_xO (Coq_xO Coq_xH))))))) :: (((String ((Ascii (true,
    true, false, false, false, false, true, false)), (String ((Ascii (true,
    false, true, false, true, true, true, false)), (String ((Ascii (false,
    false, false, false, true, true, true, false)), (String ((Ascii (false,
    false, false, true, false, true, true, false)), (String ((Ascii (false,
    true, true, true, false, false, true, false)), (String ((Ascii (true,
    true, true, true, false, true, true, false)), (String ((Ascii (false,
    true, true, true, false, true, true, false)), (String ((Ascii (true,
    true, false, false, false, true, true, false)), (String ((Ascii (true,
    false, true, false, false, true, true, false)),
    EmptyString)))))))))))))))))), (Zpos (Coq_xO (Coq_xO (Coq_xO (Coq_xO
    (Coq_xO (Coq_xO (Coq_xO (Coq_xO Coq_xH)))))))))) :: (((String ((Ascii
    (true, true, false, false, false, false, true, false)), (String ((Ascii
    (true, false, true, false, true, true, true, false)), (String ((Ascii
    (false, false, false, false, true, true, true, false)), (String ((Ascii
    (false, false, false, true, false, true, true, false)), (String ((Ascii
    (true, true, true, true, false, false, true, false)), (String ((Ascii
    (true, true, true, false, true, true, true, false)), (String ((Ascii
    (false, true, true, true, false, true, true, false)), (String ((Ascii
    (true, false, true, false, false, true, true, false)), (String ((Ascii
    (false, true, false, false, true, true, true, false)), (String ((Ascii
    (false, false, false, false, true, false, true, false)), (String ((Ascii
    (true, false, true, false, true, true, true, false)), (String ((Ascii
    (false, true, false, false, false, true, true, false)), (String ((Ascii
    (true, true, false, true, false, false, true, false)), (String ((Ascii
    (true, false, true, false, false, true, true, false)), (String ((Ascii
    (true, false, false, true, true, true, true, false)),
    EmptyString)))))))))))))))))))))))))))))), (Zpos (Coq_xI (Coq_xO (Coq_xO
    (Coq_xO (Coq_xO (Coq_xO (Coq_xO (Coq_xO
    Coq_xH)))))))))) :: [])))))))))))))))

(** val coq_HeaderAlgorithmParameter_table : (string * coq_Z) list **)

let coq_HeaderAlgorithmParameter_table =
  ((String ((Ascii (false, false, false, false, true, false, true, false)),
    (String ((Ascii (true, false, false, false, false, true, true, false)),
    (String ((Ascii (false, true, false, false, true, true, true, false)),
    (String ((Ascii (false, false, true, false, true, true, true, false)),
    (String ((Ascii (true, false, false, true, true, true, true, false)),
    (String ((Ascii (false, true, true, false, true, false, true, false)),
    (String ((Ascii (true, true, true, true, false, false, true, false)),
    (String ((Ascii (false, false, true, false, true, true, true, false)),
    (String ((Ascii (false, false, false, true, false, true, true, false)),
    (String ((Ascii (true, false, true, false, false, true, true, false)),
    (String ((Ascii (false, true, false, false, true, true, true, false)),
    EmptyString)))))))))))))))))))))), (Zneg (Coq_xO (Coq_xI (Coq_xO (Coq_xI
    Coq_xH)))))) :: (((String ((Ascii (false, false, false, false, true,
    false, true, false)), (String ((Ascii (true, false, false, false, false,
    true, true, false)), (String ((Ascii (false, true, false, false, true,
    true, true, false)), (String ((Ascii (false, false, true, false, true,
    true, true, false)), (String ((Ascii (true, false, false, true, true,
    true, true, false)), (String ((Ascii (false, true, true, false, true,
    false, true, false)), (String ((Ascii (false, true, true, true, false,
    false, true, false)), (String ((Ascii (true, true, true, true, false,
    true, true, false)), (String ((Ascii (false, true, true, true, false,
    true, true, false)), (String ((Ascii (true, true, false, false, false,
    true, true, false)), (String ((Ascii (true, false, true, false, false,
    true, true, false)), EmptyString)))))))))))))))))))))), (Zneg (Coq_xI
    (Coq_xO (Coq_xO (Coq_xI Coq_xH)))))) :: (((String ((Ascii (false, false,
    false, false, true, false, true, false)), (String ((Ascii (true, false,
    false, false, false, true, true, false)), (String ((Ascii (false, true,
    false, false, true, true, true, false)), (String ((Ascii (false, false,
    true, false, true, true, true, false)), (String ((Ascii (true, false,
    false, true, true, true, true, false)), (String ((Ascii (false, true,
    true, false, true, false, true, false)), (String ((Ascii (true, false,
    false, true, false, false, true, false)), (String ((Ascii (false, false,
    true, false, false, true, true, false)), (String ((Ascii (true, false,
    true, false, false, true, true, false)), (String ((Ascii (false, true,
    true, true, false, true, true, false)), (String ((Ascii (false, false,
    true, false, true, true, true, false)), (String ((Ascii (true, false,
    false, true, false, true, true, false)), (String ((Ascii (false, false,
    true, false, true, true, true, false)), (String ((Ascii (true, false,
    false, true, true, true, true, false)),
    EmptyString)))))))))))))))))))))))))))), (Zneg (Coq_xO (Coq_xO (Coq_xO
    (Coq_xI Coq_xH)))))) :: (((String ((Ascii (false, false, false, false,
    true, false, true, false)), (String ((Ascii (true, false, false, false,
    false, true, true, false)), (String ((Ascii (false, true, false, false,
    true, true, true, false)), (String ((Ascii (false, false, true, false,
    true, true, true, false)), (String ((Ascii (true, false, false, true,
    true, true, true, false)), (String ((Ascii (true, false, true, false,
    true, false, true, false)), (String ((Ascii (true, true, true, true,
    false, false, true, false)), (String ((Ascii (false, false, true, false,
    true, true, true, false)), (String ((Ascii (false, false, false, true,
    false, true, true, false)), (String ((Ascii (true, false, true, false,
    false, true, true, false)), (String ((Ascii (false, true, false, false,
    true, true, true, false)), EmptyString)))))))))))))))))))))), (Zneg
    (Coq_xI (Coq_xI (Coq_xI (Coq_xO Coq_xH)))))) :: (((String ((Ascii (false,
    false, false, false, true, false, true, false)), (String ((Ascii (true,
    false, false, false, false, true, true, false)), (String ((Ascii (false,
    true, false, false, true, true, true, false)), (String ((Ascii (false,
    false, true, false, true, true, true, false)), (String ((Ascii (true,
    false, false, true, true, true, true, false)), (String ((Ascii (true,
    false, true, false, true, false, true, false)), (String ((Ascii (false,
    true, true, true, false, false, true, false)), (String ((Ascii (true,
    true, true, true, false, true, true, false)), (String ((Ascii (false,
    true, true, true, false, true, true, false)), (String ((Ascii (true,
    true, false, false, false, true, true, false)), (String ((Ascii (true,
    false, true, false, false, true, true, false)),
    EmptyString)))))))))))))))))))))), (Zneg (Coq_xO (Coq_xI (Coq_xI (Coq_xO
    Coq_xH)))))) :: (((String ((Ascii (false, false, false, false, true,
    false, true, false)), (String ((Ascii (true, false, false, false, false,
    true, true, false)), (String ((Ascii (false, true, false, false, true,
    true, true, false)), (String ((Ascii (false, false, true, false, true,
    true, true, false)), (String ((Ascii (true, false, false, true, true,
    true, true, false)), (String ((Ascii (true, false, true, false, true,
    false, true, false)), (String ((Ascii (true, false, false, true, false,
    false, true, false)), (String ((Ascii (false, false, true, false, false,
    true, true, false)), (String ((Ascii (true, false, true, false, false,
    true, true, false)), (String ((Ascii (false, true, true, true, false,
    true, true, false)), (String ((Ascii (false, false, true, false, true,
    true, true, false)), (String ((Ascii (true, false, false, true, false,
    true, true, false)), (String ((Ascii (false, false, true, false, true,
    true, true, false)), (String ((Ascii (true, false, false, true, true,
    true, true, false)), EmptyString)))))))))))))))))))))))))))), (Zneg
    (Coq_xI (Coq_xO (Coq_xI (Coq_xO Coq_xH)))))) :: (((String ((Ascii (true,
    true, false, false, true, false, true, false)), (String ((Ascii (true,
    false, false, false, false, true, true, false)), (String ((Ascii (false,
    false, true, true, false, true, true, false)), (String ((Ascii (false,
    false, true, false, true, true, true, false)), EmptyString)))))))), (Zneg
    (Coq_xO (Coq_xO (Coq_xI (Coq_xO Coq_xH)))))) :: (((String ((Ascii (true,
    true, false, false, true, false, true, false)), (String ((Ascii (false,
    false, true, false, true, true, true, false)), (String ((Ascii (true,
    false, false, false, false, true, true, false)), (String ((Ascii (false,
    false, true, false, true, true, true, false)), (String ((Ascii (true,
    false, false, true, false, true, true, false)), (String ((Ascii (true,
    true, false, false, false, true, true, false)), (String ((Ascii (true,
    true, false, true, false, false, true, false)), (String ((Ascii (true,
    false, true, false, false, true, true, false)), (String ((Ascii (true,
    false, false, true, true, true, true, false)), (String ((Ascii (true,
    false, false, true, false, false, true, false)), (String ((Ascii (false,
    false, true, false, false, true, true, false)),
    EmptyString)))))))))))))))))))))), (Zneg (Coq_xI Coq_xH))) :: (((String
    ((Ascii (true, true, false, false, true, false, true, false)), (String
    ((Ascii (false, false, true, false, true, true, true, false)), (String
    ((Ascii (true, false, false, false, false, true, true, false)), (String
    ((Ascii (false, false, true, false, true, true, true, false)), (String
    ((Ascii (true, false, false, true, false, true, true, false)), (String
    ((Ascii (true, true, false, false, false, true, true, false)), (String
    ((Ascii (true, true, false, true, false, false, true, false)), (String
    ((Ascii (true, false, true, false, false, true, true, false)), (String
    ((Ascii (true, false, false, true, true, true, true, false)),
    EmptyString)))))))))))))))))), (Zneg (Coq_xO Coq_xH))) :: (((String
    ((Ascii (true, false, true, false, false, false, true, false)), (String
    ((Ascii (false, false, false, false, true, true, true, false)), (String
    ((Ascii (false, false, false, true, false, true, true, false)), (String
    ((Ascii (true, false, true, false, false, true, true, false)), (String
    ((Ascii (true, false, true, true, false, true, true, false)), (String
    ((Ascii (true, false, true, false, false, true, true, false)), (String
    ((Ascii (false, true, false, false, true, true, true, false)), (String
    ((Ascii (true, false, false, false, false, true, true, false)), (String
    ((Ascii (false, false, true, true, false, true, true, false)), (String
    ((Ascii (true, true, false, true, false, false, true, false)), (String
    ((Ascii (true, false, true, false, false, true, true, false)), (String
    ((Ascii (true, false, false, true, true, true, true, false)),
    EmptyString)))))))))))))))))))))))), (Zneg Coq_xH)) :: [])))))))))

(** val coq_Algorithm_table : (string * coq_Z) list **)

let coq_Algorithm_table =
  ((String ((Ascii (false, true, false, false, true, false, true, false)),
    (String ((Ascii (true, true, false, false, true, false, true, false)),
    (String ((Ascii (true, false, false, false, true, true, false, false)),
    EmptyString)))))), (Zneg (Coq_xI (Coq_xI (Coq_xI (Coq_xI (Coq_xI (Coq_xI
    (Coq_xI (Coq_xI (Coq_xI (Coq_xI (Coq_xI (Coq_xI (Coq_xI (Coq_xI (Coq_xI
    Coq_xH))))))))))))))))) :: (((String ((Ascii (true, true, true, false,
    true, false, true, false)), (String ((Ascii (true, false, false, false,
    false, true, true, false)), (String ((Ascii (false, false, true, true,
    false, true, true, false)), (String ((Ascii (false, true, true, true,
    false, true, true, false)), (String ((Ascii (true, false, true, false,
    true, true, true, false)), (String ((Ascii (false, false, true, false,
    true, true, true, false)), (String ((Ascii (false, false, true, false,
    false, false, true, false)), (String ((Ascii (true, true, false, false,
    true, false, true, false)), (String ((Ascii (true, false, false, false,
    false, false, true, false)), EmptyString)))))))))))))))))), (Zneg (Coq_xO
    (Coq_xO (Coq_xI (Coq_xO (Coq_xO (Coq_xO (Coq_xO (Coq_xO
    Coq_xH)))))))))) :: (((String ((Ascii (false, true, false, false, true,
    false, true, false)), (String ((Ascii (true, true, false, false, true,
    false, true, false)), (String ((Ascii (true, false, true, false, true,
    true, false, false)), (String ((Ascii (true, false, false, false, true,
    true, false, false)), (String ((Ascii (false, true, false, false, true,
    true, false, false)), EmptyString)))))))))), (Zneg (Coq_xI (Coq_xI
    (Coq_xO (Coq_xO (Coq_xO (Coq_xO (Coq_xO (Coq_xO
    Coq_xH)))))))))) :: (((String ((Ascii (false, true, false, false, true,
    false, true, false)), (String ((Ascii (true, true, false, false, true,
    false, true, false)), (String ((Ascii (true, true, false, false, true,
    true, false, false)), (String ((Ascii (false, false, false, true, true,
    true, false, false)), (String ((Ascii (false, false, true, false, true,
    true, false, false)), EmptyString)))))))))), (Zneg (Coq_xO (Coq_xI
    (Coq_xO (Coq_xO (Coq_xO (Coq_xO (Coq_xO (Coq_xO
    Coq_xH)))))))))) :: (((String ((Ascii (false, true, false, false, true,
    false, true, false)), (String ((Ascii (true, true, false, false, true,
    false, true, false)), (String ((Ascii (false, true, false, false, true,
    true, false, false)), (String ((Ascii (true, false, true, false, true,
    true, false, false)), (String ((Ascii (false, true, true, false, true,
    true, false, false)), EmptyString)))))))))), (Zneg (Coq_xI (Coq_xO
    (Coq_xO (Coq_xO (Coq_xO (Coq_xO (Coq_xO (Coq_xO
    Coq_xH)))))))))) :: (((String ((Ascii (true, false, true, false, false,
    false, true, false)), (String ((Ascii (true, true, false, false, true,
    false, true, false)), (String ((Ascii (false, true, false, false, true,
    true, false, false)), (String ((Ascii (true, false, true, false, true,
    true, false, false)), (String ((Ascii (false, true, true, false, true,
    true, false, false)), (String ((Ascii (true, true, false, true, false,
    false, true, false)), EmptyString)))))))))))), (Zneg (Coq_xI (Coq_xI
    (Coq_xI (Coq_xI (Coq_xO Coq_xH))))))) :: (((String ((Ascii (false, false,
    false, true, false, false, true, false)), (String ((Ascii (true, true,
    false, false, true, false, true, false)), (String ((Ascii (true, true,
    false, false, true, false, true, false)), (String ((Ascii (true, true,
    true, true, true, false, true, false)), (String ((Ascii (false, false,
    true, true, false, false, true, false)), (String ((Ascii (true, false,
    true, true, false, false, true, false)), (String ((Ascii (true, true,
    false, false, true, false, true, false)), EmptyString)))))))))))))),
    (Zneg (Coq_xO (Coq_xI (Coq_xI (Coq_xI (Coq_xO Coq_xH))))))) :: (((String
    ((Ascii (true, true, false, false, true, false, true, false)), (String
    ((Ascii (false, false, false, true, false, false, true, false)), (String
    ((Ascii (true, false, false, false, false, false, true, false)), (String
    ((Ascii (true, true, false, true, false, false, true, false)), (String
    ((Ascii (true, false, true, false, false, false, true, false)), (String
    ((Ascii (false, true, false, false, true, true, false, false)), (String
    ((Ascii (true, false, true, false, true, true, false, false)), (String
    ((Ascii (false, true, true, false, true, true, false, false)),
    EmptyString)))))))))))))))), (Zneg (Coq_xI (Coq_xO (Coq_xI (Coq_xI
    (Coq_xO Coq_xH))))))) :: (((String ((Ascii (true, true, false, false,
    true, false, true, false)), (String ((Ascii (false, false, false, true,
    false, false, true, false)), (String ((Ascii (true, false, false, false,
    false, false, true, false)), (String ((Ascii (true, true, true, true,
    true, false, true, false)), (String ((Ascii (true, false, true, false,
    true, true, false, false)), (String ((Ascii (true, false, false, false,
    true, true, false, false)), (String ((Ascii (false, true, false, false,
    true, true, false, false)), EmptyString)))))))))))))), (Zneg (Coq_xO
    (Coq_xO (Coq_xI (Coq_xI (Coq_xO Coq_xH))))))) :: (((String ((Ascii (true,
    true, false, false, true, false, true, false)), (String ((Ascii (false,
    false, false, true, false, false, true, false)), (String ((Ascii (true,
    false, false, false, false, false, true, false)), (String ((Ascii (true,
    true, true, true, true, false, true, false)), (String ((Ascii (true,
    true, false, false, true, true, false, false)), (String ((Ascii (false,
    false, false, true, true, true, false, false)), (String ((Ascii (false,
    false, true, false, true, true, false, false)),
    EmptyString)))))))))))))), (Zneg (Coq_xI (Coq_xI (Coq_xO (Coq_xI (Coq_xO
    Coq_xH))))))) :: (((String ((Ascii (false, true, false, false, true,
    false, true, false)), (String ((Ascii (true, true, false, false, true,
    false, true, false)), (String ((Ascii (true, false, false, false, false,
    false, true, false)), (String ((Ascii (true, false, true, false, false,
    false, true, false)), (String ((Ascii (true, true, false, false, true,
    false, true, false)), (String ((Ascii (true, true, true, true, true,
    false, true, false)), (String ((Ascii (true, true, true, true, false,
    false, true, false)), (String ((Ascii (true, false, false, false, false,
    false, true, false)), (String ((Ascii (true, false, true, false, false,
    false, true, false)), (String ((Ascii (false, false, false, false, true,
    false, true, false)), (String ((Ascii (true, true, true, true, true,
    false, true, false)), (String ((Ascii (true, true, false, false, true,
    false, true, false)), (String ((Ascii (false, false, false, true, false,
    false, true, false)), (String ((Ascii (true, false, false, false, false,
    false, true, false)), (String ((Ascii (true, true, true, true, true,
    false, true, false)), (String ((Ascii (true, false, true, false, true,
    true, false, false)), (String ((Ascii (true, false, false, false, true,
    true, false, false)), (String ((Ascii (false, true, false, false, true,
    true, false, false)), EmptyString)))))))))))))))))))))))))))))))))))),
    (Zneg (Coq_xO (Coq_xI (Coq_xO (Coq_xI (Coq_xO Coq_xH))))))) :: (((String
    ((Ascii (false, true, false, false, true, false, true, false)), (String
    ((Ascii (true, true, false, false, true, false, true, false)), (String
    ((Ascii (true, false, false, false, false, false, true, false)), (String
    ((Ascii (true, false, true, false, false, false, true, false)), (String
    ((Ascii (true, true, false, false, true, false, true, false)), (String
    ((Ascii (true, true, true, true, true, false, true, false)), (String
    ((Ascii (true, true, true, true, false, false, true, false)), (String
    ((Ascii (true, false, false, false, false, false, true, false)), (String
    ((Ascii (true, false, true, false, false, false, true, false)), (String
    ((Ascii (false, false, false, false, true, false, true, false)), (String
    ((Ascii (true, true, true, true, true, false, true, false)), (String
    ((Ascii (true, true, false, false, true, false, true, false)), (String
    ((Ascii (false, false, false, true, false, false, true, false)), (String
    ((Ascii (true, false, false, false, false, false, true, false)), (String
    ((Ascii (true, true, true, true, true, false, true, false)), (String
    ((Ascii (false, true, false, false, true, true, false, false)), (String
    ((Ascii (true, false, true, false, true, true, false, false)), (String
    ((Ascii (false, true, true, false, true, true, false, false)),
    EmptyString)))))))))))))))))))))))))))))))))))), (Zneg (Coq_xI (Coq_xO
    (Coq_xO (Coq_xI (Coq_xO Coq_xH))))))) :: (((String ((Ascii (false, true,
    false, false, true, false, true, false)), (String ((Ascii (true, true,
    false, false, true, false, true, false)), (String ((Ascii (true, false,
    false, false, false, false, true, false)), (String ((Ascii (true, false,
    true, false, false, false, true, false)), (String ((Ascii (true, true,
    false, false, true, false, true, false)), (String ((Ascii (true, true,
    true, true, true, false, true, false)), (String ((Ascii (true, true,
    true, true, false, false, true, false)), (String ((Ascii (true, false,
    false, false, false, false, true, false)), (String ((Ascii (true, false,
    true, false, false, false, true, false)), (String ((Ascii (false, false,
    false, false, true, false, true, false)), (String ((Ascii (true, true,
    true, true, true, false, true, false)), (String ((Ascii (false, true,
    false, false, true, false, true, false)), (String ((Ascii (false, true,
    true, false, false, false, true, false)), (String ((Ascii (true, true,
    false, false, false, false, true, false)), (String ((Ascii (true, true,
    true, true, true, false, true, false)), (String ((Ascii (false, false,
    false, true, true, true, false, false)), (String ((Ascii (false, false,
    false, false, true, true, false, false)), (String ((Ascii (true, false,
    false, false, true, true, false, false)), (String ((Ascii (true, true,
    true, false, true, true, false, false)), (String ((Ascii (true, true,
    true, true, true, false, true, false)), (String ((Ascii (false, false,
    true, false, false, true, true, false)), (String ((Ascii (true, false,
    true, false, false, true, true, false)), (String ((Ascii (false, true,
    true, false, false, true, true, false)), (String ((Ascii (true, false,
    false, false, false, true, true, false)), (String ((Ascii (true, false,
    true, false, true, true, true, false)), (String ((Ascii (false, false,
    true, true, false, true, true, false)), (String ((Ascii (false, false,
    true, false, true, true, true, false)),
    EmptyString)))))))))))))))))))))))))))))))))))))))))))))))))))))), (Zneg
    (Coq_xO (Coq_xO (Coq_xO (Coq_xI (Coq_xO Coq_xH))))))) :: (((String
    ((Ascii (false, false, false, false, true, false, true, false)), (String
    ((Ascii (true, true, false, false, true, false, true, false)), (String
    ((Ascii (true, false, true, false, true, true, false, false)), (String
    ((Ascii (true, false, false, false, true, true, false, false)), (String
    ((Ascii (false, true, false, false, true, true, false, false)),
    EmptyString)))))))))), (Zneg (Coq_xI (Coq_xI (Coq_xI (Coq_xO (Coq_xO
    Coq_xH))))))) :: (((String ((Ascii (false, false, false, false, true,
    false, true, false)), (String ((Ascii (true, true, false, false, true,
    false, true, false)), (String ((Ascii (true, true, false, false, true,
    true, false, false)), (String ((Ascii (false, false, false, true, true,
    true, false, false)), (String ((Ascii (false, false, true, false, true,
    true, false, false)), EmptyString)))))))))), (Zneg (Coq_xO (Coq_xI
    (Coq_xI (Coq_xO (Coq_xO Coq_xH))))))) :: (((String ((Ascii (false, false,
    false, false, true, false, true, false)), (String ((Ascii (true, true,
    false, false, true, false, true, false)), (String ((Ascii (false, true,
    false, false, true, true, false, false)), (String ((Ascii (true, false,
    true, false, true, true, false, false)), (String ((Ascii (false, true,
    true, false, true, true, false, false)), EmptyString)))))))))), (Zneg
    (Coq_xI (Coq_xO (Coq_xI (Coq_xO (Coq_xO Coq_xH))))))) :: (((String
    ((Ascii (true, false, true, false, false, false, true, false)), (String
    ((Ascii (true, true, false, false, true, false, true, false)), (String
    ((Ascii (true, false, true, false, true, true, false, false)), (String
    ((Ascii (true, false, false, false, true, true, false, false)), (String
    ((Ascii (false, true, false, false, true, true, false, false)),
    EmptyString)))))))))), (Zneg (Coq_xO (Coq_xO (Coq_xI (Coq_xO (Coq_xO
    Coq_xH))))))) :: (((String ((Ascii (true, false, true, false, false,
    false, true, false)), (String ((Ascii (true, true, false, false, true,
    false, true, false)), (String ((Ascii (true, true, false, false, true,
    true, false, false)), (String ((Ascii (false, false, false, true, true,
    true, false, false)), (String ((Ascii (false, false, true, false, true,
    true, false, false)), EmptyString)))))))))), (Zneg (Coq_xI (Coq_xI
    (Coq_xO (Coq_xO (Coq_xO Coq_xH))))))) :: (((String ((Ascii (true, false,
    true, false, false, false, true, false)), (String ((Ascii (true, true,
    false, false, false, false, true, false)), (String ((Ascii (false, false,
    true, false, false, false, true, false)), (String ((Ascii (false, false,
    false, true, false, false, true, false)), (String ((Ascii (true, true,
    true, true, true, false, true, false)), (String ((Ascii (true, true,
    false, false, true, false, true, false)), (String ((Ascii (true, true,
    false, false, true, false, true, false)), (String ((Ascii (true, true,
    true, true, true, false, true, false)), (String ((Ascii (true, false,
    false, false, false, false, true, false)), (String ((Ascii (false, true,
    false, false, true, true, false, false)), (String ((Ascii (true, false,
    true, false, true, true, false, false)), (String ((Ascii (false, true,
    true, false, true, true, false, false)), (String ((Ascii (true, true,
    false, true, false, false, true, false)), (String ((Ascii (true, true,
    true, false, true, false, true, false)),
    EmptyString)))))))))))))))))))))))))))), (Zneg (Coq_xO (Coq_xI (Coq_xO
    (Coq_xO (Coq_xO Coq_xH))))))) :: (((String ((Ascii (true, false, true,
    false, false, false, true, false)), (String ((Ascii (true, true, false,
    false, false, false, true, false)), (String ((Ascii (false, false, true,
    false, false, false, true, false)), (String ((Ascii (false, false, false,
    true, false, false, true, false)), (String ((Ascii (true, true, true,
    true, true, false, true, false)), (String ((Ascii (true, true, false,
    false, true, false, true, false)), (String ((Ascii (true, true, false,
    false, true, false, true, false)), (String ((Ascii (true, true, true,
    true, true, false, true, false)), (String ((Ascii (true, false, false,
    false, false, false, true, false)), (String ((Ascii (true, false, false,
    false, true, true, false, false)), (String ((Ascii (true, false, false,
    true, true, true, false, false)), (String ((Ascii (false, true, false,
    false, true, true, false, false)), (String ((Ascii (true, true, false,
    true, false, false, true, false)), (String ((Ascii (true, true, true,
    false, true, false, true, false)),
    EmptyString)))))))))))))))))))))))))))), (Zneg (Coq_xI (Coq_xO (Coq_xO
    (Coq_xO (Coq_xO Coq_xH))))))) :: (((String ((Ascii (true, false, true,
    false, false, false, true, false)), (String ((Ascii (true, true, false,
    false, false, false, true, false)), (String ((Ascii (false, false, true,
    false, false, false, true, false)), (String ((Ascii (false, false, false,
    true, false, false, true, false)), (String ((Ascii (true, true, true,
    true, true, false, true, false)), (String ((Ascii (true, true, false,
    false, true, false, true, false)), (String ((Ascii (true, true, false,
    false, true, false, true, false)), (String ((Ascii (true, true, true,
    true, true, false, true, false)), (String ((Ascii (true, false, false,
    false, false, false, true, false)), (String ((Ascii (true, false, false,
    false, true, true, false, false)), (String ((Ascii (false, true, false,
    false, true, true, false, false)), (String ((Ascii (false, false, false,
    true, true, true, false, false)), (String ((Ascii (true, true, false,
    true, false, false, true, false)), (String ((Ascii (true, true, true,
    false, true, false, true, false)),
    EmptyString)))))))))))))))))))))))))))), (Zneg (Coq_xO (Coq_xO (Coq_xO
    (Coq_xO (Coq_xO Coq_xH))))))) :: (((String ((Ascii (true, false, true,
    false, false, false, true, false)), (String ((Ascii (true, true, false,
    false, false, false, true, false)), (String ((Ascii (false, false, true,
    false, false, false, true, false)), (String ((Ascii (false, false, false,
    true, false, false, true, false)), (String ((Ascii (true, true, true,
    true, true, false, true, false)), (String ((Ascii (true, false, true,
    false, false, false, true, false)), (String ((Ascii (true, true, false,
    false, true, false, true, false)), (String ((Ascii (true, true, true,
    true, true, false, true, false)), (String ((Ascii (true, false, false,
    false, false, false, true, false)), (String ((Ascii (false, true, false,
    false, true, true, false, false)), (String ((Ascii (true, false, true,
    false, true, true, false, false)), (String ((Ascii (false, true, true,
    false, true, true, false, false)), (String ((Ascii (true, true, false,
    true, false, false, true, false)), (String ((Ascii (true, true, true,
    false, true, false, true, false)),
    EmptyString)))))))))))))))))))))))))))), (Zneg (Coq_xI (Coq_xI (Coq_xI
    (Coq_xI Coq_xH)))))) :: (((String ((Ascii (true, false, true, false,
    false, false, true, false)), (String ((Ascii (true, true, false, false,
    false, false, true, false)), (String ((Ascii (false, false, true, false,
    false, false, true, false)), (String ((Ascii (false, false, false, true,
    false, false, true, false)), (String ((Ascii (true, true, true, true,
    true, false, true, false)), (String ((Ascii (true, false, true, false,
    false, false, true, false)), (String ((Ascii (true, true, false, false,
    true, false, true, false)), (String ((Ascii (true, true, true, true,
    true, false, true, false)), (String ((Ascii (true, false, false, false,
    false, false, true, false)), (String ((Ascii (true, false, false, false,
    true, true, false, false)), (String ((Ascii (true, false, false, true,
    true, true, false, false)), (String ((Ascii (false, true, false, false,
    true, true, false, false)), (String ((Ascii (true, true, false, true,
    false, false, true, false)), (String ((Ascii (true, true, true, false,
    true, false, true, false)), EmptyString)))))))))))))))))))))))))))),
    (Zneg (Coq_xO (Coq_xI (Coq_xI (Coq_xI Coq_xH)))))) :: (((String ((Ascii
    (true, false, true, false, false, false, true, false)), (String ((Ascii
    (true, true, false, false, false, false, true, false)), (String ((Ascii
    (false, false, true, false, false, false, true, false)), (String ((Ascii
    (false, false, false, true, false, false, true, false)), (String ((Ascii
    (true, true, true, true, true, false, true, false)), (String ((Ascii
    (true, false, true, false, false, false, true, false)), (String ((Ascii
    (true, true, false, false, true, false, true, false)), (String ((Ascii
    (true, true, true, true, true, false, true, false)), (String ((Ascii
    (true, false, false, false, false, false, true, false)), (String ((Ascii
    (true, false, false, false, true, true, false, false)), (String ((Ascii
    (false, true, false, false, true, true, false, false)), (String ((Ascii
    (false, false, false, true, true, true, false, false)), (String ((Ascii
    (true, true, false, true, false, false, true, false)), (String ((Ascii
    (true, true, true, false, true, false, true, false)),
    EmptyString)))))))))))))))))))))))))))), (Zneg (Coq_xI (Coq_xO (Coq_xI
    (Coq_xI Coq_xH)))))) :: (((String ((Ascii (true, false, true, false,
    false, false, true, false)), (String ((Ascii (true, true, false, false,
    false, false, true, false)), (String ((Ascii (false, false, true, false,
    false, false, true, false)), (String ((Ascii (false, false, false, true,
    false, false, true, false)), (String ((Ascii (true, true, true, true,
    true, false, true, false)), (String ((Ascii (true, true, false, false,
    true, false, true, false)), (String ((Ascii (true, true, false, false,
    true, false, true, false)), (String ((Ascii (true, true, true, true,
    true, false, true, false)), (String ((Ascii (false, false, false, true,
    false, false, true, false)), (String ((Ascii (true, true, false, true,
    false, false, true, false)), (String ((Ascii (false, false, true, false,
    false, false, true, false)), (String ((Ascii (false, true, true, false,
    false, false, true, false)), (String ((Ascii (true, true, true, true,
    true, false, true, false)), (String ((Ascii (true, false, true, false,
    true, true, false, false)), (String ((Ascii (true, false, false, false,
    true, true, false, false)), (String ((Ascii (false, true, false, false,
    true, true, false, false)), EmptyString)))))))))))))))))))))))))))))))),
    (Zneg (Coq_xO (Coq_xO (Coq_xI (Coq_xI Coq_xH)))))) :: (((String ((Ascii
    (true, false, true, false, false, false, true, false)), (String ((Ascii
    (true, true, false, false, false, false, true, false)), (String ((Ascii
    (false, false, true, false, false, false, true, false)), (String ((Ascii
    (false, false, false, true, false, false, true, false)), (String ((Ascii
    (true, true, true, true, true, false, true, false)), (String ((Ascii
    (true, true, false, false, true, false, true, false)), (String ((Ascii
    (true, true, false, false, true, false, true, false)), (String ((Ascii
    (true, true, true, true, true, false, true, false)), (String ((Ascii
    (false, false, false, true, false, false, true, false)), (String ((Ascii
    (true, true, false, true, false, false, true, false)), (String ((Ascii
    (false, false, true, false, false, false, true, false)), (String ((Ascii
    (false, true, true, false, false, false, true, false)), (String ((Ascii
    (true, true, true, true, true, false, true, false)), (String ((Ascii
    (false, true, false, false, true, true, false, false)), (String ((Ascii
    (true, false, true, false, true, true, false, false)), (String ((Ascii
    (false, true, true, false, true, true, false, false)),
    EmptyString)))))))))))))))))))))))))))))))), (Zneg (Coq_xI (Coq_xI
    (Coq_xO (Coq_xI Coq_xH)))))) :: (((String ((Ascii (true, false, true,
    false, false, false, true, false)), (String ((Ascii (true, true, false,
    false, false, false, true, false)), (String ((Ascii (false, false, true,
    false, false, false, true, false)), (String ((Ascii (false, false, false,
    true, false, false, true, false)), (String ((Ascii (true, true, true,
    true, true, false, true, false)), (String ((Ascii (true, false, true,
    false, false, false, true, false)), (String ((Ascii (true, true, false,
    false, true, false, true, false)), (String ((Ascii (true, true, true,
    true, true, false, true, false)), (String ((Ascii (false, false, false,
    true, false, false, true, false)), (String ((Ascii (true, true, false,
    true, false, false, true, false)), (String ((Ascii (false, false, true,
    false, false, false, true, false)), (String ((Ascii (false, true, true,
    false, false, false, true, false)), (String ((Ascii (true, true, true,
    true, true, false, true, false)), (String ((Ascii (true, false, true,
    false, true, true, false, false)), (String ((Ascii (true, false, false,
    false, true, true, false, false)), (String ((Ascii (false, true, false,
    false, true, true, false, false)),
    EmptyString)))))))))))))))))))))))))))))))), (Zneg (Coq_xO (Coq_xI
    (Coq_xO (Coq_xI Coq_xH)))))) :: (((String ((Ascii (true, false, true,
    false, false, false, true, false)), (String ((Ascii (true, true, false,
    false, false, false, true, false)), (String ((Ascii (false, false, true,
    false, false, false, true, false)), (String ((Ascii (false, false, false,
    true, false, false, true, false)), (String ((Ascii (true, true, true,
    true, true, false, true, false)), (String ((Ascii (true, false, true,
    false, false, false, true, false)), (String ((Ascii (true, true, false,
    false, true, false, true, false)), (String ((Ascii (true, true, true,
    true, true, false, true, false)), (String ((Ascii (false, false, false,
    true, false, false, true, false)), (String ((Ascii (true, true, false,
    true, false, false, true, false)), (String ((Ascii (false, false, true,
    false, false, false, true, false)), (String ((Ascii (false, true, true,
    false, false, false, true, false)), (String ((Ascii (true, true, true,
    true, true, false, true, false)), (String ((Ascii (false, true, false,
    false, true, true, false, false)), (String ((Ascii (true, false, true,
    false, true, true, false, false)), (String ((Ascii (false, true, true,
    false, true, true, false, false)),
    EmptyString)))))))))))))))))))))))))))))))), (Zneg (Coq_xI (Coq_xO
    (Coq_xO (Coq_xI Coq_xH)))))) :: (((String ((Ascii (true, true, false,
    false, true, false, true, false)), (String ((Ascii (false, false, false,
    true, false, false, true, false)), (String ((Ascii (true, false, false,
    false, false, false, true, false)), (String ((Ascii (true, true, false,
    true, false, false, true, false)), (String ((Ascii (true, false, true,
    false, false, false, true, false)), (String ((Ascii (true, false, false,
    false, true, true, false, false)), (String ((Ascii (false, true, false,
    false, true, true, false, false)), (String ((Ascii (false, false, false,
    true, true, true, false, false)), EmptyString)))))))))))))))), (Zneg
    (Coq_xO (Coq_xI (Coq_xO (Coq_xO Coq_xH)))))) :: (((String ((Ascii (true,
    true, false, false, true, false, true, false)), (String ((Ascii (false,
    false, false, true, false, false, true, false)), (String ((Ascii (true,
    false, false, false, false, false, true, false)), (String ((Ascii (true,
    true, true, true, true, false, true, false)), (String ((Ascii (true,
    false, true, false, true, true, false, false)), (String ((Ascii (true,
    false, false, false, true, true, false, false)), (String ((Ascii (false,
    true, false, false, true, true, false, false)), (String ((Ascii (true,
    true, true, true, true, false, true, false)), (String ((Ascii (false,
    true, false, false, true, true, false, false)), (String ((Ascii (true,
    false, true, false, true, true, false, false)), (String ((Ascii (false,
    true, true, false, true, true, false, false)),
    EmptyString)))))))))))))))))))))), (Zneg (Coq_xI (Coq_xO (Coq_xO (Coq_xO
    Coq_xH)))))) :: (((String ((Ascii (true, true, false, false, true, false,
    true, false)), (String ((Ascii (false, false, false, true, false, false,
    true, false)), (String ((Ascii (true, false, false, false, false, false,
    true, false)), (String ((Ascii (true, true, true, true, true, false,
    true, false)), (String ((Ascii (false, true, false, false, true, true,
    false, false)), (String ((Ascii (true, false, true, false, true, true,
    false, false)), (String ((Ascii (false, true, true, false, true, true,
    false, false)), EmptyString)))))))))))))), (Zneg (Coq_xO (Coq_xO (Coq_xO
    (Coq_xO Coq_xH)))))) :: (((String ((Ascii (true, true, false, false,
    true, false, true, false)), (String ((Ascii (false, false, false, true,
    false, false, true, false)), (String ((Ascii (true, false, false, false,
    false, false, true, false)), (String ((Ascii (true, true, true, true,
    true, false, true, false)), (String ((Ascii (false, true, false, false,
    true, true, false, false)), (String ((Ascii (true, false, true, false,
    true, true, false, false)), (String ((Ascii (false, true, true, false,
    true, true, false, false)), (String ((Ascii (true, true, true, true,
    true, false, true, false)), (String ((Ascii (false, true, true, false,
    true, true, false, false)), (String ((Ascii (false, false, true, false,
    true, true, false, false)), EmptyString)))))))))))))))))))), (Zneg
    (Coq_xI (Coq_xI (Coq_xI Coq_xH))))) :: (((String ((Ascii (true, true,
    false, false, true, false, true, false)), (String ((Ascii (false, false,
    false, true, false, false, true, false)), (String ((Ascii (true, false,
    false, false, false, false, true, false)), (String ((Ascii (true, true,
    true, true, true, false, true, false)), (String ((Ascii (true, false,
    false, false, true, true, false, false)), EmptyString)))))))))), (Zneg
    (Coq_xO (Coq_xI (Coq_xI Coq_xH))))) :: (((String ((Ascii (false, false,
    true, false, false, false, true, false)), (String ((Ascii (true, false,
    false, true, false, true, true, false)), (String ((Ascii (false, true,
    false, false, true, true, true, false)), (String ((Ascii (true, false,
    true, false, false, true, true, false)), (String ((Ascii (true, true,
    false, false, false, true, true, false)), (String ((Ascii (false, false,
    true, false, true, true, true, false)), (String ((Ascii (true, true,
    true, true, true, false, true, false)), (String ((Ascii (false, false,
    false, true, false, false, true, false)), (String ((Ascii (true, true,
    false, true, false, false, true, false)), (String ((Ascii (false, false,
    true, false, false, false, true, false)), (String ((Ascii (false, true,
    true, false, false, false, true, false)), (String ((Ascii (true, true,
    true, true, true, false, true, false)), (String ((Ascii (true, false,
    false, false, false, false, true, false)), (String ((Ascii (true, false,
    true, false, false, false, true, false)), (String ((Ascii (true, true,
    false, false, true, false, true, false)), (String ((Ascii (true, true,
    true, true, true, false, true, false)), (String ((Ascii (false, true,
    false, false, true, true, false, false)), (String ((Ascii (true, false,
    true, false, true, true, false, false)), (String ((Ascii (false, true,
    true, false, true, true, false, false)),
    EmptyString)))))))))))))))))))))))))))))))))))))), (Zneg (Coq_xI (Coq_xO
    (Coq_xI Coq_xH))))) :: (((String ((Ascii (false, false, true, false,
    false, false, true, false)), (String ((Ascii (true, false, false, true,
    false, true, true, false)), (String ((Ascii (false, true, false, false,
    true, true, true, false)), (String ((Ascii (true, false, true, false,
    false, true, true, false)), (String ((Ascii (true, true, false, false,
    false, true, true, false)), (String ((Ascii (false, false, true, false,
    true, true, true, false)), (String ((Ascii (true, true, true, true, true,
    false, true, false)), (String ((Ascii (false, false, false, true, false,
    false, true, false)), (String ((Ascii (true, true, false, true, false,
    false, true, false)), (String ((Ascii (false, false, true, false, false,
    false, true, false)), (String ((Ascii (false, true, true, false, false,
    false, true, false)), (String ((Ascii (true, true, true, true, true,
    false, true, false)), (String ((Ascii (true, false, false, false, false,
    false, true, false)), (String ((Ascii (true, false, true, false, false,
    false, true, false)), (String ((Ascii (true, true, false, false, true,
    false, true, false)), (String ((Ascii (true, true, true, true, true,
    false, true, false)), (String ((Ascii (true, false, false, false, true,
    true, false, false)), (String ((Ascii (false, true, false, false, true,
    true, false, false)), (String ((Ascii (false, false, false, true, true,
    true, false, false)), EmptyString)))))))))))))))))))))))))))))))))))))),
    (Zneg (Coq_xO (Coq_xO (Coq_xI Coq_xH))))) :: (((String ((Ascii (false,
    false, true, false, false, false, true, false)), (String ((Ascii (true,
    false, false, true, false, true, true, false)), (String ((Ascii (false,
    true, false, false, true, true, true, false)), (String ((Ascii (true,
    false, true, false, false, true, true, false)), (String ((Ascii (true,
    true, false, false, false, true, true, false)), (String ((Ascii (false,
    false, true, false, true, true, true, false)), (String ((Ascii (true,
    true, true, true, true, false, true, false)), (String ((Ascii (false,
    false, false, true, false, false, true, false)), (String ((Ascii (true,
    true, false, true, false, false, true, false)), (String ((Ascii (false,
    false, true, false, false, false, true, false)), (String ((Ascii (false,
    true, true, false, false, false, true, false)), (String ((Ascii (true,
    true, true, true, true, false, true, false)), (String ((Ascii (true,
    true, false, false, true, false, true, false)), (String ((Ascii (false,
    false, false, true, false, false, true, false)), (String ((Ascii (true,
    false, false, false, false, false, true, false)), (String ((Ascii (true,
    true, true, true, true, false, true, false)), (String ((Ascii (true,
    false, true, false, true, true, false, false)), (String ((Ascii (true,
    false, false, false, true, true, false, false)), (String ((Ascii (false,
    true, false, false, true, true, false, false)),
    EmptyString)))))))))))))))))))))))))))))))))))))), (Zneg (Coq_xI (Coq_xI
    (Coq_xO Coq_xH))))) :: (((String ((Ascii (false, false, true, false,
    false, false, true, false)), (String ((Ascii (true, false, false, true,
    false, true, true, false)), (String ((Ascii (false, true, false, false,
    true, true, true, false)), (String ((Ascii (true, false, true, false,
    false, true, true, false)), (String ((Ascii (true, true, false, false,
    false, true, true, false)), (String ((Ascii (false, false, true, false,
    true, true, true, false)), (String ((Ascii (true, true, true, true, true,
    false, true, false)), (String ((Ascii (false, false, false, true, false,
    false, true, false)), (String ((Ascii (true, true, false, true, false,
    false, true, false)), (String ((Ascii (false, false, true, false, false,
    false, true, false)), (String ((Ascii (false, true, true, false, false,
    false, true, false)), (String ((Ascii (true, true, true, true, true,
    false, true, false)), (String ((Ascii (true, true, false, false, true,
    false, true, false)), (String ((Ascii (false, false, false, true, false,
    false, true, false)), (String ((Ascii (true, false, false, false, false,
    false, true, false)), (String ((Ascii (true, true, true, true, true,
    false, true, false)), (String ((Ascii (false, true, false, false, true,
    true, false, false)), (String ((Ascii (true, false, true, false, true,
    true, false, false)), (String ((Ascii (false, true, true, false, true,
    true, false, false)), EmptyString)))))))))))))))))))))))))))))))))))))),
    (Zneg (Coq_xO (Coq_xI (Coq_xO Coq_xH))))) :: (((String ((Ascii (true,
    false, true, false, false, false, true, false)), (String ((Ascii (false,
    false, true, false, false, true, true, false)), (String ((Ascii (false,
    false, true, false, false, false, true, false)), (String ((Ascii (true,
    true, false, false, true, false, true, false)), (String ((Ascii (true,
    false, false, false, false, false, true, false)), EmptyString)))))))))),
    (Zneg (Coq_xO (Coq_xO (Coq_xO Coq_xH))))) :: (((String ((Ascii (true,
    false, true, false, false, false, true, false)), (String ((Ascii (true,
    true, false, false, true, false, true, false)), (String ((Ascii (false,
    true, false, false, true, true, false, false)), (String ((Ascii (true,
    false, true, false, true, true, false, false)), (String ((Ascii (false,
    true, true, false, true, true, false, false)), EmptyString)))))))))),
    (Zneg (Coq_xI (Coq_xI Coq_xH)))) :: (((String ((Ascii (false, false,
    true, false, false, false, true, false)), (String ((Ascii (true, false,
    false, true, false, true, true, false)), (String ((Ascii (false, true,
    false, false, true, true, true, false)), (String ((Ascii (true, false,
    true, false, false, true, true, false)), (String ((Ascii (true, true,
    false, false, false, true, true, false)), (String ((Ascii (false, false,
    true, false, true, true, true, false)), EmptyString)))))))))))), (Zneg
    (Coq_xO (Coq_xI Coq_xH)))) :: (((String ((Ascii (true, false, false,
    false, false, false, true, false)), (String ((Ascii (false, true, false,
    false, true, true, false, false)), (String ((Ascii (true, false, true,
    false, true, true, false, false)), (String ((Ascii (false, true, true,
    false, true, true, false, false)), (String ((Ascii (true, true, false,
    true, false, false, true, false)), (String ((Ascii (true, true, true,
    false, true, false, true, false)), EmptyString)))))))))))), (Zneg (Coq_xI
    (Coq_xO Coq_xH)))) :: (((String ((Ascii (true, false, false, false,
    false, false, true, false)), (String ((Ascii (true, false, false, false,
    true, true, false, false)), (String ((Ascii (true, false, false, true,
    true, true, false, false)), (String ((Ascii (false, true, false, false,
    true, true, false, false)), (String ((Ascii (true, true, false, true,
    false, false, true, false)), (String ((Ascii (true, true, true, false,
    true, false, true, false)), EmptyString)))))))))))), (Zneg (Coq_xO
    (Coq_xO Coq_xH)))) :: (((String ((Ascii (true, false, false, false,
    false, false, true, false)), (String ((Ascii (true, false, false, false,
    true, true, false, false)), (String ((Ascii (false, true, false, false,
    true, true, false, false)), (String ((Ascii (false, false, false, true,
    true, true, false, false)), (String ((Ascii (true, true, false, true,
    false, false, true, false)), (String ((Ascii (true, true, true, false,
    true, false, true, false)), EmptyString)))))))))))), (Zneg (Coq_xI
    Coq_xH))) :: (((String ((Ascii (false, true, false, false, true, false,
    true, false)), (String ((Ascii (true, false, true, false, false, true,
    true, false)), (String ((Ascii (true, true, false, false, true, true,
    true, false)), (String ((Ascii (true, false, true, false, false, true,
    true, false)), (String ((Ascii (false, true, false, false, true, true,
    true, false)), (String ((Ascii (false, true, true, false, true, true,
    true, false)), (String ((Ascii (true, false, true, false, false, true,
    true, false)), (String ((Ascii (false, false, true, false, false, true,
    true, false)), EmptyString)))))))))))))))), Z0) :: (((String ((Ascii
    (true, false, false, false, false, false, true, false)), (String ((Ascii
    (true, false, false, false, true, true, false, false)), (String ((Ascii
    (false, true, false, false, true, true, false, false)), (String ((Ascii
    (false, false, false, true, true, true, false, false)), (String ((Ascii
    (true, true, true, false, false, false, true, false)), (String ((Ascii
    (true, true, false, false, false, false, true, false)), (String ((Ascii
    (true, false, true, true, false, false, true, false)),
    EmptyString)))))))))))))), (Zpos Coq_xH)) :: (((String ((Ascii (true,
    false, false, false, false, false, true, false)), (String ((Ascii (true,
    false, false, false, true, true, false, false)), (String ((Ascii (true,
    false, false, true, true, true, false, false)), (String ((Ascii (false,
    true, false, false, true, true, false, false)), (String ((Ascii (true,
    true, true, false, false, false, true, false)), (String ((Ascii (true,
    true, false, false, false, false, true, false)), (String ((Ascii (true,
    false, true, true, false, false, true, false)),
    EmptyString)))))))))))))), (Zpos (Coq_xO Coq_xH))) :: (((String ((Ascii
    (true, false, false, false, false, false, true, false)), (String ((Ascii
    (false, true, false, false, true, true, false, false)), (String ((Ascii
    (true, false, true, false, true, true, false, false)), (String ((Ascii
    (false, true, true, false, true, true, false, false)), (String ((Ascii
    (true, true, true, false, false, false, true, false)), (String ((Ascii
    (true, true, false, false, false, false, true, false)), (String ((Ascii
    (true, false, true, true, false, false, true, false)),
    EmptyString)))))))))))))), (Zpos (Coq_xI Coq_xH))) :: (((String ((Ascii
    (false, false, false, true, false, false, true, false)), (String ((Ascii
    (true, false, true, true, false, false, true, false)), (String ((Ascii
    (true, false, false, false, false, false, true, false)), (String ((Ascii
    (true, true, false, false, false, false, true, false)), (String ((Ascii
    (true, true, true, true, true, false, true, false)), (String ((Ascii
    (false, true, false, false, true, true, false, false)), (String ((Ascii
    (true, false, true, false, true, true, false, false)), (String ((Ascii
    (false, true, true, false, true, true, false, false)), (String ((Ascii
    (true, true, true, true, true, false, true, false)), (String ((Ascii
    (false, true, true, false, true, true, false, false)), (String ((Ascii
    (false, false, true, false, true, true, false, false)),
    EmptyString)))))))))))))))))))))), (Zpos (Coq_xO (Coq_xO
    Coq_xH)))) :: (((String ((Ascii (false, false, false, true, false, false,
    true, false)), (String ((Ascii (true, false, true, true, false, false,
    true, false)), (String ((Ascii (true, false, false, false, false, false,
    true, false)), (String ((Ascii (true, true, false, false, false, false,
    true, false)), (String ((Ascii (true, true, true, true, true, false,
    true, false)), (String ((Ascii (false, true, false, false, true, true,
    false, false)), (String ((Ascii (true, false, true, false, true, true,
    false, false)), (String ((Ascii (false, true, true, false, true, true,
    false, false)), (String ((Ascii (true, true, true, true, true, false,
    true, false)), (String ((Ascii (false, true, false, false, true, true,
    false, false)), (String ((Ascii (true, false, true, false, true, true,
    false, false)), (String ((Ascii (false, true, true, false, true, true,
    false, false)), EmptyString)))))))))))))))))))))))), (Zpos (Coq_xI
    (Coq_xO Coq_xH)))) :: (((String ((Ascii (false, false, false, true,
    false, false, true, false)), (String ((Ascii (true, false, true, true,
    false, false, true, false)), (String ((Ascii (true, false, false, false,
    false, false, true, false)), (String ((Ascii (true, true, false, false,
    false, false, true, false)), (String ((Ascii (true, true, true, true,
    true, false, true, false)), (String ((Ascii (true, true, false, false,
    true, true, false, false)), (String ((Ascii (false, false, false, true,
    true, true, false, false)), (String ((Ascii (false, false, true, false,
    true, true, false, false)), (String ((Ascii (true, true, true, true,
    true, false, true, false)), (String ((Ascii (true, true, false, false,
    true, true, false, false)), (String ((Ascii (false, false, false, true,
    true, true, false, false)), (String ((Ascii (false, false, true, false,
    true, true, false, false)), EmptyString)))))))))))))))))))))))), (Zpos
    (Coq_xO (Coq_xI Coq_xH)))) :: (((String ((Ascii (false, false, false,
    true, false, false, true, false)), (String ((Ascii (true, false, true,
    true, false, false, true, false)), (String ((Ascii (true, false, false,
    false, false, false, true, false)), (String ((Ascii (true, true, false,
    false, false, false, true, false)), (String ((Ascii (true, true, true,
    true, true, false, true, false)), (String ((Ascii (true, false, true,
    false, true, true, false, false)), (String ((Ascii (true, false, false,
    false, true, true, false, false)), (String ((Ascii (false, true, false,
    false, true, true, false, false)), (String ((Ascii (true, true, true,
    true, true, false, true, false)), (String ((Ascii (true, false, true,
    false, true, true, false, false)), (String ((Ascii (true, false, false,
    false, true, true, false, false)), (String ((Ascii (false, true, false,
    false, true, true, false, false)), EmptyString)))))))))))))))))))))))),
    (Zpos (Coq_xI (Coq_xI Coq_xH)))) :: (((String ((Ascii (true, false,
    false, false, false, false, true, false)), (String ((Ascii (true, false,
    true, false, false, false, true, false)), (String ((Ascii (true, true,
    false, false, true, false, true, false)), (String ((Ascii (true, true,
    true, true, true, false, true, false)), (String ((Ascii (true, true,
    false, false, false, false, true, false)), (String ((Ascii (true, true,
    false, false, false, false, true, false)), (String ((Ascii (true, false,
    true, true, false, false, true, false)), (String ((Ascii (true, true,
    true, true, true, false, true, false)), (String ((Ascii (true, false,
    false, false, true, true, false, false)), (String ((Ascii (false, true,
    true, false, true, true, false, false)), (String ((Ascii (true, true,
    true, true, true, false, true, false)), (String ((Ascii (false, true,
    true, false, true, true, false, false)), (String ((Ascii (false, false,
    true, false, true, true, false, false)), (String ((Ascii (true, true,
    true, true, true, false, true, false)), (String ((Ascii (true, false,
    false, false, true, true, false, false)), (String ((Ascii (false, true,
    false, false, true, true, false, false)), (String ((Ascii (false, false,
    false, true, true, true, false, false)),
    EmptyString)))))))))))))))))))))))))))))))))), (Zpos (Coq_xO (Coq_xI
    (Coq_xO Coq_xH))))) :: (((String ((Ascii (true, false, false, false,
    false, false, true, false)), (String ((Ascii (true, false, true, false,
    false, false, true, false)), (String ((Ascii (true, true, false, false,
    true, false, true, false)), (String ((Ascii (true, true, true, true,
    true, false, true, false)), (String ((Ascii (true, true, false, false,
    false, false, true, false)), (String ((Ascii (true, true, false, false,
    false, false, true, false)), (String ((Ascii (true, false, true, true,
    false, false, true, false)), (String ((Ascii (true, true, true, true,
    true, false, true, false)), (String ((Ascii (true, false, false, false,
    true, true, false, false)), (String ((Ascii (false, true, true, false,
    true, true, false, false)), (String ((Ascii (true, true, true, true,
    true, false, true, false)), (String ((Ascii (false, true, true, false,
    true, true, false, false)), (String ((Ascii (false, false, true, false,
    true, true, false, false)), (String ((Ascii (true, true, true, true,
    true, false, true, false)), (String ((Ascii (false, true, false, false,
    true, true, false, false)), (String ((Ascii (true, false, true, false,
    true, true, false, false)), (String ((Ascii (false, true, true, false,
    true, true, false, false)),
    EmptyString)))))))))))))))))))))))))))))))))), (Zpos (Coq_xI (Coq_xI
    (Coq_xO Coq_xH))))) :: (((String ((Ascii (true, false, false, false,
    false, false, true, false)), (String ((Ascii (true, false, true, false,
    false, false, true, false)), (String ((Ascii (true, true, false, false,
    true, false, true, false)), (String ((Ascii (true, true, true, true,
    true, false, true, false)), (String ((Ascii (true, true, false, false,
    false, false, true, false)), (String ((Ascii (true, true, false, false,
    false, false, true, false)), (String ((Ascii (true, false, true, true,
    false, false, true, false)), (String ((Ascii (true, true, true, true,
    true, false, true, false)), (String ((Ascii (false, true, true, false,
    true, true, false, false)), (String ((Ascii (false, false, true, false,
    true, true, false, false)), (String ((Ascii (true, true, true, true,
    true, false, true, false)), (String ((Ascii (false, true, true, false,
    true, true, false, false)), (String ((Ascii (false, false, true, false,
    true, true, false, false)), (String ((Ascii (true, true, true, true,
    true, false, true, false)), (String ((Ascii (true, false, false, false,
    true, true, false, false)), (String ((Ascii (false, true, false, false,
    true, true, false, false)), (String ((Ascii (false, false, false, true,
    true, true, false, false)),
    EmptyString)))))))))))))))))))))))))))))))))), (Zpos (Coq_xO (Coq_xO
    (Coq_xI Coq_xH))))) :: (((String ((Ascii (true, false, false, false,
    false, false, true, false)), (String ((Ascii (true, false, true, false,
    false, false, true, false)), (String ((Ascii (true, true, false, false,
    true, false, true, false)), (String ((Ascii (true, true, true, true,
    true, false, true, false)), (String ((Ascii (true, true, false, false,
    false, false, true, false)), (String ((Ascii (true, true, false, false,
    false, false, true, false)), (String ((Ascii (true, false, true, true,
    false, false, true, false)), (String ((Ascii (true, true, true, true,
    true, false, true, false)), (String ((Ascii (false, true, true, false,
    true, true, false, false)), (String ((Ascii (false, false, true, false,
    true, true, false, false)), (String ((Ascii (true, true, true, true,
    true, false, true, false)), (String ((Ascii (false, true, true, false,
    true, true, false, false)), (String ((Ascii (false, false, true, false,
    true, true, false, false)), (String ((Ascii (true, true, true, true,
    true, false, true, false)), (String ((Ascii (false, true, false, false,
    true, true, false, false)), (String ((Ascii (true, false, true, false,
    true, true, false, false)), (String ((Ascii (false, true, true, false,
    true, true, false, false)),
    EmptyString)))))))))))))))))))))))))))))))))), (Zpos (Coq_xI (Coq_xO
    (Coq_xI Coq_xH))))) :: (((String ((Ascii (true, false, false, false,
    false, false, true, false)), (String ((Ascii (true, false, true, false,
    false, false, true, false)), (String ((Ascii (true, true, false, false,
    true, false, true, false)), (String ((Ascii (true, true, true, true,
    true, false, true, false)), (String ((Ascii (true, false, true, true,
    false, false, true, false)), (String ((Ascii (true, false, false, false,
    false, false, true, false)), (String ((Ascii (true, true, false, false,
    false, false, true, false)), (String ((Ascii (true, true, true, true,
    true, false, true, false)), (String ((Ascii (true, false, false, false,
    true, true, false, false)), (String ((Ascii (false, true, false, false,
    true, true, false, false)), (String ((Ascii (false, false, false, true,
    true, true, false, false)), (String ((Ascii (true, true, true, true,
    true, false, true, false)), (String ((Ascii (false, true, true, false,
    true, true, false, false)), (String ((Ascii (false, false, true, false,
    true, true, false, false)), EmptyString)))))))))))))))))))))))))))),
    (Zpos (Coq_xO (Coq_xI (Coq_xI Coq_xH))))) :: (((String ((Ascii (true,
    false, false, false, false, false, true, false)), (String ((Ascii (true,
    false, true, false, false, false, true, false)), (String ((Ascii (true,
    true, false, false, true, false, true, false)), (String ((Ascii (true,
    true, true, true, true, false, true, false)), (String ((Ascii (true,
    false, true, true, false, false, true, false)), (String ((Ascii (true,
    false, false, false, false, false, true, false)), (String ((Ascii (true,
    true, false, false, false, false, true, false)), (String ((Ascii (true,
    true, true, true, true, false, true, false)), (String ((Ascii (false,
    true, false, false, true, true, false, false)), (String ((Ascii (true,
    false, true, false, true, true, false, false)), (String ((Ascii (false,
    true, true, false, true, true, false, false)), (String ((Ascii (true,
    true, true, true, true, false, true, false)), (String ((Ascii (false,
    true, true, false, true, true, false, false)), (String ((Ascii (false,
    false, true, false, true, true, false, false)),
    EmptyString)))))))))))))))))))))))))))), (Zpos (Coq_xI (Coq_xI (Coq_xI
    Coq_xH))))) :: (((String ((Ascii (true, true, false, false, false, false,
    true, false)), (String ((Ascii (false, false, false, true, false, true,
    true, false)), (String ((Ascii (true, false, false, false, false, true,
    true, false)), (String ((Ascii (true, true, false, false, false, false,
    true, false)), (String ((Ascii (false, false, false, true, false, true,
    true, false)), (String ((Ascii (true, false, false, false, false, true,
    true, false)), (String ((Ascii (false, true, false, false, true, true,
    false, false)), (String ((Ascii (false, false, false, false, true, true,
    false, false)), (String ((Ascii (false, false, false, false, true, false,
    true, false)), (String ((Ascii (true, true, true, true, false, true,
    true, false)), (String ((Ascii (false, false, true, true, false, true,
    true, false)), (String ((Ascii (true, false, false, true, true, true,
    true, false)), (String ((Ascii (true, false, false, false, true, true,
    false, false)), (String ((Ascii (true, true, false, false, true, true,
    false, false)), (String ((Ascii (false, false, false, false, true, true,
    false, false)), (String ((Ascii (true, false, true, false, true, true,
    false, false)), EmptyString)))))))))))))))))))))))))))))))), (Zpos
    (Coq_xO (Coq_xO (Coq_xO (Coq_xI Coq_xH)))))) :: (((String ((Ascii (true,
    false, false, false, false, false, true, false)), (String ((Ascii (true,
    false, true, false, false, false, true, false)), (String ((Ascii (true,
    true, false, false, true, false, true, false)), (String ((Ascii (true,
    true, true, true, true, false, true, false)), (String ((Ascii (true,
    false, true, true, false, false, true, false)), (String ((Ascii (true,
    false, false, false, false, false, true, false)), (String ((Ascii (true,
    true, false, false, false, false, true, false)), (String ((Ascii (true,
    true, true, true, true, false, true, false)), (String ((Ascii (true,
    false, false, false, true, true, false, false)), (String ((Ascii (false,
    true, false, false, true, true, false, false)), (String ((Ascii (false,
    false, false, true, true, true, false, false)), (String ((Ascii (true,
    true, true, true, true, false, true, false)), (String ((Ascii (true,
    false, false, false, true, true, false, false)), (String ((Ascii (false,
    true, false, false, true, true, false, false)), (String ((Ascii (false,
    false, false, true, true, true, false, false)),
    EmptyString)))))))))))))))))))))))))))))), (Zpos (Coq_xI (Coq_xO (Coq_xO
    (Coq_xI Coq_xH)))))) :: (((String ((Ascii (true, false, false, false,
    false, false, true, false)), (String ((Ascii (true, false, true, false,
    false, false, true, false)), (String ((Ascii (true, true, false, false,
    true, false, true, false)), (String ((Ascii (true, true, true, true,
    true, false, true, false)), (String ((Ascii (true, false, true, true,
    false, false, true, false)), (String ((Ascii (true, false, false, false,
    false, false, true, false)), (String ((Ascii (true, true, false, false,
    false, false, true, false)), (String ((Ascii (true, true, true, true,
    true, false, true, false)), (String ((Ascii (false, true, false, false,
    true, true, false, false)), (String ((Ascii (true, false, true, false,
    true, true, false, false)), (String ((Ascii (false, true, true, false,
    true, true, false, false)), (String ((Ascii (true, true, true, true,
    true, false, true, false)), (String ((Ascii (true, false, false, false,
    true, true, false, false)), (String ((Ascii (false, true, false, false,
    true, true, false, false)), (String ((Ascii (false, false, false, true,
    true, true, false, false)), EmptyString)))))))))))))))))))))))))))))),
    (Zpos (Coq_xO (Coq_xI (Coq_xO (Coq_xI Coq_xH)))))) :: (((String ((Ascii
    (true, false, false, false, false, false, true, false)), (String ((Ascii
    (true, false, true, false, false, false, true, false)), (String ((Ascii
    (true, true, false, false, true, false, true, false)), (String ((Ascii
    (true, true, true, true, true, false, true, false)), (String ((Ascii
    (true, true, false, false, false, false, true, false)), (String ((Ascii
    (true, true, false, false, false, false, true, false)), (String ((Ascii
    (true, false, true, true, false, false, true, false)), (String ((Ascii
    (true, true, true, true, true, false, true, false)), (String ((Ascii
    (true, false, false, false, true, true, false, false)), (String ((Ascii
    (false, true, true, false, true, true, false, false)), (String ((Ascii
    (true, true, true, true, true, false, true, false)), (String ((Ascii
    (true, false, false, false, true, true, false, false)), (String ((Ascii
    (false, true, false, false, true, true, false, false)), (String ((Ascii
    (false, false, false, true, true, true, false, false)), (String ((Ascii
    (true, true, true, true, true, false, true, false)), (String ((Ascii
    (true, false, false, false, true, true, false, false)), (String ((Ascii
    (false, true, false, false, true, true, false, false)), (String ((Ascii
    (false, false, false, true, true, true, false, false)),
    EmptyString)))))))))))))))))))))))))))))))))))), (Zpos (Coq_xO (Coq_xI
    (Coq_xI (Coq_xI Coq_xH)))))) :: (((String ((Ascii (true, false, false,
    false, false, false, true, false)), (String ((Ascii (true, false, true,
    false, false, false, true, false)), (String ((Ascii (true, true, false,
    false, true, false, true, false)), (String ((Ascii (true, true, true,
    true, true, false, true, false)), (String ((Ascii (true, true, false,
    false, false, false, true, false)), (String ((Ascii (true, true, false,
    false, false, false, true, false)), (String ((Ascii (true, false, true,
    true, false, false, true, false)), (String ((Ascii (true, true, true,
    true, true, false, true, false)), (String ((Ascii (true, false, false,
    false, true, true, false, false)), (String ((Ascii (false, true, true,
    false, true, true, false, false)), (String ((Ascii (true, true, true,
    true, true, false, true, false)), (String ((Ascii (true, false, false,
    false, true, true, false, false)), (String ((Ascii (false, true, false,
    false, true, true, false, false)), (String ((Ascii (false, false, false,
    true, true, true, false, false)), (String ((Ascii (true, true, true,
    true, true, false, true, false)), (String ((Ascii (false, true, false,
    false, true, true, false, false)), (String ((Ascii (true, false, true,
    false, true, true, false, false)), (String ((Ascii (false, true, true,
    false, true, true, false, false)),
    EmptyString)))))))))))))))))))))))))))))))))))), (Zpos (Coq_xI (Coq_xI
    (Coq_xI (Coq_xI Coq_xH)))))) :: (((String ((Ascii (true, false, false,
    false, false, false, true, false)), (String ((Ascii (true, false, true,
    false, false, false, true, false)), (String ((Ascii (true, true, false,
    false, true, false, true, false)), (String ((Ascii (true, true, true,
    true, true, false, true, false)), (String ((Ascii (true, true, false,
    false, false, false, true, false)), (String ((Ascii (true, true, false,
    false, false, false, true, false)), (String ((Ascii (true, false, true,
    true, false, false, true, false)), (String ((Ascii (true, true, true,
    true, true, false, true, false)), (String ((Ascii (false, true, true,
    false, true, true, false, false)), (String ((Ascii (false, false, true,
    false, true, true, false, false)), (String ((Ascii (true, true, true,
    true, true, false, true, false)), (String ((Ascii (true, false, false,
    false, true, true, false, false)), (String ((Ascii (false, true, false,
    false, true, true, false, false)), (String ((Ascii (false, false, false,
    true, true, true, false, false)), (String ((Ascii (true, true, true,
    true, true, false, true, false)), (String ((Ascii (true, false, false,
    false, true, true, false, false)), (String ((Ascii (false, true, false,
    false, true, true, false, false)), (String ((Ascii (false, false, false,
    true, true, true, false, false)),
    EmptyString)))))))))))))))))))))))))))))))))))), (Zpos (Coq_xO (Coq_xO
    (Coq_xO (Coq_xO (Coq_xO Coq_xH))))))) :: (((String ((Ascii (true, false,
    false, false, false, false, true, false)), (String ((Ascii (true, false,
    true, false, false, false, true, false)), (String ((Ascii (true, true,
    false, false, true, false, true, false)), (String ((Ascii (true, true,
    true, true, true, false, true, false)), (String ((Ascii (true, true,
    false, false, false, false, true, false)), (String ((Ascii (true, true,
    false, false, false, false, true, false)), (String ((Ascii (true, false,
    true, true, false, false, true, false)), (String ((Ascii (true, true,
    true, true, true, false, true, false)), (String ((Ascii (false, true,
    true, false, true, true, false, false)), (String ((Ascii (false, false,
    true, false, true, true, false, false)), (String ((Ascii (true, true,
    true, true, true, false, true, false)), (String ((Ascii (true, false,
    false, false, true, true, false, false)), (String ((Ascii (false, true,
    false, false, true, true, false, false)), (String ((Ascii (false, false,
    false, true, true, true, false, false)), (String ((Ascii (true, true,
    true, true, true, false, true, false)), (String ((Ascii (false, true,
    false, false, true, true, false, false)), (String ((Ascii (true, false,
    true, false, true, true, false, false)), (String ((Ascii (false, true,
    true, false, true, true, false, false)),
    EmptyString)))))))))))))))))))))))))))))))))))), (Zpos (Coq_xI (Coq_xO
    (Coq_xO (Coq_xO (Coq_xO Coq_xH))))))) :: (((String ((Ascii (true, false,
    false, true, false, false, true, false)), (String ((Ascii (false, true,
    true, false, true, false, true, false)), (String ((Ascii (true, true,
    true, true, true, false, true, false)), (String ((Ascii (true, true,
    true, false, false, false, true, false)), (String ((Ascii (true, false,
    true, false, false, false, true, false)), (String ((Ascii (false, true,
    true, true, false, false, true, false)), (String ((Ascii (true, false,
    true, false, false, false, true, false)), (String ((Ascii (false, true,
    false, false, true, false, true, false)), (String ((Ascii (true, false,
    false, false, false, false, true, false)), (String ((Ascii (false, false,
    true, false, true, false, true, false)), (String ((Ascii (true, false,
    false, true, false, false, true, false)), (String ((Ascii (true, true,
    true, true, false, false, true, false)), (String ((Ascii (false, true,
    true, true, false, false, true, false)),
    EmptyString)))))))))))))))))))))))))), (Zpos (Coq_xO (Coq_xI (Coq_xO
    (Coq_xO (Coq_xO
    Coq_xH))))))) :: []))))))))))))))))))))))))))))))))))))))))))))))))))))))))))))))))

(** val coq_KeyParameter_table : (string * coq_Z) list **)

let coq_KeyParameter_table =
  ((String ((Ascii (false, true, false, false, true, false, true, false)),
    (String ((Ascii (true, false, true, false, false, true, true, false)),
    (String ((Ascii (true, true, false, false, true, true, true, false)),
    (String ((Ascii (true, false, true, false, false, true, true, false)),
    (String ((Ascii (false, true, false, false, true, true, true, false)),
    (String ((Ascii (false, true, true, false, true, true, true, false)),
    (String ((Ascii (true, false, true, false, false, true, true, false)),
    (String ((Ascii (false, false, true, false, false, true, true, false)),
    EmptyString)))))))))))))))), Z0) :: (((String ((Ascii (true, true, false,
    true, false, false, true, false)), (String ((Ascii (false, false, true,
    false, true, true, true, false)), (String ((Ascii (true, false, false,
    true, true, true, true, false)), EmptyString)))))), (Zpos
    Coq_xH)) :: (((String ((Ascii (true, true, false, true, false, false,
    true, false)), (String ((Ascii (true, false, false, true, false, true,
    true, false)), (String ((Ascii (false, false, true, false, false, true,
    true, false)), EmptyString)))))), (Zpos (Coq_xO Coq_xH))) :: (((String
    ((Ascii (true, false, false, false, false, false, true, false)), (String
    ((Ascii (false, false, true, true, false, true, true, false)), (String
    ((Ascii (true, true, true, false, false, true, true, false)),
    EmptyString)))))), (Zpos (Coq_xI Coq_xH))) :: (((String ((Ascii (true,
    true, false, true, false, false, true, false)), (String ((Ascii (true,
    false, true, false, false, true, true, false)), (String ((Ascii (true,
    false, false, true, true, true, true, false)), (String ((Ascii (true,
    true, true, true, false, false, true, false)), (String ((Ascii (false,
    false, false, false, true, true, true, false)), (String ((Ascii (true,
    true, false, false, true, true, true, false)), EmptyString)))))))))))),
    (Zpos (Coq_xO (Coq_xO Coq_xH)))) :: (((String ((Ascii (false, true,
    false, false, false, false, true, false)), (String ((Ascii (true, false,
    false, false, false, true, true, false)), (String ((Ascii (true, true,
    false, false, true, true, true, false)), (String ((Ascii (true, false,
    true, false, false, true, true, false)), (String ((Ascii (true, false,
    false, true, false, false, true, false)), (String ((Ascii (false, true,
    true, false, true, true, true, false)), EmptyString)))))))))))), (Zpos
    (Coq_xI (Coq_xO Coq_xH)))) :: [])))))

(** val coq_OkpKeyParameter_table : (string * coq_Z) list **)

let coq_OkpKeyParameter_table =
  ((String ((Ascii (true, true, false, false, false, false, true, false)),
    (String ((Ascii (false, true, false, false, true, true, true, false)),
    (String ((Ascii (false, true, true, false, true, true, true, false)),
    EmptyString)))))), (Zneg Coq_xH)) :: (((String ((Ascii (false, false,
    false, true, true, false, true, false)), EmptyString)), (Zneg (Coq_xO
    Coq_xH))) :: (((String ((Ascii (false, false, true, false, false, false,
    true, false)), EmptyString)), (Zneg (Coq_xO (Coq_xO Coq_xH)))) :: []))

(** val coq_Ec2KeyParameter_table : (string * coq_Z) list **)

let coq_Ec2KeyParameter_table =
  ((String ((Ascii (true, true, false, false, false, false, true, false)),
    (String ((Ascii (false, true, false, false, true, true, true, false)),
    (String ((Ascii (false, true, true, false, true, true, true, false)),
    EmptyString)))))), (Zneg Coq_xH)) :: (((String ((Ascii (false, false,
    false, true, true, false, true, false)), EmptyString)), (Zneg (Coq_xO
    Coq_xH))) :: (((String ((Ascii (true, false, false, true, true, false,
    true, false)), EmptyString)), (Zneg (Coq_xI Coq_xH))) :: (((String
    ((Ascii (false, false, true, false, false, false, true, false)),
    EmptyString)), (Zneg (Coq_xO (Coq_xO Coq_xH)))) :: [])))

(** val coq_RsaKeyParameter_table : (string * coq_Z) list **)

let coq_RsaKeyParameter_table =
  ((String ((Ascii (false, true, true, true, false, false, true, false)),
    EmptyString)), (Zneg Coq_xH)) :: (((String ((Ascii (true, false, true,
    false, false, false, true, false)), EmptyString)), (Zneg (Coq_xO
    Coq_xH))) :: (((String ((Ascii (false, false, true, false, false, false,
    true, false)), EmptyString)), (Zneg (Coq_xI Coq_xH))) :: (((String
    ((Ascii (false, false, false, false, true, false, true, false)),
    EmptyString)), (Zneg (Coq_xO (Coq_xO Coq_xH)))) :: (((String ((Ascii
    (true, false, false, false, true, false, true, false)), EmptyString)),
    (Zneg (Coq_xI (Coq_xO Coq_xH)))) :: (((String ((Ascii (false, false,
    true, false, false, false, true, false)), (String ((Ascii (false, false,
    false, false, true, false, true, false)), EmptyString)))), (Zneg (Coq_xO
    (Coq_xI Coq_xH)))) :: (((String ((Ascii (false, false, true, false,
    false, false, true, false)), (String ((Ascii (true, false, false, false,
    true, false, true, false)), EmptyString)))), (Zneg (Coq_xI (Coq_xI
    Coq_xH)))) :: (((String ((Ascii (true, false, false, false, true, false,
    true, false)), (String ((Ascii (true, false, false, true, false, false,
    true, false)), (String ((Ascii (false, true, true, true, false, true,
    true, false)), (String ((Ascii (false, true, true, false, true, true,
    true, false)), EmptyString)))))))), (Zneg (Coq_xO (Coq_xO (Coq_xO
    Coq_xH))))) :: (((String ((Ascii (true, true, true, true, false, false,
    true, false)), (String ((Ascii (false, false, true, false, true, true,
    true, false)), (String ((Ascii (false, false, false, true, false, true,
    true, false)), (String ((Ascii (true, false, true, false, false, true,
    true, false)), (String ((Ascii (false, true, false, false, true, true,
    true, false)), EmptyString)))))))))), (Zneg (Coq_xI (Coq_xO (Coq_xO
    Coq_xH))))) :: (((String ((Ascii (false, true, false, false, true, false,
    true, false)), (String ((Ascii (true, false, false, true, false, false,
    true, false)), EmptyString)))), (Zneg (Coq_xO (Coq_xI (Coq_xO
    Coq_xH))))) :: (((String ((Ascii (false, false, true, false, false,
    false, true, false)), (String ((Ascii (true, false, false, true, false,
    false, true, false)), EmptyString)))), (Zneg (Coq_xI (Coq_xI (Coq_xO
    Coq_xH))))) :: (((String ((Ascii (false, false, true, false, true, false,
    true, false)), (String ((Ascii (true, false, false, true, false, false,
    true, false)), EmptyString)))), (Zneg (Coq_xO (Coq_xO (Coq_xI
    Coq_xH))))) :: [])))))))))))

(** val coq_SymmetricKeyParameter_table : (string * coq_Z) list **)

let coq_SymmetricKeyParameter_table =
  ((String ((Ascii (true, true, false, true, false, false, true, false)),
    EmptyString)), (Zneg Coq_xH)) :: []

(** val coq_HssLmsKeyParameter_table : (string * coq_Z) list **)

let coq_HssLmsKeyParameter_table =
  ((String ((Ascii (false, false, false, false, true, false, true, false)),
    (String ((Ascii (true, false, true, false, true, true, true, false)),
    (String ((Ascii (false, true, false, false, false, true, true, false)),
    EmptyString)))))), (Zneg Coq_xH)) :: []

(** val coq_WalnutDsaKeyParameter_table : (string * coq_Z) list **)

let coq_WalnutDsaKeyParameter_table =
  ((String ((Ascii (false, true, true, true, false, false, true, false)),
    EmptyString)), (Zneg Coq_xH)) :: (((String ((Ascii (true, false, false,
    false, true, false, true, false)), EmptyString)), (Zneg (Coq_xO
    Coq_xH))) :: (((String ((Ascii (false, false, true, false, true, false,
    true, false)), (String ((Ascii (false, true, true, false, true, false,
    true, false)), (String ((Ascii (true, false, false, false, false, true,
    true, false)), (String ((Ascii (false, false, true, true, false, true,
    true, false)), (String ((Ascii (true, false, true, false, true, true,
    true, false)), (String ((Ascii (true, false, true, false, false, true,
    true, false)), (String ((Ascii (true, true, false, false, true, true,
    true, false)), EmptyString)))))))))))))), (Zneg (Coq_xI
    Coq_xH))) :: (((String ((Ascii (true, false, true, true, false, false,
    true, false)), (String ((Ascii (true, false, false, false, false, true,
    true, false)), (String ((Ascii (false, false, true, false, true, true,
    true, false)), (String ((Ascii (false, true, false, false, true, true,
    true, false)), (String ((Ascii (true, false, false, true, false, true,
    true, false)), (String ((Ascii (false, false, false, true, true, true,
    true, false)), (String ((Ascii (true, false, false, false, true, true,
    false, false)), EmptyString)))))))))))))), (Zneg (Coq_xO (Coq_xO
    Coq_xH)))) :: (((String ((Ascii (false, false, false, false, true, false,
    true, false)), (String ((Ascii (true, false, true, false, false, true,
    true, false)), (String ((Ascii (false, true, false, false, true, true,
    true, false)), (String ((Ascii (true, false, true, true, false, true,
    true, false)), (String ((Ascii (true, false, true, false, true, true,
    true, false)), (String ((Ascii (false, false, true, false, true, true,
    true, false)), (String ((Ascii (true, false, false, false, false, true,
    true, false)), (String ((Ascii (false, false, true, false, true, true,
    true, false)), (String ((Ascii (true, false, false, true, false, true,
    true, false)), (String ((Ascii (true, true, true, true, false, true,
    true, false)), (String ((Ascii (false, true, true, true, false, true,
    true, false)), (String ((Ascii (true, false, false, false, true, true,
    false, false)), EmptyString)))))))))))))))))))))))), (Zneg (Coq_xI
    (Coq_xO Coq_xH)))) :: (((String ((Ascii (true, false, true, true, false,
    false, true, false)), (String ((Ascii (true, false, false, false, false,
    true, true, false)), (String ((Ascii (false, false, true, false, true,
    true, true, false)), (String ((Ascii (false, true, false, false, true,
    true, true, false)), (String ((Ascii (true, false, false, true, false,
    true, true, false)), (String ((Ascii (false, false, false, true, true,
    true, true, false)), (String ((Ascii (false, true, false, false, true,
    true, false, false)), EmptyString)))))))))))))), (Zneg (Coq_xO (Coq_xI
    Coq_xH)))) :: [])))))

(** val coq_KeyType_table : (string * coq_Z) list **)

let coq_KeyType_table =
  ((String ((Ascii (false, true, false, false, true, false, true, false)),
    (String ((Ascii (true, false, true, false, false, true, true, false)),
    (String ((Ascii (true, true, false, false, true, true, true, false)),
    (String ((Ascii (true, false, true, false, false, true, true, false)),
    (String ((Ascii (false, true, false, false, true, true, true, false)),
    (String ((Ascii (false, true, true, false, true, true, true, false)),
    (String ((Ascii (true, false, true, false, false, true, true, false)),
    (String ((Ascii (false, false, true, false, false, true, true, false)),
    EmptyString)))))))))))))))), Z0) :: (((String ((Ascii (true, true, true,
    true, false, false, true, false)), (String ((Ascii (true, true, false,
    true, false, false, true, false)), (String ((Ascii (false, false, false,
    false, true, false, true, false)), EmptyString)))))), (Zpos
    Coq_xH)) :: (((String ((Ascii (true, false, true, false, false, false,
    true, false)), (String ((Ascii (true, true, false, false, false, false,
    true, false)), (String ((Ascii (false, true, false, false, true, true,
    false, false)), EmptyString)))))), (Zpos (Coq_xO Coq_xH))) :: (((String
    ((Ascii (false, true, false, false, true, false, true, false)), (String
    ((Ascii (true, true, false, false, true, false, true, false)), (String
    ((Ascii (true, false, false, false, false, false, true, false)),
    EmptyString)))))), (Zpos (Coq_xI Coq_xH))) :: (((String ((Ascii (true,
    true, false, false, true, false, true, false)), (String ((Ascii (true,
    false, false, true, true, true, true, false)), (String ((Ascii (true,
    false, true, true, false, true, true, false)), (String ((Ascii (true,
    false, true, true, false, true, true, false)), (String ((Ascii (true,
    false, true, false, false, true, true, false)), (String ((Ascii (false,
    false, true, false, true, true, true, false)), (String ((Ascii (false,
    true, false, false, true, true, true, false)), (String ((Ascii (true,
    false, false, true, false, true, true, false)), (String ((Ascii (true,
    true, false, false, false, true, true, false)),
    EmptyString)))))))))))))))))), (Zpos (Coq_xO (Coq_xO
    Coq_xH)))) :: (((String ((Ascii (false, false, false, true, false, false,
    true, false)), (String ((Ascii (true, true, false, false, true, false,
    true, false)), (String ((Ascii (true, true, false, false, true, false,
    true, false)), (String ((Ascii (true, true, true, true, true, false,
    true, false)), (String ((Ascii (false, false, true, true, false, false,
    true, false)), (String ((Ascii (true, false, true, true, false, false,
    true, false)), (String ((Ascii (true, true, false, false, true, false,
    true, false)), EmptyString)))))))))))))), (Zpos (Coq_xI (Coq_xO
    Coq_xH)))) :: (((String ((Ascii (true, true, true, false, true, false,
    true, false)), (String ((Ascii (true, false, false, false, false, true,
    true, false)), (String ((Ascii (false, false, true, true, false, true,
    true, false)), (String ((Ascii (false, true, true, true, false, true,
    true, false)), (String ((Ascii (true, false, true, false, true, true,
    true, false)), (String ((Ascii (false, false, true, false, true, true,
    true, false)), (String ((Ascii (false, false, true, false, false, false,
    true, false)), (String ((Ascii (true, true, false, false, true, false,
    true, false)), (String ((Ascii (true, false, false, false, false, false,
    true, false)), EmptyString)))))))))))))))))), (Zpos (Coq_xO (Coq_xI
    Coq_xH)))) :: []))))))

(** val coq_EllipticCurve_table : (string * coq_Z) list **)

let coq_EllipticCurve_table =
  ((String ((Ascii (false, true, false, false, true, false, true, false)),
    (String ((Ascii (true, false, true, false, false, true, true, false)),
    (String ((Ascii (true, true, false, false, true, true, true, false)),
    (String ((Ascii (true, false, true, false, false, true, true, false)),
    (String ((Ascii (false, true, false, false, true, true, true, false)),
    (String ((Ascii (false, true, true, false, true, true, true, false)),
    (String ((Ascii (true, false, true, false, false, true, true, false)),
    (String ((Ascii (false, false, true, false, false, true, true, false)),
    EmptyString)))))))))))))))), Z0) :: (((String ((Ascii (false, false,
    false, false, true, false, true, false)), (String ((Ascii (true, true,
    true, true, true, false, true, false)), (String ((Ascii (false, true,
    false, false, true, true, false, false)), (String ((Ascii (true, false,
    true, false, true, true, false, false)), (String ((Ascii (false, true,
    true, false, true, true, false, false)), EmptyString)))))))))), (Zpos
    Coq_xH)) :: (((String ((Ascii (false, false, false, false, true, false,
    true, false)), (String ((Ascii (true, true, true, true, true, false,
    true, false)), (String ((Ascii (true, true, false, false, true, true,
    false, false)), (String ((Ascii (false, false, false, true, true, true,
    false, false)), (String ((Ascii (false, false, true, false, true, true,
    false, false)), EmptyString)))))))))), (Zpos (Coq_xO
    Coq_xH))) :: (((String ((Ascii (false, false, false, false, true, false,
    true, false)), (String ((Ascii (true, true, true, true, true, false,
    true, false)), (String ((Ascii (true, false, true, false, true, true,
    false, false)), (String ((Ascii (false, true, false, false, true, true,
    false, false)), (String ((Ascii (true, false, false, false, true, true,
    false, false)), EmptyString)))))))))), (Zpos (Coq_xI
    Coq_xH))) :: (((String ((Ascii (false, false, false, true, true, false,
    true, false)), (String ((Ascii (false, true, false, false, true, true,
    false, false)), (String ((Ascii (true, false, true, false, true, true,
    false, false)), (String ((Ascii (true, false, true, false, true, true,
    false, false)), (String ((Ascii (true, false, false, false, true, true,
    false, false)), (String ((Ascii (true, false, false, true, true, true,
    false, false)), EmptyString)))))))))))), (Zpos (Coq_xO (Coq_xO
    Coq_xH)))) :: (((String ((Ascii (false, false, false, true, true, false,
    true, false)), (String ((Ascii (false, false, true, false, true, true,
    false, false)), (String ((Ascii (false, false, true, false, true, true,
    false, false)), (String ((Ascii (false, false, false, true, true, true,
    false, false)), EmptyString)))))))), (Zpos (Coq_xI (Coq_xO
    Coq_xH)))) :: (((String ((Ascii (true, false, true, false, false, false,
    true, false)), (String ((Ascii (false, false, true, false, false, true,
    true, false)), (String ((Ascii (false, true, false, false, true, true,
    false, false)), (String ((Ascii (true, false, true, false, true, true,
    false, false)), (String ((Ascii (true, false, true, false, true, true,
    false, false)), (String ((Ascii (true, false, false, false, true, true,
    false, false)), (String ((Ascii (true, false, false, true, true, true,
    false, false)), EmptyString)))))))))))))), (Zpos (Coq_xO (Coq_xI
    Coq_xH)))) :: (((String ((Ascii (true, false, true, false, false, false,
    true, false)), (String ((Ascii (false, false, true, false, false, true,
    true, false)), (String ((Ascii (false, false, true, false, true, true,
    false, false)), (String ((Ascii (false, false, true, false, true, true,
    false, false)), (String ((Ascii (false, false, false, true, true, true,
    false, false)), EmptyString)))))))))), (Zpos (Coq_xI (Coq_xI
    Coq_xH)))) :: (((String ((Ascii (true, true, false, false, true, false,
    true, false)), (String ((Ascii (true, false, true, false, false, true,
    true, false)), (String ((Ascii (true, true, false, false, false, true,
    true, false)), (String ((Ascii (false, false, false, false, true, true,
    true, false)), (String ((Ascii (false, true, false, false, true, true,
    false, false)), (String ((Ascii (true, false, true, false, true, true,
    false, false)), (String ((Ascii (false, true, true, false, true, true,
    false, false)), (String ((Ascii (true, true, false, true, false, true,
    true, false)), (String ((Ascii (true, false, false, false, true, true,
    false, false)), EmptyString)))))))))))))))))), (Zpos (Coq_xO (Coq_xO
    (Coq_xO Coq_xH))))) :: []))))))))

(** val coq_KeyOperation_table : (string * coq_Z) list **)

let coq_KeyOperation_table =
  ((String ((Ascii (true, true, false, false, true, false, true, false)),
    (String ((Ascii (true, false, false, true, false, true, true, false)),
    (String ((Ascii (true, true, true, false, false, true, true, false)),
    (String ((Ascii (false, true, true, true, false, true, true, false)),
    EmptyString)))))))), (Zpos Coq_xH)) :: (((String ((Ascii (false, true,
    true, false, true, false, true, false)), (String ((Ascii (true, false,
    true, false, false, true, true, false)), (String ((Ascii (false, true,
    false, false, true, true, true, false)), (String ((Ascii (true, false,
    false, true, false, true, true, false)), (String ((Ascii (false, true,
    true, false, false, true, true, false)), (String ((Ascii (true, false,
    false, true, true, true, true, false)), EmptyString)))))))))))), (Zpos
    (Coq_xO Coq_xH))) :: (((String ((Ascii (true, false, true, false, false,
    false, true, false)), (String ((Ascii (false, true, true, true, false,
    true, true, false)), (String ((Ascii (true, true, false, false, false,
    true, true, false)), (String ((Ascii (false, true, false, false, true,
    true, true, false)), (String ((Ascii (true, false, false, true, true,
    true, true, false)), (String ((Ascii (false, false, false, false, true,
    true, true, false)), (String ((Ascii (false, false, true, false, true,
    true, true, false)), EmptyString)))))))))))))), (Zpos (Coq_xI
    Coq_xH))) :: (((String ((Ascii (false, false, true, false, false, false,
    true, false)), (String ((Ascii (true, false, true, false, false, true,
    true, false)), (String ((Ascii (true, true, false, false, false, true,
    true, false)), (String ((Ascii (false, true, false, false, true, true,
    true, false)), (String ((Ascii (true, false, false, true, true, true,
    true, false)), (String ((Ascii (false, false, false, false, true, true,
    true, false)), (String ((Ascii (false, false, true, false, true, true,
    true, false)), EmptyString)))))))))))))), (Zpos (Coq_xO (Coq_xO
    Coq_xH)))) :: (((String ((Ascii (true, true, true, false, true, false,
    true, false)), (String ((Ascii (false, true, false, false, true, true,
    true, false)), (String ((Ascii (true, false, false, false, false, true,
    true, false)), (String ((Ascii (false, false, false, false, true, true,
    true, false)), (String ((Ascii (true, true, false, true, false, false,
    true, false)), (String ((Ascii (true, false, true, false, false, true,
    true, false)), (String ((Ascii (true, false, false, true, true, true,
    true, false)), EmptyString)))))))))))))), (Zpos (Coq_xI (Coq_xO
    Coq_xH)))) :: (((String ((Ascii (true, false, true, false, true, false,
    true, false)), (String ((Ascii (false, true, true, true, false, true,
    true, false)), (String ((Ascii (true, true, true, false, true, true,
    true, false)), (String ((Ascii (false, true, false, false, true, true,
    true, false)), (String ((Ascii (true, false, false, false, false, true,
    true, false)), (String ((Ascii (false, false, false, false, true, true,
    true, false)), (String ((Ascii (true, true, false, true, false, false,
    true, false)), (String ((Ascii (true, false, true, false, false, true,
    true, false)), (String ((Ascii (true, false, false, true, true, true,
    true, false)), EmptyString)))))))))))))))))), (Zpos (Coq_xO (Coq_xI
    Coq_xH)))) :: (((String ((Ascii (false, false, true, false, false, false,
    true, false)), (String ((Ascii (true, false, true, false, false, true,
    true, false)), (String ((Ascii (false, true, false, false, true, true,
    true, false)), (String ((Ascii (true, false, false, true, false, true,
    true, false)), (String ((Ascii (false, true, true, false, true, true,
    true, false)), (String ((Ascii (true, false, true, false, false, true,
    true, false)), (String ((Ascii (true, true, false, true, false, false,
    true, false)), (String ((Ascii (true, false, true, false, false, true,
    true, false)), (String ((Ascii (true, false, false, true, true, true,
    true, false)), EmptyString)))))))))))))))))), (Zpos (Coq_xI (Coq_xI
    Coq_xH)))) :: (((String ((Ascii (false, false, true, false, false, false,
    true, false)), (String ((Ascii (true, false, true, false, false, true,
    true, false)), (String ((Ascii (false, true, false, false, true, true,
    true, false)), (String ((Ascii (true, false, false, true, false, true,
    true, false)), (String ((Ascii (false, true, true, false, true, true,
    true, false)), (String ((Ascii (true, false, true, false, false, true,
    true, false)), (String ((Ascii (false, true, false, false, false, false,
    true, false)), (String ((Ascii (true, false, false, true, false, true,
    true, false)), (String ((Ascii (false, false, true, false, true, true,
    true, false)), (String ((Ascii (true, true, false, false, true, true,
    true, false)), EmptyString)))))))))))))))))))), (Zpos (Coq_xO (Coq_xO
    (Coq_xO Coq_xH))))) :: (((String ((Ascii (true, false, true, true, false,
    false, true, false)), (String ((Ascii (true, false, false, false, false,
    true, true, false)), (String ((Ascii (true, true, false, false, false,
    true, true, false)), (String ((Ascii (true, true, false, false, false,
    false, true, false)), (String ((Ascii (false, true, false, false, true,
    true, true, false)), (String ((Ascii (true, false, true, false, false,
    true, true, false)), (String ((Ascii (true, false, false, false, false,
    true, true, false)), (String ((Ascii (false, false, true, false, true,
    true, true, false)), (String ((Ascii (true, false, true, false, false,
    true, true, false)), EmptyString)))))))))))))))))), (Zpos (Coq_xI (Coq_xO
    (Coq_xO Coq_xH))))) :: (((String ((Ascii (true, false, true, true, false,
    false, true, false)), (String ((Ascii (true, false, false, false, false,
    true, true, false)), (String ((Ascii (true, true, false, false, false,
    true, true, false)), (String ((Ascii (false, true, true, false, true,
    false, true, false)), (String ((Ascii (true, false, true, false, false,
    true, true, false)), (String ((Ascii (false, true, false, false, true,
    true, true, false)), (String ((Ascii (true, false, false, true, false,
    true, true, false)), (String ((Ascii (false, true, true, false, false,
    true, true, false)), (String ((Ascii (true, false, false, true, true,
    true, true, false)), EmptyString)))))))))))))))))), (Zpos (Coq_xO (Coq_xI
    (Coq_xO Coq_xH))))) :: [])))))))))

(** val coq_CborTag_table : (string * coq_Z) list **)

let coq_CborTag_table =
  ((String ((Ascii (true, true, false, false, false, false, true, false)),
    (String ((Ascii (true, true, true, true, false, true, true, false)),
    (String ((Ascii (true, true, false, false, true, true, true, false)),
    (String ((Ascii (true, false, true, false, false, true, true, false)),
    (String ((Ascii (true, false, true, false, false, false, true, false)),
    (String ((Ascii (false, true, true, true, false, true, true, false)),
    (String ((Ascii (true, true, false, false, false, true, true, false)),
    (String ((Ascii (false, true, false, false, true, true, true, false)),
    (String ((Ascii (true, false, false, true, true, true, true, false)),
    (String ((Ascii (false, false, false, false, true, true, true, false)),
    (String ((Ascii (false, false, true, false, true, true, true, false)),
    (String ((Ascii (false, false, false, false, true, true, false, false)),
    EmptyString)))))))))))))))))))))))), (Zpos (Coq_xO (Coq_xO (Coq_xO
    (Coq_xO Coq_xH)))))) :: (((String ((Ascii (true, true, false, false,
    false, false, true, false)), (String ((Ascii (true, true, true, true,
    false, true, true, false)), (String ((Ascii (true, true, false, false,
    true, true, true, false)), (String ((Ascii (true, false, true, false,
    false, true, true, false)), (String ((Ascii (true, false, true, true,
    false, false, true, false)), (String ((Ascii (true, false, false, false,
    false, true, true, false)), (String ((Ascii (true, true, false, false,
    false, true, true, false)), (String ((Ascii (false, false, false, false,
    true, true, false, false)), EmptyString)))))))))))))))), (Zpos (Coq_xI
    (Coq_xO (Coq_xO (Coq_xO Coq_xH)))))) :: (((String ((Ascii (true, true,
    false, false, false, false, true, false)), (String ((Ascii (true, true,
    true, true, false, true, true, false)), (String ((Ascii (true, true,
    false, false, true, true, true, false)), (String ((Ascii (true, false,
    true, false, false, true, true, false)), (String ((Ascii (true, true,
    false, false, true, false, true, false)), (String ((Ascii (true, false,
    false, true, false, true, true, false)), (String ((Ascii (true, true,
    true, false, false, true, true, false)), (String ((Ascii (false, true,
    true, true, false, true, true, false)), (String ((Ascii (true, false,
    false, false, true, true, false, false)), EmptyString)))))))))))))))))),
    (Zpos (Coq_xO (Coq_xI (Coq_xO (Coq_xO Coq_xH)))))) :: (((String ((Ascii
    (true, true, false, false, false, false, true, false)), (String ((Ascii
    (true, true, true, false, true, true, true, false)), (String ((Ascii
    (false, false, true, false, true, true, true, false)), EmptyString)))))),
    (Zpos (Coq_xI (Coq_xO (Coq_xI (Coq_xI (Coq_xI Coq_xH))))))) :: (((String
    ((Ascii (true, true, false, false, false, false, true, false)), (String
    ((Ascii (true, true, true, true, false, true, true, false)), (String
    ((Ascii (true, true, false, false, true, true, true, false)), (String
    ((Ascii (true, false, true, false, false, true, true, false)), (String
    ((Ascii (true, false, true, false, false, false, true, false)), (String
    ((Ascii (false, true, true, true, false, true, true, false)), (String
    ((Ascii (true, true, false, false, false, true, true, false)), (String
    ((Ascii (false, true, false, false, true, true, true, false)), (String
    ((Ascii (true, false, false, true, true, true, true, false)), (String
    ((Ascii (false, false, false, false, true, true, true, false)), (String
    ((Ascii (false, false, true, false, true, true, true, false)),
    EmptyString)))))))))))))))))))))), (Zpos (Coq_xO (Coq_xO (Coq_xO (Coq_xO
    (Coq_xO (Coq_xI Coq_xH)))))))) :: (((String ((Ascii (true, true, false,
    false, false, false, true, false)), (String ((Ascii (true, true, true,
    true, false, true, true, false)), (String ((Ascii (true, true, false,
    false, true, true, true, false)), (String ((Ascii (true, false, true,
    false, false, true, true, false)), (String ((Ascii (true, false, true,
    true, false, false, true, false)), (String ((Ascii (true, false, false,
    false, false, true, true, false)), (String ((Ascii (true, true, false,
    false, false, true, true, false)), EmptyString)))))))))))))), (Zpos
    (Coq_xI (Coq_xO (Coq_xO (Coq_xO (Coq_xO (Coq_xI
    Coq_xH)))))))) :: (((String ((Ascii (true, true, false, false, false,
    false, true, false)), (String ((Ascii (true, true, true, true, false,
    true, true, false)), (String ((Ascii (true, true, false, false, true,
    true, true, false)), (String ((Ascii (true, false, true, false, false,
    true, true, false)), (String ((Ascii (true, true, false, false, true,
    false, true, false)), (String ((Ascii (true, false, false, true, false,
    true, true, false)), (String ((Ascii (true, true, true, false, false,
    true, true, false)), (String ((Ascii (false, true, true, true, false,
    true, true, false)), EmptyString)))))))))))))))), (Zpos (Coq_xO (Coq_xI
    (Coq_xO (Coq_xO (Coq_xO (Coq_xI Coq_xH)))))))) :: []))))))

(** val coq_CoapContentFormat_table : (string * coq_Z) list **)

let coq_CoapContentFormat_table =
  ((String ((Ascii (false, false, true, false, true, false, true, false)),
    (String ((Ascii (true, false, true, false, false, true, true, false)),
    (String ((Ascii (false, false, false, true, true, true, true, false)),
    (String ((Ascii (false, false, true, false, true, true, true, false)),
    (String ((Ascii (false, false, false, false, true, false, true, false)),
    (String ((Ascii (false, false, true, true, false, true, true, false)),
    (String ((Ascii (true, false, false, false, false, true, true, false)),
    (String ((Ascii (true, false, false, true, false, true, true, false)),
    (String ((Ascii (false, true, true, true, false, true, true, false)),
    (String ((Ascii (true, false, true, false, true, false, true, false)),
    (String ((Ascii (false, false, true, false, true, true, true, false)),
    (String ((Ascii (false, true, true, false, false, true, true, false)),
    (String ((Ascii (false, false, false, true, true, true, false, false)),
    EmptyString)))))))))))))))))))))))))), Z0) :: (((String ((Ascii (true,
    true, false, false, false, false, true, false)), (String ((Ascii (true,
    true, true, true, false, true, true, false)), (String ((Ascii (true,
    true, false, false, true, true, true, false)), (String ((Ascii (true,
    false, true, false, false, true, true, false)), (String ((Ascii (true,
    false, true, false, false, false, true, false)), (String ((Ascii (false,
    true, true, true, false, true, true, false)), (String ((Ascii (true,
    true, false, false, false, true, true, false)), (String ((Ascii (false,
    true, false, false, true, true, true, false)), (String ((Ascii (true,
    false, false, true, true, true, true, false)), (String ((Ascii (false,
    false, false, false, true, true, true, false)), (String ((Ascii (false,
    false, true, false, true, true, true, false)), (String ((Ascii (false,
    false, false, false, true, true, false, false)),
    EmptyString)))))))))))))))))))))))), (Zpos (Coq_xO (Coq_xO (Coq_xO
    (Coq_xO Coq_xH)))))) :: (((String ((Ascii (true, true, false, false,
    false, false, true, false)), (String ((Ascii (true, true, true, true,
    false, true, true, false)), (String ((Ascii (true, true, false, false,
    true, true, true, false)), (String ((Ascii (true, false, true, false,
    false, true, true, false)), (String ((Ascii (true, false, true, true,
    false, false, true, false)), (String ((Ascii (true, false, false, false,
    false, true, true, false)), (String ((Ascii (true, true, false, false,
    false, true, true, false)), (String ((Ascii (false, false, false, false,
    true, true, false, false)), EmptyString)))))))))))))))), (Zpos (Coq_xI
    (Coq_xO (Coq_xO (Coq_xO Coq_xH)))))) :: (((String ((Ascii (true, true,
    false, false, false, false, true, false)), (String ((Ascii (true, true,
    true, true, false, true, true, false)), (String ((Ascii (true, true,
    false, false, true, true, true, false)), (String ((Ascii (true, false,
    true, false, false, true, true, false)), (String ((Ascii (true, true,
    false, false, true, false, true, false)), (String ((Ascii (true, false,
    false, true, false, true, true, false)), (String ((Ascii (true, true,
    true, false, false, true, true, false)), (String ((Ascii (false, true,
    true, true, false, true, true, false)), (String ((Ascii (true, false,
    false, false, true, true, false, false)), EmptyString)))))))))))))))))),
    (Zpos (Coq_xO (Coq_xI (Coq_xO (Coq_xO Coq_xH)))))) :: (((String ((Ascii
    (false, false, true, true, false, false, true, false)), (String ((Ascii
    (true, false, false, true, false, true, true, false)), (String ((Ascii
    (false, true, true, true, false, true, true, false)), (String ((Ascii
    (true, true, false, true, false, true, true, false)), (String ((Ascii
    (false, true, true, false, false, false, true, false)), (String ((Ascii
    (true, true, true, true, false, true, true, false)), (String ((Ascii
    (false, true, false, false, true, true, true, false)), (String ((Ascii
    (true, false, true, true, false, true, true, false)), (String ((Ascii
    (true, false, false, false, false, true, true, false)), (String ((Ascii
    (false, false, true, false, true, true, true, false)),
    EmptyString)))))))))))))))))))), (Zpos (Coq_xO (Coq_xO (Coq_xO (Coq_xI
    (Coq_xO Coq_xH))))))) :: (((String ((Ascii (false, false, false, true,
    true, false, true, false)), (String ((Ascii (true, false, true, true,
    false, true, true, false)), (String ((Ascii (false, false, true, true,
    false, true, true, false)), EmptyString)))))), (Zpos (Coq_xI (Coq_xO
    (Coq_xO (Coq_xI (Coq_xO Coq_xH))))))) :: (((String ((Ascii (true, true,
    true, true, false, false, true, false)), (String ((Ascii (true, true,
    false, false, false, true, true, false)), (String ((Ascii (false, false,
    true, false, true, true, true, false)), (String ((Ascii (true, false,
    true, false, false, true, true, false)), (String ((Ascii (false, false,
    true, false, true, true, true, false)), (String ((Ascii (true, true,
    false, false, true, false, true, false)), (String ((Ascii (false, false,
    true, false, true, true, true, false)), (String ((Ascii (false, true,
    false, false, true, true, true, false)), (String ((Ascii (true, false,
    true, false, false, true, true, false)), (String ((Ascii (true, false,
    false, false, false, true, true, false)), (String ((Ascii (true, false,
    true, true, false, true, true, false)),
    EmptyString)))))))))))))))))))))), (Zpos (Coq_xO (Coq_xI (Coq_xO (Coq_xI
    (Coq_xO Coq_xH))))))) :: (((String ((Ascii (true, false, true, false,
    false, false, true, false)), (String ((Ascii (false, false, false, true,
    true, true, true, false)), (String ((Ascii (true, false, false, true,
    false, true, true, false)), EmptyString)))))), (Zpos (Coq_xI (Coq_xI
    (Coq_xI (Coq_xI (Coq_xO Coq_xH))))))) :: (((String ((Ascii (false, true,
    false, true, false, false, true, false)), (String ((Ascii (true, true,
    false, false, true, true, true, false)), (String ((Ascii (true, true,
    true, true, false, true, true, false)), (String ((Ascii (false, true,
    true, true, false, true, true, false)), EmptyString)))))))), (Zpos
    (Coq_xO (Coq_xI (Coq_xO (Coq_xO (Coq_xI Coq_xH))))))) :: (((String
    ((Ascii (false, true, false, true, false, false, true, false)), (String
    ((Ascii (true, true, false, false, true, true, true, false)), (String
    ((Ascii (true, true, true, true, false, true, true, false)), (String
    ((Ascii (false, true, true, true, false, true, true, false)), (String
    ((Ascii (false, false, false, false, true, false, true, false)), (String
    ((Ascii (true, false, false, false, false, true, true, false)), (String
    ((Ascii (false, false, true, false, true, true, true, false)), (String
    ((Ascii (true, true, false, false, false, true, true, false)), (String
    ((Ascii (false, false, false, true, false, true, true, false)), (String
    ((Ascii (false, true, false, true, false, false, true, false)), (String
    ((Ascii (true, true, false, false, true, true, true, false)), (String
    ((Ascii (true, true, true, true, false, true, true, false)), (String
    ((Ascii (false, true, true, true, false, true, true, false)),
    EmptyString)))))))))))))))))))))))))), (Zpos (Coq_xI (Coq_xI (Coq_xO
    (Coq_xO (Coq_xI Coq_xH))))))) :: (((String ((Ascii (true, false, true,
    true, false, false, true, false)), (String ((Ascii (true, false, true,
    false, false, true, true, false)), (String ((Ascii (false, true, false,
    false, true, true, true, false)), (String ((Ascii (true, true, true,
    false, false, true, true, false)), (String ((Ascii (true, false, true,
    false, false, true, true, false)), (String ((Ascii (false, false, false,
    false, true, false, true, false)), (String ((Ascii (true, false, false,
    false, false, true, true, false)), (String ((Ascii (false, false, true,
    false, true, true, true, false)), (String ((Ascii (true, true, false,
    false, false, true, true, false)), (String ((Ascii (false, false, false,
    true, false, true, true, false)), (String ((Ascii (false, true, false,
    true, false, false, true, false)), (String ((Ascii (true, true, false,
    false, true, true, true, false)), (String ((Ascii (true, true, true,
    true, false, true, true, false)), (String ((Ascii (false, true, true,
    true, false, true, true, false)),
    EmptyString)))))))))))))))))))))))))))), (Zpos (Coq_xO (Coq_xO (Coq_xI
    (Coq_xO (Coq_xI Coq_xH))))))) :: (((String ((Ascii (true, true, false,
    false, false, false, true, false)), (String ((Ascii (false, true, false,
    false, false, true, true, false)), (String ((Ascii (true, true, true,
    true, false, true, true, false)), (String ((Ascii (false, true, false,
    false, true, true, true, false)), EmptyString)))))))), (Zpos (Coq_xO
    (Coq_xO (Coq_xI (Coq_xI (Coq_xI Coq_xH))))))) :: (((String ((Ascii (true,
    true, false, false, false, false, true, false)), (String ((Ascii (true,
    true, true, false, true, true, true, false)), (String ((Ascii (false,
    false, true, false, true, true, true, false)), EmptyString)))))), (Zpos
    (Coq_xI (Coq_xO (Coq_xI (Coq_xI (Coq_xI Coq_xH))))))) :: (((String
    ((Ascii (true, false, true, true, false, false, true, false)), (String
    ((Ascii (true, false, true, false, true, true, true, false)), (String
    ((Ascii (false, false, true, true, false, true, true, false)), (String
    ((Ascii (false, false, true, false, true, true, true, false)), (String
    ((Ascii (true, false, false, true, false, true, true, false)), (String
    ((Ascii (false, false, false, false, true, true, true, false)), (String
    ((Ascii (true, false, false, false, false, true, true, false)), (String
    ((Ascii (false, true, false, false, true, true, true, false)), (String
    ((Ascii (false, false, true, false, true, true, true, false)), (String
    ((Ascii (true, true, false, false, false, false, true, false)), (String
    ((Ascii (true, true, true, true, false, true, true, false)), (String
    ((Ascii (false, true, false, false, true, true, true, false)), (String
    ((Ascii (true, false, true, false, false, true, true, false)),
    EmptyString)))))))))))))))))))))))))), (Zpos (Coq_xO (Coq_xI (Coq_xI
    (Coq_xI (Coq_xI Coq_xH))))))) :: (((String ((Ascii (true, true, false,
    false, false, false, true, false)), (String ((Ascii (false, true, false,
    false, false, true, true, false)), (String ((Ascii (true, true, true,
    true, false, true, true, false)), (String ((Ascii (false, true, false,
    false, true, true, true, false)), (String ((Ascii (true, true, false,
    false, true, false, true, false)), (String ((Ascii (true, false, true,
    false, false, true, true, false)), (String ((Ascii (true, false, false,
    false, true, true, true, false)), EmptyString)))))))))))))), (Zpos
    (Coq_xI (Coq_xI (Coq_xI (Coq_xI (Coq_xI Coq_xH))))))) :: (((String
    ((Ascii (true, true, false, false, false, false, true, false)), (String
    ((Ascii (true, true, true, true, false, true, true, false)), (String
    ((Ascii (true, true, false, false, true, true, true, false)), (String
    ((Ascii (true, false, true, false, false, true, true, false)), (String
    ((Ascii (true, false, true, false, false, false, true, false)), (String
    ((Ascii (false, true, true, true, false, true, true, false)), (String
    ((Ascii (true, true, false, false, false, true, true, false)), (String
    ((Ascii (false, true, false, false, true, true, true, false)), (String
    ((Ascii (true, false, false, true, true, true, true, false)), (String
    ((Ascii (false, false, false, false, true, true, true, false)), (String
    ((Ascii (false, false, true, false, true, true, true, false)),
    EmptyString)))))))))))))))))))))), (Zpos (Coq_xO (Coq_xO (Coq_xO (Coq_xO
    (Coq_xO (Coq_xI Coq_xH)))))))) :: (((String ((Ascii (true, true, false,
    false, false, false, true, false)), (String ((Ascii (true, true, true,
    true, false, true, true, false)), (String ((Ascii (true, true, false,
    false, true, true, true, false)), (String ((Ascii (true, false, true,
    false, false, true, true, false)), (String ((Ascii (true, false, true,
    true, false, false, true, false)), (String ((Ascii (true, false, false,
    false, false, true, true, false)), (String ((Ascii (true, true, false,
    false, false, true, true, false)), EmptyString)))))))))))))), (Zpos
    (Coq_xI (Coq_xO (Coq_xO (Coq_xO (Coq_xO (Coq_xI
    Coq_xH)))))))) :: (((String ((Ascii (true, true, false, false, false,
    false, true, false)), (String ((Ascii (true, true, true, true, false,
    true, true, false)), (String ((Ascii (true, true, false, false, true,
    true, true, false)), (String ((Ascii (true, false, true, false, false,
    true, true, false)), (String ((Ascii (true, true, false, false, true,
    false, true, false)), (String ((Ascii (true, false, false, true, false,
    true, true, false)), (String ((Ascii (true, true, true, false, false,
    true, true, false)), (String ((Ascii (false, true, true, true, false,
    true, true, false)), EmptyString)))))))))))))))), (Zpos (Coq_xO (Coq_xI
    (Coq_xO (Coq_xO (Coq_xO (Coq_xI Coq_xH)))))))) :: (((String ((Ascii
    (true, true, false, false, false, false, true, false)), (String ((Ascii
    (true, true, true, true, false, true, true, false)), (String ((Ascii
    (true, true, false, false, true, true, true, false)), (String ((Ascii
    (true, false, true, false, false, true, true, false)), (String ((Ascii
    (true, true, false, true, false, false, true, false)), (String ((Ascii
    (true, false, true, false, false, true, true, false)), (String ((Ascii
    (true, false, false, true, true, true, true, false)),
    EmptyString)))))))))))))), (Zpos (Coq_xI (Coq_xO (Coq_xI (Coq_xO (Coq_xO
    (Coq_xI Coq_xH)))))))) :: (((String ((Ascii (true, true, false, false,
    false, false, true, false)), (String ((Ascii (true, true, true, true,
    false, true, true, false)), (String ((Ascii (true, true, false, false,
    true, true, true, false)), (String ((Ascii (true, false, true, false,
    false, true, true, false)), (String ((Ascii (true, true, false, true,
    false, false, true, false)), (String ((Ascii (true, false, true, false,
    false, true, true, false)), (String ((Ascii (true, false, false, true,
    true, true, true, false)), (String ((Ascii (true, true, false, false,
    true, false, true, false)), (String ((Ascii (true, false, true, false,
    false, true, true, false)), (String ((Ascii (false, false, true, false,
    true, true, true, false)), EmptyString)))))))))))))))))))), (Zpos (Coq_xO
    (Coq_xI (Coq_xI (Coq_xO (Coq_xO (Coq_xI Coq_xH)))))))) :: (((String
    ((Ascii (true, true, false, false, true, false, true, false)), (String
    ((Ascii (true, false, true, false, false, true, true, false)), (String
    ((Ascii (false, true, true, true, false, true, true, false)), (String
    ((Ascii (true, false, true, true, false, true, true, false)), (String
    ((Ascii (false, false, true, true, false, true, true, false)), (String
    ((Ascii (false, true, false, true, false, false, true, false)), (String
    ((Ascii (true, true, false, false, true, true, true, false)), (String
    ((Ascii (true, true, true, true, false, true, true, false)), (String
    ((Ascii (false, true, true, true, false, true, true, false)),
    EmptyString)))))))))))))))))), (Zpos (Coq_xO (Coq_xI (Coq_xI (Coq_xI
    (Coq_xO (Coq_xI Coq_xH)))))))) :: (((String ((Ascii (true, true, false,
    false, true, false, true, false)), (String ((Ascii (true, false, true,
    false, false, true, true, false)), (String ((Ascii (false, true, true,
    true, false, true, true, false)), (String ((Ascii (true, true, false,
    false, true, true, true, false)), (String ((Ascii (true, false, true,
    true, false, true, true, false)), (String ((Ascii (false, false, true,
    true, false, true, true, false)), (String ((Ascii (false, true, false,
    true, false, false, true, false)), (String ((Ascii (true, true, false,
    false, true, true, true, false)), (String ((Ascii (true, true, true,
    true, false, true, true, false)), (String ((Ascii (false, true, true,
    true, false, true, true, false)), EmptyString)))))))))))))))))))), (Zpos
    (Coq_xI (Coq_xI (Coq_xI (Coq_xI (Coq_xO (Coq_xI
    Coq_xH)))))))) :: (((String ((Ascii (true, true, false, false, true,
    false, true, false)), (String ((Ascii (true, false, true, false, false,
    true, true, false)), (String ((Ascii (false, true, true, true, false,
    true, true, false)), (String ((Ascii (true, false, true, true, false,
    true, true, false)), (String ((Ascii (false, false, true, true, false,
    true, true, false)), (String ((Ascii (true, true, false, false, false,
    false, true, false)), (String ((Ascii (false, true, false, false, false,
    true, true, false)), (String ((Ascii (true, true, true, true, false,
    true, true, false)), (String ((Ascii (false, true, false, false, true,
    true, true, false)), EmptyString)))))))))))))))))), (Zpos (Coq_xO (Coq_xO
    (Coq_xO (Coq_xO (Coq_xI (Coq_xI Coq_xH)))))))) :: (((String ((Ascii
    (true, true, false, false, true, false, true, false)), (String ((Ascii
    (true, false, true, false, false, true, true, false)), (String ((Ascii
    (false, true, true, true, false, true, true, false)), (String ((Ascii
    (true, true, false, false, true, true, true, false)), (String ((Ascii
    (true, false, true, true, false, true, true, false)), (String ((Ascii
    (false, false, true, true, false, true, true, false)), (String ((Ascii
    (true, true, false, false, false, false, true, false)), (String ((Ascii
    (false, true, false, false, false, true, true, false)), (String ((Ascii
    (true, true, true, true, false, true, true, false)), (String ((Ascii
    (false, true, false, false, true, true, true, false)),
    EmptyString)))))))))))))))))))), (Zpos (Coq_xI (Coq_xO (Coq_xO (Coq_xO
    (Coq_xI (Coq_xI Coq_xH)))))))) :: (((String ((Ascii (true, true, false,
    false, true, false, true, false)), (String ((Ascii (true, false, true,
    false, false, true, true, false)), (String ((Ascii (false, true, true,
    true, false, true, true, false)), (String ((Ascii (true, false, true,
    true, false, true, true, false)), (String ((Ascii (false, false, true,
    true, false, true, true, false)), (String ((Ascii (true, false, true,
    false, false, false, true, false)), (String ((Ascii (false, false, false,
    true, true, true, true, false)), (String ((Ascii (true, false, false,
    true, false, true, true, false)), EmptyString)))))))))))))))), (Zpos
    (Coq_xO (Coq_xI (Coq_xO (Coq_xO (Coq_xI (Coq_xI
    Coq_xH)))))))) :: (((String ((Ascii (true, true, false, false, true,
    false, true, false)), (String ((Ascii (true, false, true, false, false,
    true, true, false)), (String ((Ascii (false, true, true, true, false,
    true, true, false)), (String ((Ascii (true, true, false, false, true,
    true, true, false)), (String ((Ascii (true, false, true, true, false,
    true, true, false)), (String ((Ascii (false, false, true, true, false,
    true, true, false)), (String ((Ascii (true, false, true, false, false,
    false, true, false)), (String ((Ascii (false, false, false, true, true,
    true, true, false)), (String ((Ascii (true, false, false, true, false,
    true, true, false)), EmptyString)))))))))))))))))), (Zpos (Coq_xI (Coq_xI
    (Coq_xO (Coq_xO (Coq_xI (Coq_xI Coq_xH)))))))) :: (((String ((Ascii
    (true, true, false, false, false, false, true, false)), (String ((Ascii
    (true, true, true, true, false, true, true, false)), (String ((Ascii
    (true, false, false, false, false, true, true, false)), (String ((Ascii
    (false, false, false, false, true, true, true, false)), (String ((Ascii
    (true, true, true, false, false, false, true, false)), (String ((Ascii
    (false, true, false, false, true, true, true, false)), (String ((Ascii
    (true, true, true, true, false, true, true, false)), (String ((Ascii
    (true, false, true, false, true, true, true, false)), (String ((Ascii
    (false, false, false, false, true, true, true, false)), (String ((Ascii
    (false, true, false, true, false, false, true, false)), (String ((Ascii
    (true, true, false, false, true, true, true, false)), (String ((Ascii
    (true, true, true, true, false, true, true, false)), (String ((Ascii
    (false, true, true, true, false, true, true, false)),
    EmptyString)))))))))))))))))))))))))), (Zpos (Coq_xO (Coq_xO (Coq_xO
    (Coq_xO (Coq_xO (Coq_xO (Coq_xO (Coq_xO Coq_xH)))))))))) :: (((String
    ((Ascii (false, false, true, false, false, false, true, false)), (String
    ((Ascii (true, true, true, true, false, true, true, false)), (String
    ((Ascii (false, false, true, false, true, true, true, false)), (String
    ((Ascii (true, true, false, false, true, true, true, false)), (String
    ((Ascii (true, true, false, false, false, false, true, false)), (String
    ((Ascii (false, true, false, false, false, true, true, false)), (String
    ((Ascii (true, true, true, true, false, true, true, false)), (String
    ((Ascii (false, true, false, false, true, true, true, false)),
    EmptyString)))))))))))))))), (Zpos (Coq_xI (Coq_xI (Coq_xI (Coq_xI
    (Coq_xO (Coq_xO (Coq_xO (Coq_xO Coq_xH)))))))))) :: (((String ((Ascii
    (false, false, false, false, true, false, true, false)), (String ((Ascii
    (true, true, false, true, false, true, true, false)), (String ((Ascii
    (true, true, false, false, false, true, true, false)), (String ((Ascii
    (true, true, false, false, true, true, true, false)), (String ((Ascii
    (true, true, true, false, true, true, false, false)), (String ((Ascii
    (true, false, true, true, false, false, true, false)), (String ((Ascii
    (true, false, false, true, false, true, true, false)), (String ((Ascii
    (true, false, true, true, false, true, true, false)), (String ((Ascii
    (true, false, true, false, false, true, true, false)), (String ((Ascii
    (true, true, false, false, true, false, true, false)), (String ((Ascii
    (true, false, true, true, false, true, true, false)), (String ((Ascii
    (true, false, false, true, false, true, true, false)), (String ((Ascii
    (true, false, true, true, false, true, true, false)), (String ((Ascii
    (true, false, true, false, false, true, true, false)), (String ((Ascii
    (false, false, true, false, true, false, true, false)), (String ((Ascii
    (true, false, false, true, true, true, true, false)), (String ((Ascii
    (false, false, false, false, true, true, true, false)), (String ((Ascii
    (true, false, true, false, false, true, true, false)), (String ((Ascii
    (true, true, false, false, true, false, true, false)), (String ((Ascii
    (true, false, true, false, false, true, true, false)), (String ((Ascii
    (false, true, false, false, true, true, true, false)), (String ((Ascii
    (false, true, true, false, true, true, true, false)), (String ((Ascii
    (true, false, true, false, false, true, true, false)), (String ((Ascii
    (false, true, false, false, true, true, true, false)), (String ((Ascii
    (true, true, true, false, false, false, true, false)), (String ((Ascii
    (true, false, true, false, false, true, true, false)), (String ((Ascii
    (false, true, true, true, false, true, true, false)), (String ((Ascii
    (true, false, true, false, false, true, true, false)), (String ((Ascii
    (false, true, false, false, true, true, true, false)), (String ((Ascii
    (true, false, false, false, false, true, true, false)), (String ((Ascii
    (false, false, true, false, true, true, true, false)), (String ((Ascii
    (true, false, true, false, false, true, true, false)), (String ((Ascii
    (false, false, true, false, false, true, true, false)), (String ((Ascii
    (true, true, false, true, false, false, true, false)), (String ((Ascii
    (true, false, true, false, false, true, true, false)), (String ((Ascii
    (true, false, false, true, true, true, true, false)),
    EmptyString)))))))))))))))))))))))))))))))))))))))))))))))))))))))))))))))))))))))),
    (Zpos (Coq_xO (Coq_xO (Coq_xO (Coq_xI (Coq_xI (Coq_xO (Coq_xO (Coq_xO
    Coq_xH)))))))))) :: (((String ((Ascii (false, false, false, false, true,
    false, true, false)), (String ((Ascii (true, true, false, true, false,
    true, true, false)), (String ((Ascii (true, true, false, false, false,
    true, true, false)), (String ((Ascii (true, true, false, false, true,
    true, true, false)), (String ((Ascii (true, true, true, false, true,
    true, false, false)), (String ((Ascii (true, false, true, true, false,
    false, true, false)), (String ((Ascii (true, false, false, true, false,
    true, true, false)), (String ((Ascii (true, false, true, true, false,
    true, true, false)), (String ((Ascii (true, false, true, false, false,
    true, true, false)), (String ((Ascii (true, true, false, false, true,
    false, true, false)), (String ((Ascii (true, false, true, true, false,
    true, true, false)), (String ((Ascii (true, false, false, true, false,
    true, true, false)), (String ((Ascii (true, false, true, true, false,
    true, true, false)), (String ((Ascii (true, false, true, false, false,
    true, true, false)), (String ((Ascii (false, false, true, false, true,
    false, true, false)), (String ((Ascii (true, false, false, true, true,
    true, true, false)), (String ((Ascii (false, false, false, false, true,
    true, true, false)), (String ((Ascii (true, false, true, false, false,
    true, true, false)), (String ((Ascii (true, true, false, false, false,
    false, true, false)), (String ((Ascii (true, false, true, false, false,
    true, true, false)), (String ((Ascii (false, true, false, false, true,
    true, true, false)), (String ((Ascii (false, false, true, false, true,
    true, true, false)), (String ((Ascii (true, true, false, false, true,
    true, true, false)), (String ((Ascii (true, true, true, true, false,
    false, true, false)), (String ((Ascii (false, true, true, true, false,
    true, true, false)), (String ((Ascii (false, false, true, true, false,
    true, true, false)), (String ((Ascii (true, false, false, true, true,
    true, true, false)),
    EmptyString)))))))))))))))))))))))))))))))))))))))))))))))))))))), (Zpos
    (Coq_xI (Coq_xO (Coq_xO (Coq_xI (Coq_xI (Coq_xO (Coq_xO (Coq_xO
    Coq_xH)))))))))) :: (((String ((Ascii (false, false, false, false, true,
    false, true, false)), (String ((Ascii (true, true, false, true, false,
    true, true, false)), (String ((Ascii (true, true, false, false, false,
    true, true, false)), (String ((Ascii (true, true, false, false, true,
    true, true, false)), (String ((Ascii (true, true, true, false, true,
    true, false, false)), (String ((Ascii (true, false, true, true, false,
    false, true, false)), (String ((Ascii (true, false, false, true, false,
    true, true, false)), (String ((Ascii (true, false, true, true, false,
    true, true, false)), (String ((Ascii (true, false, true, false, false,
    true, true, false)), (String ((Ascii (true, true, false, false, true,
    false, true, false)), (String ((Ascii (true, false, true, true, false,
    true, true, false)), (String ((Ascii (true, false, false, true, false,
    true, true, false)), (String ((Ascii (true, false, true, true, false,
    true, true, false)), (String ((Ascii (true, false, true, false, false,
    true, true, false)), (String ((Ascii (false, false, true, false, true,
    false, true, false)), (String ((Ascii (true, false, false, true, true,
    true, true, false)), (String ((Ascii (false, false, false, false, true,
    true, true, false)), (String ((Ascii (true, false, true, false, false,
    true, true, false)), (String ((Ascii (true, true, false, false, false,
    false, true, false)), (String ((Ascii (true, false, true, true, false,
    true, true, false)), (String ((Ascii (true, true, false, false, false,
    true, true, false)), (String ((Ascii (false, true, false, false, true,
    false, true, false)), (String ((Ascii (true, false, true, false, false,
    true, true, false)), (String ((Ascii (true, false, false, false, true,
    true, true, false)), (String ((Ascii (true, false, true, false, true,
    true, true, false)), (String ((Ascii (true, false, true, false, false,
    true, true, false)), (String ((Ascii (true, true, false, false, true,
    true, true, false)), (String ((Ascii (false, false, true, false, true,
    true, true, false)),
    EmptyString)))))))))))))))))))))))))))))))))))))))))))))))))))))))),
    (Zpos (Coq_xO (Coq_xI (Coq_xO (Coq_xI (Coq_xI (Coq_xO (Coq_xO (Coq_xO
    Coq_xH)))))))))) :: (((String ((Ascii (false, false, false, false, true,
    false, true, false)), (String ((Ascii (true, true, false, true, false,
    true, true, false)), (String ((Ascii (true, true, false, false, false,
    true, true, false)), (String ((Ascii (true, true, false, false, true,
    true, true, false)), (String ((Ascii (true, true, true, false, true,
    true, false, false)), (String ((Ascii (true, false, true, true, false,
    false, true, false)), (String ((Ascii (true, false, false, true, false,
    true, true, false)), (String ((Ascii (true, false, true, true, false,
    true, true, false)), (String ((Ascii (true, false, true, false, false,
    true, true, false)), (String ((Ascii (true, true, false, false, true,
    false, true, false)), (String ((Ascii (true, false, true, true, false,
    true, true, false)), (String ((Ascii (true, false, false, true, false,
    true, true, false)), (String ((Ascii (true, false, true, true, false,
    true, true, false)), (String ((Ascii (true, false, true, false, false,
    true, true, false)), (String ((Ascii (false, false, true, false, true,
    false, true, false)), (String ((Ascii (true, false, false, true, true,
    true, true, false)), (String ((Ascii (false, false, false, false, true,
    true, true, false)), (String ((Ascii (true, false, true, false, false,
    true, true, false)), (String ((Ascii (true, true, false, false, false,
    false, true, false)), (String ((Ascii (true, false, true, true, false,
    true, true, false)), (String ((Ascii (true, true, false, false, false,
    true, true, false)), (String ((Ascii (false, true, false, false, true,
    false, true, false)), (String ((Ascii (true, false, true, false, false,
    true, true, false)), (String ((Ascii (true, true, false, false, true,
    true, true, false)), (String ((Ascii (false, false, false, false, true,
    true, true, false)), (String ((Ascii (true, true, true, true, false,
    true, true, false)), (String ((Ascii (false, true, true, true, false,
    true, true, false)), (String ((Ascii (true, true, false, false, true,
    true, true, false)), (String ((Ascii (true, false, true, false, false,
    true, true, false)),
    EmptyString)))))))))))))))))))))))))))))))))))))))))))))))))))))))))),
    (Zpos (Coq_xI (Coq_xI (Coq_xO (Coq_xI (Coq_xI (Coq_xO (Coq_xO (Coq_xO
    Coq_xH)))))))))) :: (((String ((Ascii (false, false, false, false, true,
    false, true, false)), (String ((Ascii (true, true, false, true, false,
    true, true, false)), (String ((Ascii (true, true, false, false, false,
    true, true, false)), (String ((Ascii (true, true, false, false, true,
    true, true, false)), (String ((Ascii (false, false, false, true, true,
    true, false, false)), EmptyString)))))))))), (Zpos (Coq_xO (Coq_xO
    (Coq_xI (Coq_xI (Coq_xI (Coq_xO (Coq_xO (Coq_xO
    Coq_xH)))))))))) :: (((String ((Ascii (true, true, false, false, false,
    false, true, false)), (String ((Ascii (true, true, false, false, true,
    true, true, false)), (String ((Ascii (false, true, false, false, true,
    true, true, false)), (String ((Ascii (true, false, false, false, false,
    true, true, false)), (String ((Ascii (false, false, true, false, true,
    true, true, false)), (String ((Ascii (false, false, true, false, true,
    true, true, false)), (String ((Ascii (false, true, false, false, true,
    true, true, false)), (String ((Ascii (true, true, false, false, true,
    true, true, false)), EmptyString)))))))))))))))), (Zpos (Coq_xI (Coq_xO
    (Coq_xI (Coq_xI (Coq_xI (Coq_xO (Coq_xO (Coq_xO
    Coq_xH)))))))))) :: (((String ((Ascii (false, false, false, false, true,
    false, true, false)), (String ((Ascii (true, true, false, true, false,
    true, true, false)), (String ((Ascii (true, true, false, false, false,
    true, true, false)), (String ((Ascii (true, true, false, false, true,
    true, true, false)), (String ((Ascii (true, false, false, false, true,
    true, false, false)), (String ((Ascii (false, false, false, false, true,
    true, false, false)), EmptyString)))))))))))), (Zpos (Coq_xO (Coq_xI
    (Coq_xI (Coq_xI (Coq_xI (Coq_xO (Coq_xO (Coq_xO
    Coq_xH)))))))))) :: (((String ((Ascii (false, false, false, false, true,
    false, true, false)), (String ((Ascii (true, true, false, true, false,
    true, true, false)), (String ((Ascii (true, false, false, true, false,
    true, true, false)), (String ((Ascii (false, false, false, true, true,
    true, true, false)), (String ((Ascii (true, true, false, false, false,
    false, true, false)), (String ((Ascii (true, false, true, false, false,
    true, true, false)), (String ((Ascii (false, true, false, false, true,
    true, true, false)), (String ((Ascii (false, false, true, false, true,
    true, true, false)), EmptyString)))))))))))))))), (Zpos (Coq_xI (Coq_xI
    (Coq_xI (Coq_xI (Coq_xI (Coq_xO (Coq_xO (Coq_xO
    Coq_xH)))))))))) :: (((String ((Ascii (true, true, false, false, true,
    false, true, false)), (String ((Ascii (true, false, true, false, false,
    true, true, false)), (String ((Ascii (false, true, true, true, false,
    true, true, false)), (String ((Ascii (true, false, true, true, false,
    true, true, false)), (String ((Ascii (false, false, true, true, false,
    true, true, false)), (String ((Ascii (false, false, false, true, true,
    false, true, false)), (String ((Ascii (true, false, true, true, false,
    true, true, false)), (String ((Ascii (false, false, true, true, false,
    true, true, false)), EmptyString)))))))))))))))), (Zpos (Coq_xO (Coq_xI
    (Coq_xI (Coq_xO (Coq_xI (Coq_xI (Coq_xO (Coq_xO
    Coq_xH)))))))))) :: (((String ((Ascii (true, true, false, false, true,
    false, true, false)), (String ((Ascii (true, false, true, false, false,
    true, true, false)), (String ((Ascii (false, true, true, true, false,
    true, true, false)), (String ((Ascii (true, true, false, false, true,
    true, true, false)), (String ((Ascii (true, false, true, true, false,
    true, true, false)), (String ((Ascii (false, false, true, true, false,
    true, true, false)), (String ((Ascii (false, false, false, true, true,
    false, true, false)), (String ((Ascii (true, false, true, true, false,
    true, true, false)), (String ((Ascii (false, false, true, true, false,
    true, true, false)), EmptyString)))))))))))))))))), (Zpos (Coq_xI (Coq_xI
    (Coq_xI (Coq_xO (Coq_xI (Coq_xI (Coq_xO (Coq_xO
    Coq_xH)))))))))) :: (((String ((Ascii (true, true, false, false, true,
    false, true, false)), (String ((Ascii (true, false, true, false, false,
    true, true, false)), (String ((Ascii (false, true, true, true, false,
    true, true, false)), (String ((Ascii (true, false, true, true, false,
    true, true, false)), (String ((Ascii (false, false, true, true, false,
    true, true, false)), (String ((Ascii (true, false, true, false, false,
    false, true, false)), (String ((Ascii (false, false, true, false, true,
    true, true, false)), (String ((Ascii (true, true, false, false, false,
    true, true, false)), (String ((Ascii (false, false, false, true, false,
    true, true, false)), (String ((Ascii (false, true, false, true, false,
    false, true, false)), (String ((Ascii (true, true, false, false, true,
    true, true, false)), (String ((Ascii (true, true, true, true, false,
    true, true, false)), (String ((Ascii (false, true, true, true, false,
    true, true, false)), EmptyString)))))))))))))))))))))))))), (Zpos (Coq_xO
    (Coq_xO (Coq_xO (Coq_xO (Coq_xO (Coq_xO (Coq_xI (Coq_xO
    Coq_xH)))))))))) :: (((String ((Ascii (true, true, false, false, true,
    false, true, false)), (String ((Ascii (true, false, true, false, false,
    true, true, false)), (String ((Ascii (false, true, true, true, false,
    true, true, false)), (String ((Ascii (true, false, true, true, false,
    true, true, false)), (String ((Ascii (false, false, true, true, false,
    true, true, false)), (String ((Ascii (true, false, true, false, false,
    false, true, false)), (String ((Ascii (false, false, true, false, true,
    true, true, false)), (String ((Ascii (true, true, false, false, false,
    true, true, false)), (String ((Ascii (false, false, false, true, false,
    true, true, false)), (String ((Ascii (true, true, false, false, false,
    false, true, false)), (String ((Ascii (false, true, false, false, false,
    true, true, false)), (String ((Ascii (true, true, true, true, false,
    true, true, false)), (String ((Ascii (false, true, false, false, true,
    true, true, false)), EmptyString)))))))))))))))))))))))))), (Zpos (Coq_xO
    (Coq_xI (Coq_xO (Coq_xO (Coq_xO (Coq_xO (Coq_xI (Coq_xO
    Coq_xH)))))))))) :: (((String ((Ascii (false, false, true, false, true,
    false, true, false)), (String ((Ascii (false, false, true, false, false,
    true, true, false)), (String ((Ascii (false, true, false, true, false,
    false, true, false)), (String ((Ascii (true, true, false, false, true,
    true, true, false)), (String ((Ascii (true, true, true, true, false,
    true, true, false)), (String ((Ascii (false, true, true, true, false,
    true, true, false)), EmptyString)))))))))))), (Zpos (Coq_xO (Coq_xO
    (Coq_xO (Coq_xO (Coq_xI (Coq_xI (Coq_xO (Coq_xI
    Coq_xH)))))))))) :: (((String ((Ascii (false, true, true, false, true,
    false, true, false)), (String ((Ascii (false, true, true, true, false,
    true, true, false)), (String ((Ascii (false, false, true, false, false,
    true, true, false)), (String ((Ascii (true, true, true, true, false,
    false, true, false)), (String ((Ascii (true, true, false, false, false,
    true, true, false)), (String ((Ascii (false, true, true, false, false,
    true, true, false)), (String ((Ascii (true, true, false, false, false,
    false, true, false)), (String ((Ascii (false, true, false, false, false,
    true, true, false)), (String ((Ascii (true, true, true, true, false,
    true, true, false)), (String ((Ascii (false, true, false, false, true,
    true, true, false)), EmptyString)))))))))))))))))))), (Zpos (Coq_xO
    (Coq_xO (Coq_xO (Coq_xO (Coq_xI (Coq_xO (Coq_xO (Coq_xO (Coq_xI (Coq_xI
    (Coq_xI (Coq_xO (Coq_xO Coq_xH))))))))))))))) :: (((String ((Ascii (true,
    true, true, true, false, false, true, false)), (String ((Ascii (true,
    true, false, false, true, true, true, false)), (String ((Ascii (true,
    true, false, false, false, true, true, false)), (String ((Ascii (true,
    true, true, true, false, true, true, false)), (String ((Ascii (false,
    true, false, false, true, true, true, false)), (String ((Ascii (true,
    false, true, false, false, true, true, false)), EmptyString)))))))))))),
    (Zpos (Coq_xI (Coq_xO (Coq_xO (Coq_xO (Coq_xI (Coq_xO (Coq_xO (Coq_xO
    (Coq_xI (Coq_xI (Coq_xI (Coq_xO (Coq_xO
    Coq_xH))))))))))))))) :: (((String ((Ascii (false, true, false, true,
    false, false, true, false)), (String ((Ascii (true, true, false, false,
    true, true, true, false)), (String ((Ascii (true, true, true, true,
    false, true, true, false)), (String ((Ascii (false, true, true, true,
    false, true, true, false)), (String ((Ascii (false, false, true, false,
    false, false, true, false)), (String ((Ascii (true, false, true, false,
    false, true, true, false)), (String ((Ascii (false, true, true, false,
    false, true, true, false)), (String ((Ascii (false, false, true, true,
    false, true, true, false)), (String ((Ascii (true, false, false, false,
    false, true, true, false)), (String ((Ascii (false, false, true, false,
    true, true, true, false)), (String ((Ascii (true, false, true, false,
    false, true, true, false)), EmptyString)))))))))))))))))))))), (Zpos
    (Coq_xO (Coq_xI (Coq_xO (Coq_xI (Coq_xO (Coq_xI (Coq_xO (Coq_xO (Coq_xI
    (Coq_xI (Coq_xO (Coq_xI (Coq_xO Coq_xH))))))))))))))) :: (((String
    ((Ascii (true, true, false, false, false, false, true, false)), (String
    ((Ascii (false, true, false, false, false, true, true, false)), (String
    ((Ascii (true, true, true, true, false, true, true, false)), (String
    ((Ascii (false, true, false, false, true, true, true, false)), (String
    ((Ascii (false, false, true, false, false, false, true, false)), (String
    ((Ascii (true, false, true, false, false, true, true, false)), (String
    ((Ascii (false, true, true, false, false, true, true, false)), (String
    ((Ascii (false, false, true, true, false, true, true, false)), (String
    ((Ascii (true, false, false, false, false, true, true, false)), (String
    ((Ascii (false, false, true, false, true, true, true, false)), (String
    ((Ascii (true, false, true, false, false, true, true, false)),
    EmptyString)))))))))))))))))))))), (Zpos (Coq_xO (Coq_xO (Coq_xI (Coq_xO
    (Coq_xI (Coq_xI (Coq_xO (Coq_xO (Coq_xI (Coq_xI (Coq_xO (Coq_xI (Coq_xO
    Coq_xH))))))))))))))) :: (((String ((Ascii (false, true, true, false,
    true, false, true, false)), (String ((Ascii (false, true, true, true,
    false, true, true, false)), (String ((Ascii (false, false, true, false,
    false, true, true, false)), (String ((Ascii (true, true, true, true,
    false, false, true, false)), (String ((Ascii (true, false, true, true,
    false, true, true, false)), (String ((Ascii (true, false, false, false,
    false, true, true, false)), (String ((Ascii (false, false, true, true,
    false, false, true, false)), (String ((Ascii (true, true, true, false,
    true, true, true, false)), (String ((Ascii (true, false, true, true,
    false, true, true, false)), (String ((Ascii (false, true, false, false,
    true, true, false, false)), (String ((Ascii (true, false, true, true,
    false, true, true, false)), (String ((Ascii (false, false, true, false,
    true, false, true, false)), (String ((Ascii (false, false, true, true,
    false, true, true, false)), (String ((Ascii (false, true, true, false,
    true, true, true, false)), EmptyString)))))))))))))))))))))))))))), (Zpos
    (Coq_xO (Coq_xI (Coq_xI (Coq_xO (Coq_xI (Coq_xO (Coq_xO (Coq_xO (Coq_xI
    (Coq_xO (Coq_xI (Coq_xI (Coq_xO Coq_xH))))))))))))))) :: (((String
    ((Ascii (false, true, true, false, true, false, true, false)), (String
    ((Ascii (false, true, true, true, false, true, true, false)), (String
    ((Ascii (false, false, true, false, false, true, true, false)), (String
    ((Ascii (true, true, true, true, false, false, true, false)), (String
    ((Ascii (true, false, true, true, false, true, true, false)), (String
    ((Ascii (true, false, false, false, false, true, true, false)), (String
    ((Ascii (false, false, true, true, false, false, true, false)), (String
    ((Ascii (true, true, true, false, true, true, true, false)), (String
    ((Ascii (true, false, true, true, false, true, true, false)), (String
    ((Ascii (false, true, false, false, true, true, false, false)), (String
    ((Ascii (true, false, true, true, false, true, true, false)), (String
    ((Ascii (false, true, false, true, false, false, true, false)), (String
    ((Ascii (true, true, false, false, true, true, true, false)), (String
    ((Ascii (true, true, true, true, false, true, true, false)), (String
    ((Ascii (false, true, true, true, false, true, true, false)),
    EmptyString)))))))))))))))))))))))))))))), (Zpos (Coq_xI (Coq_xI (Coq_xI
    (Coq_xO (Coq_xI (Coq_xO (Coq_xO (Coq_xO (Coq_xI (Coq_xO (Coq_xI (Coq_xI
    (Coq_xO Coq_xH))))))))))))))) :: (((String ((Ascii (false, true, true,
    false, true, false, true, false)), (String ((Ascii (false, true, true,
    true, false, true, true, false)), (String ((Ascii (false, false, true,
    false, false, true, true, false)), (String ((Ascii (true, true, true,
    true, false, false, true, false)), (String ((Ascii (true, false, true,
    true, false, true, true, false)), (String ((Ascii (true, false, false,
    false, false, true, true, false)), (String ((Ascii (false, false, true,
    true, false, false, true, false)), (String ((Ascii (true, true, true,
    false, true, true, true, false)), (String ((Ascii (true, false, true,
    true, false, true, true, false)), (String ((Ascii (false, true, false,
    false, true, true, false, false)), (String ((Ascii (true, false, true,
    true, false, true, true, false)), (String ((Ascii (true, true, false,
    false, false, false, true, false)), (String ((Ascii (false, true, false,
    false, false, true, true, false)), (String ((Ascii (true, true, true,
    true, false, true, true, false)), (String ((Ascii (false, true, false,
    false, true, true, true, false)),
    EmptyString)))))))))))))))))))))))))))))), (Zpos (Coq_xO (Coq_xO (Coq_xO
    (Coq_xI (Coq_xI (Coq_xO (Coq_xO (Coq_xO (Coq_xI (Coq_xO (Coq_xI (Coq_xI
    (Coq_xO
    Coq_xH))))))))))))))) :: [])))))))))))))))))))))))))))))))))))))))))))))))

(** val coq_CwtClaimName_table : (string * coq_Z) list **)

let coq_CwtClaimName_table =
  ((String ((Ascii (false, false, false, true, false, false, true, false)),
    (String ((Ascii (true, true, false, false, false, true, true, false)),
    (String ((Ascii (true, false, true, false, false, true, true, false)),
    (String ((Ascii (false, true, false, false, true, true, true, false)),
    (String ((Ascii (false, false, true, false, true, true, true, false)),
    EmptyString)))))))))), (Zneg (Coq_xO (Coq_xO (Coq_xI (Coq_xO (Coq_xO
    (Coq_xO (Coq_xO (Coq_xO Coq_xH)))))))))) :: (((String ((Ascii (true,
    false, true, false, false, false, true, false)), (String ((Ascii (true,
    false, true, false, true, true, true, false)), (String ((Ascii (false,
    false, false, false, true, true, true, false)), (String ((Ascii (false,
    false, false, true, false, true, true, false)), (String ((Ascii (false,
    true, true, true, false, false, true, false)), (String ((Ascii (true,
    true, true, true, false, true, true, false)), (String ((Ascii (false,
    true, true, true, false, true, true, false)), (String ((Ascii (true,
    true, false, false, false, true, true, false)), (String ((Ascii (true,
    false, true, false, false, true, true, false)),
    EmptyString)))))))))))))))))), (Zneg (Coq_xI (Coq_xI (Coq_xO (Coq_xO
    (Coq_xO (Coq_xO (Coq_xO (Coq_xO Coq_xH)))))))))) :: (((String ((Ascii
    (true, false, true, false, false, false, true, false)), (String ((Ascii
    (true, false, false, false, false, true, true, false)), (String ((Ascii
    (false, false, true, false, true, true, true, false)), (String ((Ascii
    (true, false, true, true, false, false, true, false)), (String ((Ascii
    (true, false, false, false, false, true, true, false)), (String ((Ascii
    (false, true, false, false, true, true, true, false)), (String ((Ascii
    (true, true, true, true, false, true, true, false)), (String ((Ascii
    (true, false, true, false, false, true, true, false)), (String ((Ascii
    (false, false, false, false, true, false, true, false)), (String ((Ascii
    (false, true, false, false, true, true, true, false)), (String ((Ascii
    (true, false, true, false, false, true, true, false)), (String ((Ascii
    (false, true, true, false, false, true, true, false)), (String ((Ascii
    (true, false, false, true, false, true, true, false)), (String ((Ascii
    (false, false, false, true, true, true, true, false)),
    EmptyString)))))))))))))))))))))))))))), (Zneg (Coq_xO (Coq_xI (Coq_xO
    (Coq_xO (Coq_xO (Coq_xO (Coq_xO (Coq_xO Coq_xH)))))))))) :: (((String
    ((Ascii (true, false, true, false, false, false, true, false)), (String
    ((Ascii (true, false, false, false, false, true, true, false)), (String
    ((Ascii (false, false, true, false, true, true, true, false)), (String
    ((Ascii (false, true, true, false, false, false, true, false)), (String
    ((Ascii (true, false, false, true, false, true, true, false)), (String
    ((Ascii (false, false, true, false, false, true, true, false)), (String
    ((Ascii (true, true, true, true, false, true, true, false)),
    EmptyString)))))))))))))), (Zneg (Coq_xI (Coq_xO (Coq_xO (Coq_xO (Coq_xO
    (Coq_xO (Coq_xO (Coq_xO Coq_xH)))))))))) :: (((String ((Ascii (false,
    true, false, false, true, false, true, false)), (String ((Ascii (true,
    false, true, false, false, true, true, false)), (String ((Ascii (true,
    true, false, false, true, true, true, false)), (String ((Ascii (true,
    false, true, false, false, true, true, false)), (String ((Ascii (false,
    true, false, false, true, true, true, false)), (String ((Ascii (false,
    true, true, false, true, true, true, false)), (String ((Ascii (true,
    false, true, false, false, true, true, false)), (String ((Ascii (false,
    false, true, false, false, true, true, false)),
    EmptyString)))))))))))))))), Z0) :: (((String ((Ascii (true, false,
    false, true, false, false, true, false)), (String ((Ascii (true, true,
    false, false, true, true, true, false)), (String ((Ascii (true, true,
    false, false, true, true, true, false)), EmptyString)))))), (Zpos
    Coq_xH)) :: (((String ((Ascii (true, true, false, false, true, false,
    true, false)), (String ((Ascii (true, false, true, false, true, true,
    true, false)), (String ((Ascii (false, true, false, false, false, true,
    true, false)), EmptyString)))))), (Zpos (Coq_xO Coq_xH))) :: (((String
    ((Ascii (true, false, false, false, false, false, true, false)), (String
    ((Ascii (true, false, true, false, true, true, true, false)), (String
    ((Ascii (false, false, true, false, false, true, true, false)),
    EmptyString)))))), (Zpos (Coq_xI Coq_xH))) :: (((String ((Ascii (true,
    false, true, false, false, false, true, false)), (String ((Ascii (false,
    false, false, true, true, true, true, false)), (String ((Ascii (false,
    false, false, false, true, true, true, false)), EmptyString)))))), (Zpos
    (Coq_xO (Coq_xO Coq_xH)))) :: (((String ((Ascii (false, true, true, true,
    false, false, true, false)), (String ((Ascii (false, true, false, false,
    false, true, true, false)), (String ((Ascii (false, true, true, false,
    false, true, true, false)), EmptyString)))))), (Zpos (Coq_xI (Coq_xO
    Coq_xH)))) :: (((String ((Ascii (true, false, false, true, false, false,
    true, false)), (String ((Ascii (true, false, false, false, false, true,
    true, false)), (String ((Ascii (false, false, true, false, true, true,
    true, false)), EmptyString)))))), (Zpos (Coq_xO (Coq_xI
    Coq_xH)))) :: (((String ((Ascii (true, true, false, false, false, false,
    true, false)), (String ((Ascii (false, false, true, false, true, true,
    true, false)), (String ((Ascii (true, false, false, true, false, true,
    true, false)), EmptyString)))))), (Zpos (Coq_xI (Coq_xI
    Coq_xH)))) :: (((String ((Ascii (true, true, false, false, false, false,
    true, false)), (String ((Ascii (false, true, true, true, false, true,
    true, false)), (String ((Ascii (false, true, true, false, false, true,
    true, false)), EmptyString)))))), (Zpos (Coq_xO (Coq_xO (Coq_xO
    Coq_xH))))) :: (((String ((Ascii (true, true, false, false, true, false,
    true, false)), (String ((Ascii (true, true, false, false, false, true,
    true, false)), (String ((Ascii (true, true, true, true, false, true,
    true, false)), (String ((Ascii (false, false, false, false, true, true,
    true, false)), (String ((Ascii (true, false, true, false, false, true,
    true, false)), EmptyString)))))))))), (Zpos (Coq_xI (Coq_xO (Coq_xO
    Coq_xH))))) :: (((String ((Ascii (true, false, false, false, false,
    false, true, false)), (String ((Ascii (true, true, false, false, false,
    true, true, false)), (String ((Ascii (true, false, true, false, false,
    true, true, false)), (String ((Ascii (false, false, false, false, true,
    false, true, false)), (String ((Ascii (false, true, false, false, true,
    true, true, false)), (String ((Ascii (true, true, true, true, false,
    true, true, false)), (String ((Ascii (false, true, true, false, false,
    true, true, false)), (String ((Ascii (true, false, false, true, false,
    true, true, false)), (String ((Ascii (false, false, true, true, false,
    true, true, false)), (String ((Ascii (true, false, true, false, false,
    true, true, false)), EmptyString)))))))))))))))))))), (Zpos (Coq_xO
    (Coq_xI (Coq_xI (Coq_xO (Coq_xO Coq_xH))))))) :: (((String ((Ascii (true,
    true, false, false, false, false, true, false)), (String ((Ascii (false,
    true, true, true, false, false, true, false)), (String ((Ascii (true,
    true, true, true, false, true, true, false)), (String ((Ascii (false,
    true, true, true, false, true, true, false)), (String ((Ascii (true,
    true, false, false, false, true, true, false)), (String ((Ascii (true,
    false, true, false, false, true, true, false)), EmptyString)))))))))))),
    (Zpos (Coq_xI (Coq_xI (Coq_xI (Coq_xO (Coq_xO Coq_xH))))))) :: (((String
    ((Ascii (true, false, true, false, false, false, true, false)), (String
    ((Ascii (false, false, false, true, true, true, true, false)), (String
    ((Ascii (true, false, false, true, false, true, true, false)),
    EmptyString)))))), (Zpos (Coq_xO (Coq_xO (Coq_xO (Coq_xI (Coq_xO
    Coq_xH))))))) :: []))))))))))))))))

(** val registries : (string * (string * coq_Z) list) list **)

let registries =
  ((String ((Ascii (false, false, false, true, false, false, true, false)),
    (String ((Ascii (true, false, true, false, false, true, true, false)),
    (String ((Ascii (true, false, false, false, false, true, true, false)),
    (String ((Ascii (false, false, true, false, false, true, true, false)),
    (String ((Ascii (true, false, true, false, false, true, true, false)),
    (String ((Ascii (false, true, false, false, true, true, true, false)),
    (String ((Ascii (false, false, false, false, true, false, true, false)),
    (String ((Ascii (true, false, false, false, false, true, true, false)),
    (String ((Ascii (false, true, false, false, true, true, true, false)),
    (String ((Ascii (true, false, false, false, false, true, true, false)),
    (String ((Ascii (true, false, true, true, false, true, true, false)),
    (String ((Ascii (true, false, true, false, false, true, true, false)),
    (String ((Ascii (false, false, true, false, true, true, true, false)),
    (String ((Ascii (true, false, true, false, false, true, true, false)),
    (String ((Ascii (false, true, false, false, true, true, true, false)),
    EmptyString)))))))))))))))))))))))))))))),
    coq_HeaderParameter_table) :: (((String ((Ascii (false, false, false,
    true, false, false, true, false)), (String ((Ascii (true, false, true,
    false, false, true, true, false)), (String ((Ascii (true, false, false,
    false, false, true, true, false)), (String ((Ascii (false, false, true,
    false, false, true, true, false)), (String ((Ascii (true, false, true,
    false, false, true, true, false)), (String ((Ascii (false, true, false,
    false, true, true, true, false)), (String ((Ascii (true, false, false,
    false, false, false, true, false)), (String ((Ascii (false, false, true,
    true, false, true, true, false)), (String ((Ascii (true, true, true,
    false, false, true, true, false)), (String ((Ascii (true, true, true,
    true, false, true, true, false)), (String ((Ascii (false, true, false,
    false, true, true, true, false)), (String ((Ascii (true, false, false,
    true, false, true, true, false)), (String ((Ascii (false, false, true,
    false, true, true, true, false)), (String ((Ascii (false, false, false,
    true, false, true, true, false)), (String ((Ascii (true, false, true,
    true, false, true, true, false)), (String ((Ascii (false, false, false,
    false, true, false, true, false)), (String ((Ascii (true, false, false,
    false, false, true, true, false)), (String ((Ascii (false, true, false,
    false, true, true, true, false)), (String ((Ascii (true, false, false,
    false, false, true, true, false)), (String ((Ascii (true, false, true,
    true, false, true, true, false)), (String ((Ascii (true, false, true,
    false, false, true, true, false)), (String ((Ascii (false, false, true,
    false, true, true, true, false)), (String ((Ascii (true, false, true,
    false, false, true, true, false)), (String ((Ascii (false, true, false,
    false, true, true, true, false)),
    EmptyString)))))))))))))))))))))))))))))))))))))))))))))))),
    coq_HeaderAlgorithmParameter_table) :: (((String ((Ascii (true, false,
    false, false, false, false, true, false)), (String ((Ascii (false, false,
    true, true, false, true, true, false)), (String ((Ascii (true, true,
    true, false, false, true, true, false)), (String ((Ascii (true, true,
    true, true, false, true, true, false)), (String ((Ascii (false, true,
    false, false, true, true, true, false)), (String ((Ascii (true, false,
    false, true, false, true, true, false)), (String ((Ascii (false, false,
    true, false, true, true, true, false)), (String ((Ascii (false, false,
    false, true, false, true, true, false)), (String ((Ascii (true, false,
    true, true, false, true, true, false)), EmptyString)))))))))))))))))),
    coq_Algorithm_table) :: (((String ((Ascii (true, true, false, true,
    false, false, true, false)), (String ((Ascii (true, false, true, false,
    false, true, true, false)), (String ((Ascii (true, false, false, true,
    true, true, true, false)), (String ((Ascii (false, false, false, false,
    true, false, true, false)), (String ((Ascii (true, false, false, false,
    false, true, true, false)), (String ((Ascii (false, true, false, false,
    true, true, true, false)), (String ((Ascii (true, false, false, false,
    false, true, true, false)), (String ((Ascii (true, false, true, true,
    false, true, true, false)), (String ((Ascii (true, false, true, false,
    false, true, true, false)), (String ((Ascii (false, false, true, false,
    true, true, true, false)), (String ((Ascii (true, false, true, false,
    false, true, true, false)), (String ((Ascii (false, true, false, false,
    true, true, true, false)), EmptyString)))))))))))))))))))))))),
    coq_KeyParameter_table) :: (((String ((Ascii (true, true, true, true,
    false, false, true, false)), (String ((Ascii (true, true, false, true,
    false, true, true, false)), (String ((Ascii (false, false, false, false,
    true, true, true, false)), (String ((Ascii (true, true, false, true,
    false, false, true, false)), (String ((Ascii (true, false, true, false,
    false, true, true, false)), (String ((Ascii (true, false, false, true,
    true, true, true, false)), (String ((Ascii (false, false, false, false,
    true, false, true, false)), (String ((Ascii (true, false, false, false,
    false, true, true, false)), (String ((Ascii (false, true, false, false,
    true, true, true, false)), (String ((Ascii (true, false, false, false,
    false, true, true, false)), (String ((Ascii (true, false, true, true,
    false, true, true, false)), (String ((Ascii (true, false, true, false,
    false, true, true, false)), (String ((Ascii (false, false, true, false,
    true, true, true, false)), (String ((Ascii (true, false, true, false,
    false, true, true, false)), (String ((Ascii (false, true, false, false,
    true, true, true, false)), EmptyString)))))))))))))))))))))))))))))),
    coq_OkpKeyParameter_table) :: (((String ((Ascii (true, false, true,
    false, false, false, true, false)), (String ((Ascii (true, true, false,
    false, false, true, true, false)), (String ((Ascii (false, true, false,
    false, true, true, false, false)), (String ((Ascii (true, true, false,
    true, false, false, true, false)), (String ((Ascii (true, false, true,
    false, false, true, true, false)), (String ((Ascii (true, false, false,
    true, true, true, true, false)), (String ((Ascii (false, false, false,
    false, true, false, true, false)), (String ((Ascii (true, false, false,
    false, false, true, true, false)), (String ((Ascii (false, true, false,
    false, true, true, true, false)), (String ((Ascii (true, false, false,
    false, false, true, true, false)), (String ((Ascii (true, false, true,
    true, false, true, true, false)), (String ((Ascii (true, false, true,
    false, false, true, true, false)), (String ((Ascii (false, false, true,
    false, true, true, true, false)), (String ((Ascii (true, false, true,
    false, false, true, true, false)), (String ((Ascii (false, true, false,
    false, true, true, true, false)),
    EmptyString)))))))))))))))))))))))))))))),
    coq_Ec2KeyParameter_table) :: (((String ((Ascii (false, true, false,
    false, true, false, true, false)), (String ((Ascii (true, true, false,
    false, true, true, true, false)), (String ((Ascii (true, false, false,
    false, false, true, true, false)), (String ((Ascii (true, true, false,
    true, false, false, true, false)), (String ((Ascii (true, false, true,
    false, false, true, true, false)), (String ((Ascii (true, false, false,
    true, true, true, true, false)), (String ((Ascii (false, false, false,
    false, true, false, true, false)), (String ((Ascii (true, false, false,
    false, false, true, true, false)), (String ((Ascii (false, true, false,
    false, true, true, true, false)), (String ((Ascii (true, false, false,
    false, false, true, true, false)), (String ((Ascii (true, false, true,
    true, false, true, true, false)), (String ((Ascii (true, false, true,
    false, false, true, true, false)), (String ((Ascii (false, false, true,
    false, true, true, true, false)), (String ((Ascii (true, false, true,
    false, false, true, true, false)), (String ((Ascii (false, true, false,
    false, true, true, true, false)),
    EmptyString)))))))))))))))))))))))))))))),
    coq_RsaKeyParameter_table) :: (((String ((Ascii (true, true, false,
    false, true, false, true, false)), (String ((Ascii (true, false, false,
    true, true, true, true, false)), (String ((Ascii (true, false, true,
    true, false, true, true, false)), (String ((Ascii (true, false, true,
    true, false, true, true, false)), (String ((Ascii (true, false, true,
    false, false, true, true, false)), (String ((Ascii (false, false, true,
    false, true, true, true, false)), (String ((Ascii (false, true, false,
    false, true, true, true, false)), (String ((Ascii (true, false, false,
    true, false, true, true, false)), (String ((Ascii (true, true, false,
    false, false, true, true, false)), (String ((Ascii (true, true, false,
    true, false, false, true, false)), (String ((Ascii (true, false, true,
    false, false, true, true, false)), (String ((Ascii (true, false, false,
    true, true, true, true, false)), (String ((Ascii (false, false, false,
    false, true, false, true, false)), (String ((Ascii (true, false, false,
    false, false, true, true, false)), (String ((Ascii (false, true, false,
    false, true, true, true, false)), (String ((Ascii (true, false, false,
    false, false, true, true, false)), (String ((Ascii (true, false, true,
    true, false, true, true, false)), (String ((Ascii (true, false, true,
    false, false, true, true, false)), (String ((Ascii (false, false, true,
    false, true, true, true, false)), (String ((Ascii (true, false, true,
    false, false, true, true, false)), (String ((Ascii (false, true, false,
    false, true, true, true, false)),
    EmptyString)))))))))))))))))))))))))))))))))))))))))),
    coq_SymmetricKeyParameter_table) :: (((String ((Ascii (false, false,
    false, true, false, false, true, false)), (String ((Ascii (true, true,
    false, false, true, true, true, false)), (String ((Ascii (true, true,
    false, false, true, true, true, false)), (String ((Ascii (false, false,
    true, true, false, false, true, false)), (String ((Ascii (true, false,
    true, true, false, true, true, false)), (String ((Ascii (true, true,
    false, false, true, true, true, false)), (String ((Ascii (true, true,
    false, true, false, false, true, false)), (String ((Ascii (true, false,
    true, false, false, true, true, false)), (String ((Ascii (true, false,
    false, true, true, true, true, false)), (String ((Ascii (false, false,
    false, false, true, false, true, false)), (String ((Ascii (true, false,
    false, false, false, true, true, false)), (String ((Ascii (false, true,
    false, false, true, true, true, false)), (String ((Ascii (true, false,
    false, false, false, true, true, false)), (String ((Ascii (true, false,
    true, true, false, true, true, false)), (String ((Ascii (true, false,
    true, false, false, true, true, false)), (String ((Ascii (false, false,
    true, false, true, true, true, false)), (String ((Ascii (true, false,
    true, false, false, true, true, false)), (String ((Ascii (false, true,
    false, false, true, true, true, false)),
    EmptyString)))))))))))))))))))))))))))))))))))),
    coq_HssLmsKeyParameter_table) :: (((String ((Ascii (true, true, true,
    false, true, false, true, false)), (String ((Ascii (true, false, false,
    false, false, true, true, false)), (String ((Ascii (false, false, true,
    true, false, true, true, false)), (String ((Ascii (false, true, true,
    true, false, true, true, false)), (String ((Ascii (true, false, true,
    false, true, true, true, false)), (String ((Ascii (false, false, true,
    false, true, true, true, false)), (String ((Ascii (false, false, true,
    false, false, false, true, false)), (String ((Ascii (true, true, false,
    false, true, true, true, false)), (String ((Ascii (true, false, false,
    false, false, true, true, false)), (String ((Ascii (true, true, false,
    true, false, false, true, false)), (String ((Ascii (true, false, true,
    false, false, true, true, false)), (String ((Ascii (true, false, false,
    true, true, true, true, false)), (String ((Ascii (false, false, false,
    false, true, false, true, false)), (String ((Ascii (true, false, false,
    false, false, true, true, false)), (String ((Ascii (false, true, false,
    false, true, true, true, false)), (String ((Ascii (true, false, false,
    false, false, true, true, false)), (String ((Ascii (true, false, true,
    true, false, true, true, false)), (String ((Ascii (true, false, true,
    false, false, true, true, false)), (String ((Ascii (false, false, true,
    false, true, true, true, false)), (String ((Ascii (true, false, true,
    false, false, true, true, false)), (String ((Ascii (false, true, false,
    false, true, true, true, false)),
    EmptyString)))))))))))))))))))))))))))))))))))))))))),
    coq_WalnutDsaKeyParameter_table) :: (((String ((Ascii (true, true, false,
    true, false, false, true, false)), (String ((Ascii (true, false, true,
    false, false, true, true, false)), (String ((Ascii (true, false, false,
    true, true, true, true, false)), (String ((Ascii (false, false, true,
    false, true, false, true, false)), (String ((Ascii (true, false, false,
    true, true, true, true, false)), (String ((Ascii (false, false, false,
    false, true, true, true, false)), (String ((Ascii (true, false, true,
    false, false, true, true, false)), EmptyString)))))))))))))),
    coq_KeyType_table) :: (((String ((Ascii (true, false, true, false, false,
    false, true, false)), (String ((Ascii (false, false, true, true, false,
    true, true, false)), (String ((Ascii (false, false, true, true, false,
    true, true, false)), (String ((Ascii (true, false, false, true, false,
    true, true, false)), (String ((Ascii (false, false, false, false, true,
    true, true, false)), (String ((Ascii (false, false, true, false, true,
    true, true, false)), (String ((Ascii (true, false, false, true, false,
    true, true, false)), (String ((Ascii (true, true, false, false, false,
    true, true, false)), (String ((Ascii (true, true, false, false, false,
    false, true, false)), (String ((Ascii (true, false, true, false, true,
    true, true, false)), (String ((Ascii (false, true, false, false, true,
    true, true, false)), (String ((Ascii (false, true, true, false, true,
    true, true, false)), (String ((Ascii (true, false, true, false, false,
    true, true, false)), EmptyString)))))))))))))))))))))))))),
    coq_EllipticCurve_table) :: (((String ((Ascii (true, true, false, true,
    false, false, true, false)), (String ((Ascii (true, false, true, false,
    false, true, true, false)), (String ((Ascii (true, false, false, true,
    true, true, true, false)), (String ((Ascii (true, true, true, true,
    false, false, true, false)), (String ((Ascii (false, false, false, false,
    true, true, true, false)), (String ((Ascii (true, false, true, false,
    false, true, true, false)), (String ((Ascii (false, true, false, false,
    true, true, true, false)), (String ((Ascii (true, false, false, false,
    false, true, true, false)), (String ((Ascii (false, false, true, false,
    true, true, true, false)), (String ((Ascii (true, false, false, true,
    false, true, true, false)), (String ((Ascii (true, true, true, true,
    false, true, true, false)), (String ((Ascii (false, true, true, true,
    false, true, true, false)), EmptyString)))))))))))))))))))))))),
    coq_KeyOperation_table) :: (((String ((Ascii (true, true, false, false,
    false, false, true, false)), (String ((Ascii (false, true, false, false,
    false, true, true, false)), (String ((Ascii (true, true, true, true,
    false, true, true, false)), (String ((Ascii (false, true, false, false,
    true, true, true, false)), (String ((Ascii (false, false, true, false,
    true, false, true, false)), (String ((Ascii (true, false, false, false,
    false, true, true, false)), (String ((Ascii (true, true, true, false,
    false, true, true, false)), EmptyString)))))))))))))),
    coq_CborTag_table) :: (((String ((Ascii (true, true, false, false, false,
    false, true, false)), (String ((Ascii (true, true, true, true, false,
    true, true, false)), (String ((Ascii (true, false, false, false, false,
    true, true, false)), (String ((Ascii (false, false, false, false, true,
    true, true, false)), (String ((Ascii (true, true, false, false, false,
    false, true, false)), (String ((Ascii (true, true, true, true, false,
    true, true, false)), (String ((Ascii (false, true, true, true, false,
    true, true, false)), (String ((Ascii (false, false, true, false, true,
    true, true, false)), (String ((Ascii (true, false, true, false, false,
    true, true, false)), (String ((Ascii (false, true, true, true, false,
    true, true, false)), (String ((Ascii (false, false, true, false, true,
    true, true, false)), (String ((Ascii (false, true, true, false, false,
    false, true, false)), (String ((Ascii (true, true, true, true, false,
    true, true, false)), (String ((Ascii (false, true, false, false, true,
    true, true, false)), (String ((Ascii (true, false, true, true, false,
    true, true, false)), (String ((Ascii (true, false, false, false, false,
    true, true, false)), (String ((Ascii (false, false, true, false, true,
    true, true, false)), EmptyString)))))))))))))))))))))))))))))))))),
    coq_CoapContentFormat_table) :: (((String ((Ascii (true, true, false,
    false, false, false, true, false)), (String ((Ascii (true, true, true,
    false, true, true, true, false)), (String ((Ascii (false, false, true,
    false, true, true, true, false)), (String ((Ascii (true, true, false,
    false, false, false, true, false)), (String ((Ascii (false, false, true,
    true, false, true, true, false)), (String ((Ascii (true, false, false,
    false, false, true, true, false)), (String ((Ascii (true, false, false,
    true, false, true, true, false)), (String ((Ascii (true, false, true,
    true, false, true, true, false)), (String ((Ascii (false, true, true,
    true, false, false, true, false)), (String ((Ascii (true, false, false,
    false, false, true, true, false)), (String ((Ascii (true, false, true,
    true, false, true, true, false)), (String ((Ascii (true, false, true,
    false, false, true, true, false)), EmptyString)))))))))))))))))))))))),
    coq_CwtClaimName_table) :: [])))))))))))))))

(** val private_ranges : (string * (string * coq_Z)) list **)

let private_ranges =
  ((String ((Ascii (false, false, false, true, false, false, true, false)),
    (String ((Ascii (true, false, true, false, false, true, true, false)),
    (String ((Ascii (true, false, false, false, false, true, true, false)),
    (String ((Ascii (false, false, true, false, false, true, true, false)),
    (String ((Ascii (true, false, true, false, false, true, true, false)),
    (String ((Ascii (false, true, false, false, true, true, true, false)),
    (String ((Ascii (false, false, false, false, true, false, true, false)),
    (String ((Ascii (true, false, false, false, false, true, true, false)),
    (String ((Ascii (false, true, false, false, true, true, true, false)),
    (String ((Ascii (true, false, false, false, false, true, true, false)),
    (String ((Ascii (true, false, true, true, false, true, true, false)),
    (String ((Ascii (true, false, true, false, false, true, true, false)),
    (String ((Ascii (false, false, true, false, true, true, true, false)),
    (String ((Ascii (true, false, true, false, false, true, true, false)),
    (String ((Ascii (false, true, false, false, true, true, true, false)),
    EmptyString)))))))))))))))))))))))))))))), ((String ((Ascii (false,
    false, true, true, true, true, false, false)), EmptyString)), (Zneg
    (Coq_xO (Coq_xO (Coq_xO (Coq_xO (Coq_xO (Coq_xO (Coq_xO (Coq_xO (Coq_xO
    (Coq_xO (Coq_xO (Coq_xO (Coq_xO (Coq_xO (Coq_xO (Coq_xO
    Coq_xH))))))))))))))))))) :: (((String ((Ascii (true, false, false,
    false, false, false, true, false)), (String ((Ascii (false, false, true,
    true, false, true, true, false)), (String ((Ascii (true, true, true,
    false, false, true, true, false)), (String ((Ascii (true, true, true,
    true, false, true, true, false)), (String ((Ascii (false, true, false,
    false, true, true, true, false)), (String ((Ascii (true, false, false,
    true, false, true, true, false)), (String ((Ascii (false, false, true,
    false, true, true, true, false)), (String ((Ascii (false, false, false,
    true, false, true, true, false)), (String ((Ascii (true, false, true,
    true, false, true, true, false)), EmptyString)))))))))))))))))), ((String
    ((Ascii (false, false, true, true, true, true, false, false)),
    EmptyString)), (Zneg (Coq_xO (Coq_xO (Coq_xO (Coq_xO (Coq_xO (Coq_xO
    (Coq_xO (Coq_xO (Coq_xO (Coq_xO (Coq_xO (Coq_xO (Coq_xO (Coq_xO (Coq_xO
    (Coq_xO Coq_xH))))))))))))))))))) :: (((String ((Ascii (true, false,
    true, false, false, false, true, false)), (String ((Ascii (false, false,
    true, true, false, true, true, false)), (String ((Ascii (false, false,
    true, true, false, true, true, false)), (String ((Ascii (true, false,
    false, true, false, true, true, false)), (String ((Ascii (false, false,
    false, false, true, true, true, false)), (String ((Ascii (false, false,
    true, false, true, true, true, false)), (String ((Ascii (true, false,
    false, true, false, true, true, false)), (String ((Ascii (true, true,
    false, false, false, true, true, false)), (String ((Ascii (true, true,
    false, false, false, false, true, false)), (String ((Ascii (true, false,
    true, false, true, true, true, false)), (String ((Ascii (false, true,
    false, false, true, true, true, false)), (String ((Ascii (false, true,
    true, false, true, true, true, false)), (String ((Ascii (true, false,
    true, false, false, true, true, false)),
    EmptyString)))))))))))))))))))))))))), ((String ((Ascii (false, false,
    true, true, true, true, false, false)), EmptyString)), (Zneg (Coq_xO
    (Coq_xO (Coq_xO (Coq_xO (Coq_xO (Coq_xO (Coq_xO (Coq_xO (Coq_xO (Coq_xO
    (Coq_xO (Coq_xO (Coq_xO (Coq_xO (Coq_xO (Coq_xO
    Coq_xH))))))))))))))))))) :: (((String ((Ascii (true, true, false, false,
    false, false, true, false)), (String ((Ascii (true, true, true, false,
    true, true, true, false)), (String ((Ascii (false, false, true, false,
    true, true, true, false)), (String ((Ascii (true, true, false, false,
    false, false, true, false)), (String ((Ascii (false, false, true, true,
    false, true, true, false)), (String ((Ascii (true, false, false, false,
    false, true, true, false)), (String ((Ascii (true, false, false, true,
    false, true, true, false)), (String ((Ascii (true, false, true, true,
    false, true, true, false)), (String ((Ascii (false, true, true, true,
    false, false, true, false)), (String ((Ascii (true, false, false, false,
    false, true, true, false)), (String ((Ascii (true, false, true, true,
    false, true, true, false)), (String ((Ascii (true, false, true, false,
    false, true, true, false)), EmptyString)))))))))))))))))))))))), ((String
    ((Ascii (false, false, true, true, true, true, false, false)),
    EmptyString)), (Zneg (Coq_xO (Coq_xO (Coq_xO (Coq_xO (Coq_xO (Coq_xO
    (Coq_xO (Coq_xO (Coq_xO (Coq_xO (Coq_xO (Coq_xO (Coq_xO (Coq_xO (Coq_xO
    (Coq_xO Coq_xH))))))))))))))))))) :: [])))

(** val sig_ctx_text : (string * string) list **)

let sig_ctx_text =
  ((String ((Ascii (true, true, false, false, false, false, true, false)),
    (String ((Ascii (true, true, true, true, false, true, true, false)),
    (String ((Ascii (true, true, false, false, true, true, true, false)),
    (String ((Ascii (true, false, true, false, false, true, true, false)),
    (String ((Ascii (true, true, false, false, true, false, true, false)),
    (String ((Ascii (true, false, false, true, false, true, true, false)),
    (String ((Ascii (true, true, true, false, false, true, true, false)),
    (String ((Ascii (false, true, true, true, false, true, true, false)),
    (String ((Ascii (true, false, false, false, false, true, true, false)),
    (String ((Ascii (false, false, true, false, true, true, true, false)),
    (String ((Ascii (true, false, true, false, true, true, true, false)),
    (String ((Ascii (false, true, false, false, true, true, true, false)),
    (String ((Ascii (true, false, true, false, false, true, true, false)),
    EmptyString)))))))))))))))))))))))))), (String ((Ascii (true, true,
    false, false, true, false, true, false)), (String ((Ascii (true, false,
    false, true, false, true, true, false)), (String ((Ascii (true, true,
    true, false, false, true, true, false)), (String ((Ascii (false, true,
    true, true, false, true, true, false)), (String ((Ascii (true, false,
    false, false, false, true, true, false)), (String ((Ascii (false, false,
    true, false, true, true, true, false)), (String ((Ascii (true, false,
    true, false, true, true, true, false)), (String ((Ascii (false, true,
    false, false, true, true, true, false)), (String ((Ascii (true, false,
    true, false, false, true, true, false)),
    EmptyString))))))))))))))))))) :: (((String ((Ascii (true, true, false,
    false, false, false, true, false)), (String ((Ascii (true, true, true,
    true, false, true, true, false)), (String ((Ascii (true, true, false,
    false, true, true, true, false)), (String ((Ascii (true, false, true,
    false, false, true, true, false)), (String ((Ascii (true, true, false,
    false, true, false, true, false)), (String ((Ascii (true, false, false,
    true, false, true, true, false)), (String ((Ascii (true, true, true,
    false, false, true, true, false)), (String ((Ascii (false, true, true,
    true, false, true, true, false)), (String ((Ascii (true, false, false,
    false, true, true, false, false)), EmptyString)))))))))))))))))), (String
    ((Ascii (true, true, false, false, true, false, true, false)), (String
    ((Ascii (true, false, false, true, false, true, true, false)), (String
    ((Ascii (true, true, true, false, false, true, true, false)), (String
    ((Ascii (false, true, true, true, false, true, true, false)), (String
    ((Ascii (true, false, false, false, false, true, true, false)), (String
    ((Ascii (false, false, true, false, true, true, true, false)), (String
    ((Ascii (true, false, true, false, true, true, true, false)), (String
    ((Ascii (false, true, false, false, true, true, true, false)), (String
    ((Ascii (true, false, true, false, false, true, true, false)), (String
    ((Ascii (true, false, false, false, true, true, false, false)),
    EmptyString))))))))))))))))))))) :: (((String ((Ascii (true, true, false,
    false, false, false, true, false)), (String ((Ascii (true, true, true,
    true, false, true, true, false)), (String ((Ascii (true, false, true,
    false, true, true, true, false)), (String ((Ascii (false, true, true,
    true, false, true, true, false)), (String ((Ascii (false, false, true,
    false, true, true, true, false)), (String ((Ascii (true, false, true,
    false, false, true, true, false)), (String ((Ascii (false, true, false,
    false, true, true, true, false)), (String ((Ascii (true, true, false,
    false, true, false, true, false)), (String ((Ascii (true, false, false,
    true, false, true, true, false)), (String ((Ascii (true, true, true,
    false, false, true, true, false)), (String ((Ascii (false, true, true,
    true, false, true, true, false)), (String ((Ascii (true, false, false,
    false, false, true, true, false)), (String ((Ascii (false, false, true,
    false, true, true, true, false)), (String ((Ascii (true, false, true,
    false, true, true, true, false)), (String ((Ascii (false, true, false,
    false, true, true, true, false)), (String ((Ascii (true, false, true,
    false, false, true, true, false)),
    EmptyString)))))))))))))))))))))))))))))))), (String ((Ascii (true, true,
    false, false, false, false, true, false)), (String ((Ascii (true, true,
    true, true, false, true, true, false)), (String ((Ascii (true, false,
    true, false, true, true, true, false)), (String ((Ascii (false, true,
    true, true, false, true, true, false)), (String ((Ascii (false, false,
    true, false, true, true, true, false)), (String ((Ascii (true, false,
    true, false, false, true, true, false)), (String ((Ascii (false, true,
    false, false, true, true, true, false)), (String ((Ascii (true, true,
    false, false, true, false, true, false)), (String ((Ascii (true, false,
    false, true, false, true, true, false)), (String ((Ascii (true, true,
    true, false, false, true, true, false)), (String ((Ascii (false, true,
    true, true, false, true, true, false)), (String ((Ascii (true, false,
    false, false, false, true, true, false)), (String ((Ascii (false, false,
    true, false, true, true, true, false)), (String ((Ascii (true, false,
    true, false, true, true, true, false)), (String ((Ascii (false, true,
    false, false, true, true, true, false)), (String ((Ascii (true, false,
    true, false, false, true, true, false)),
    EmptyString))))))))))))))))))))))))))))))))) :: []))

(** val mac_ctx_text : (string * string) list **)

let mac_ctx_text =
  ((String ((Ascii (true, true, false, false, false, false, true, false)),
    (String ((Ascii (true, true, true, true, false, true, true, false)),
    (String ((Ascii (true, true, false, false, true, true, true, false)),
    (String ((Ascii (true, false, true, false, false, true, true, false)),
    (String ((Ascii (true, false, true, true, false, false, true, false)),
    (String ((Ascii (true, false, false, false, false, true, true, false)),
    (String ((Ascii (true, true, false, false, false, true, true, false)),
    EmptyString)))))))))))))), (String ((Ascii (true, false, true, true,
    false, false, true, false)), (String ((Ascii (true, false, false, false,
    false, false, true, false)), (String ((Ascii (true, true, false, false,
    false, false, true, false)), EmptyString))))))) :: (((String ((Ascii
    (true, true, false, false, false, false, true, false)), (String ((Ascii
    (true, true, true, true, false, true, true, false)), (String ((Ascii
    (true, true, false, false, true, true, true, false)), (String ((Ascii
    (true, false, true, false, false, true, true, false)), (String ((Ascii
    (true, false, true, true, false, false, true, false)), (String ((Ascii
    (true, false, false, false, false, true, true, false)), (String ((Ascii
    (true, true, false, false, false, true, true, false)), (String ((Ascii
    (false, false, false, false, true, true, false, false)),
    EmptyString)))))))))))))))), (String ((Ascii (true, false, true, true,
    false, false, true, false)), (String ((Ascii (true, false, false, false,
    false, false, true, false)), (String ((Ascii (true, true, false, false,
    false, false, true, false)), (String ((Ascii (false, false, false, false,
    true, true, false, false)), EmptyString))))))))) :: [])

(** val enc_ctx_text : (string * string) list **)

let enc_ctx_text =
  ((String ((Ascii (true, true, false, false, false, false, true, false)),
    (String ((Ascii (true, true, true, true, false, true, true, false)),
    (String ((Ascii (true, true, false, false, true, true, true, false)),
    (String ((Ascii (true, false, true, false, false, true, true, false)),
    (String ((Ascii (true, false, true, false, false, false, true, false)),
    (String ((Ascii (false, true, true, true, false, true, true, false)),
    (String ((Ascii (true, true, false, false, false, true, true, false)),
    (String ((Ascii (false, true, false, false, true, true, true, false)),
    (String ((Ascii (true, false, false, true, true, true, true, false)),
    (String ((Ascii (false, false, false, false, true, true, true, false)),
    (String ((Ascii (false, false, true, false, true, true, true, false)),
    EmptyString)))))))))))))))))))))), (String ((Ascii (true, false, true,
    false, false, false, true, false)), (String ((Ascii (false, true, true,
    true, false, true, true, false)), (String ((Ascii (true, true, false,
    false, false, true, true, false)), (String ((Ascii (false, true, false,
    false, true, true, true, false)), (String ((Ascii (true, false, false,
    true, true, true, true, false)), (String ((Ascii (false, false, false,
    false, true, true, true, false)), (String ((Ascii (false, false, true,
    false, true, true, true, false)), EmptyString))))))))))))))) :: (((String
    ((Ascii (true, true, false, false, false, false, true, false)), (String
    ((Ascii (true, true, true, true, false, true, true, false)), (String
    ((Ascii (true, true, false, false, true, true, true, false)), (String
    ((Ascii (true, false, true, false, false, true, true, false)), (String
    ((Ascii (true, false, true, false, false, false, true, false)), (String
    ((Ascii (false, true, true, true, false, true, true, false)), (String
    ((Ascii (true, true, false, false, false, true, true, false)), (String
    ((Ascii (false, true, false, false, true, true, true, false)), (String
    ((Ascii (true, false, false, true, true, true, true, false)), (String
    ((Ascii (false, false, false, false, true, true, true, false)), (String
    ((Ascii (false, false, true, false, true, true, true, false)), (String
    ((Ascii (false, false, false, false, true, true, false, false)),
    EmptyString)))))))))))))))))))))))), (String ((Ascii (true, false, true,
    false, false, false, true, false)), (String ((Ascii (false, true, true,
    true, false, true, true, false)), (String ((Ascii (true, true, false,
    false, false, true, true, false)), (String ((Ascii (false, true, false,
    false, true, true, true, false)), (String ((Ascii (true, false, false,
    true, true, true, true, false)), (String ((Ascii (false, false, false,
    false, true, true, true, false)), (String ((Ascii (false, false, true,
    false, true, true, true, false)), (String ((Ascii (false, false, false,
    false, true, true, false, false)),
    EmptyString))))))))))))))))) :: (((String ((Ascii (true, false, true,
    false, false, false, true, false)), (String ((Ascii (false, true, true,
    true, false, true, true, false)), (String ((Ascii (true, true, false,
    false, false, true, true, false)), (String ((Ascii (false, true, false,
    false, true, false, true, false)), (String ((Ascii (true, false, true,
    false, false, true, true, false)), (String ((Ascii (true, true, false,
    false, false, true, true, false)), (String ((Ascii (true, false, false,
    true, false, true, true, false)), (String ((Ascii (false, false, false,
    false, true, true, true, false)), (String ((Ascii (true, false, false,
    true, false, true, true, false)), (String ((Ascii (true, false, true,
    false, false, true, true, false)), (String ((Ascii (false, true, true,
    true, false, true, true, false)), (String ((Ascii (false, false, true,
    false, true, true, true, false)), EmptyString)))))))))))))))))))))))),
    (String ((Ascii (true, false, true, false, false, false, true, false)),
    (String ((Ascii (false, true, true, true, false, true, true, false)),
    (String ((Ascii (true, true, false, false, false, true, true, false)),
    (String ((Ascii (true, true, true, true, true, false, true, false)),
    (String ((Ascii (false, true, false, false, true, false, true, false)),
    (String ((Ascii (true, false, true, false, false, true, true, false)),
    (String ((Ascii (true, true, false, false, false, true, true, false)),
    (String ((Ascii (true, false, false, true, false, true, true, false)),
    (String ((Ascii (false, false, false, false, true, true, true, false)),
    (String ((Ascii (true, false, false, true, false, true, true, false)),
    (String ((Ascii (true, false, true, false, false, true, true, false)),
    (String ((Ascii (false, true, true, true, false, true, true, false)),
    (String ((Ascii (false, false, true, false, true, true, true, false)),
    EmptyString))))))))))))))))))))))))))) :: (((String ((Ascii (true, false,
    true, true, false, false, true, false)), (String ((Ascii (true, false,
    false, false, false, true, true, false)), (String ((Ascii (true, true,
    false, false, false, true, true, false)), (String ((Ascii (false, true,
    false, false, true, false, true, false)), (String ((Ascii (true, false,
    true, false, false, true, true, false)), (String ((Ascii (true, true,
    false, false, false, true, true, false)), (String ((Ascii (true, false,
    false, true, false, true, true, false)), (String ((Ascii (false, false,
    false, false, true, true, true, false)), (String ((Ascii (true, false,
    false, true, false, true, true, false)), (String ((Ascii (true, false,
    true, false, false, true, true, false)), (String ((Ascii (false, true,
    true, true, false, true, true, false)), (String ((Ascii (false, false,
    true, false, true, true, true, false)),
    EmptyString)))))))))))))))))))))))), (String ((Ascii (true, false, true,
    true, false, false, true, false)), (String ((Ascii (true, false, false,
    false, false, true, true, false)), (String ((Ascii (true, true, false,
    false, false, true, true, false)), (String ((Ascii (true, true, true,
    true, true, false, true, false)), (String ((Ascii (false, true, false,
    false, true, false, true, false)), (String ((Ascii (true, false, true,
    false, false, true, true, false)), (String ((Ascii (true, true, false,
    false, false, true, true, false)), (String ((Ascii (true, false, false,
    true, false, true, true, false)), (String ((Ascii (false, false, false,
    false, true, true, true, false)), (String ((Ascii (true, false, false,
    true, false, true, true, false)), (String ((Ascii (true, false, true,
    false, false, true, true, false)), (String ((Ascii (false, true, true,
    true, false, true, true, false)), (String ((Ascii (false, false, true,
    false, true, true, true, false)),
    EmptyString))))))))))))))))))))))))))) :: (((String ((Ascii (false, true,
    false, false, true, false, true, false)), (String ((Ascii (true, false,
    true, false, false, true, true, false)), (String ((Ascii (true, true,
    false, false, false, true, true, false)), (String ((Ascii (false, true,
    false, false, true, false, true, false)), (String ((Ascii (true, false,
    true, false, false, true, true, false)), (String ((Ascii (true, true,
    false, false, false, true, true, false)), (String ((Ascii (true, false,
    false, true, false, true, true, false)), (String ((Ascii (false, false,
    false, false, true, true, true, false)), (String ((Ascii (true, false,
    false, true, false, true, true, false)), (String ((Ascii (true, false,
    true, false, false, true, true, false)), (String ((Ascii (false, true,
    true, true, false, true, true, false)), (String ((Ascii (false, false,
    true, false, true, true, true, false)),
    EmptyString)))))))))))))))))))))))), (String ((Ascii (false, true, false,
    false, true, false, true, false)), (String ((Ascii (true, false, true,
    false, false, true, true, false)), (String ((Ascii (true, true, false,
    false, false, true, true, false)), (String ((Ascii (true, true, true,
    true, true, false, true, false)), (String ((Ascii (false, true, false,
    false, true, false, true, false)), (String ((Ascii (true, false, true,
    false, false, true, true, false)), (String ((Ascii (true, true, false,
    false, false, true, true, false)), (String ((Ascii (true, false, false,
    true, false, true, true, false)), (String ((Ascii (false, false, false,
    false, true, true, true, false)), (String ((Ascii (true, false, false,
    true, false, true, true, false)), (String ((Ascii (true, false, true,
    false, false, true, true, false)), (String ((Ascii (false, true, true,
    true, false, true, true, false)), (String ((Ascii (false, false, true,
    false, true, true, true, false)),
    EmptyString))))))))))))))))))))))))))) :: []))))

(** val tag_of_type : (string * (string * string)) list **)

let tag_of_type =
  ((String ((Ascii (true, true, false, false, false, false, true, false)),
    (String ((Ascii (true, true, true, true, false, true, true, false)),
    (String ((Ascii (true, true, false, false, true, true, true, false)),
    (String ((Ascii (true, false, true, false, false, true, true, false)),
    (String ((Ascii (true, true, false, false, true, false, true, false)),
    (String ((Ascii (true, false, false, true, false, true, true, false)),
    (String ((Ascii (true, true, true, false, false, true, true, false)),
    (String ((Ascii (false, true, true, true, false, true, true, false)),
    EmptyString)))))))))))))))), ((String ((Ascii (true, true, false, false,
    false, false, true, false)), (String ((Ascii (false, true, false, false,
    false, true, true, false)), (String ((Ascii (true, true, true, true,
    false, true, true, false)), (String ((Ascii (false, true, false, false,
    true, true, true, false)), (String ((Ascii (false, false, true, false,
    true, false, true, false)), (String ((Ascii (true, false, false, false,
    false, true, true, false)), (String ((Ascii (true, true, true, false,
    false, true, true, false)), EmptyString)))))))))))))), (String ((Ascii
    (true, true, false, false, false, false, true, false)), (String ((Ascii
    (true, true, true, true, false, true, true, false)), (String ((Ascii
    (true, true, false, false, true, true, true, false)), (String ((Ascii
    (true, false, true, false, false, true, true, false)), (String ((Ascii
    (true, true, false, false, true, false, true, false)), (String ((Ascii
    (true, false, false, true, false, true, true, false)), (String ((Ascii
    (true, true, true, false, false, true, true, false)), (String ((Ascii
    (false, true, true, true, false, true, true, false)),
    EmptyString)))))))))))))))))) :: (((String ((Ascii (true, true, false,
    false, false, false, true, false)), (String ((Ascii (true, true, true,
    true, false, true, true, false)), (String ((Ascii (true, true, false,
    false, true, true, true, false)), (String ((Ascii (true, false, true,
    false, false, true, true, false)), (String ((Ascii (true, true, false,
    false, true, false, true, false)), (String ((Ascii (true, false, false,
    true, false, true, true, false)), (String ((Ascii (true, true, true,
    false, false, true, true, false)), (String ((Ascii (false, true, true,
    true, false, true, true, false)), (String ((Ascii (true, false, false,
    false, true, true, false, false)), EmptyString)))))))))))))))))),
    ((String ((Ascii (true, true, false, false, false, false, true, false)),
    (String ((Ascii (false, true, false, false, false, true, true, false)),
    (String ((Ascii (true, true, true, true, false, true, true, false)),
    (String ((Ascii (false, true, false, false, true, true, true, false)),
    (String ((Ascii (false, false, true, false, true, false, true, false)),
    (String ((Ascii (true, false, false, false, false, true, true, false)),
    (String ((Ascii (true, true, true, false, false, true, true, false)),
    EmptyString)))))))))))))), (String ((Ascii (true, true, false, false,
    false, false, true, false)), (String ((Ascii (true, true, true, true,
    false, true, true, false)), (String ((Ascii (true, true, false, false,
    true, true, true, false)), (String ((Ascii (true, false, true, false,
    false, true, true, false)), (String ((Ascii (true, true, false, false,
    true, false, true, false)), (String ((Ascii (true, false, false, true,
    false, true, true, false)), (String ((Ascii (true, true, true, false,
    false, true, true, false)), (String ((Ascii (false, true, true, true,
    false, true, true, false)), (String ((Ascii (true, false, false, false,
    true, true, false, false)), EmptyString)))))))))))))))))))) :: (((String
    ((Ascii (true, true, false, false, false, false, true, false)), (String
    ((Ascii (true, true, true, true, false, true, true, false)), (String
    ((Ascii (true, true, false, false, true, true, true, false)), (String
    ((Ascii (true, false, true, false, false, true, true, false)), (String
    ((Ascii (true, false, true, true, false, false, true, false)), (String
    ((Ascii (true, false, false, false, false, true, true, false)), (String
    ((Ascii (true, true, false, false, false, true, true, false)),
    EmptyString)))))))))))))), ((String ((Ascii (true, true, false, false,
    false, false, true, false)), (String ((Ascii (false, true, false, false,
    false, true, true, false)), (String ((Ascii (true, true, true, true,
    false, true, true, false)), (String ((Ascii (false, true, false, false,
    true, true, true, false)), (String ((Ascii (false, false, true, false,
    true, false, true, false)), (String ((Ascii (true, false, false, false,
    false, true, true, false)), (String ((Ascii (true, true, true, false,
    false, true, true, false)), EmptyString)))))))))))))), (String ((Ascii
    (true, true, false, false, false, false, true, false)), (String ((Ascii
    (true, true, true, true, false, true, true, false)), (String ((Ascii
    (true, true, false, false, true, true, true, false)), (String ((Ascii
    (true, false, true, false, false, true, true, false)), (String ((Ascii
    (true, false, true, true, false, false, true, false)), (String ((Ascii
    (true, false, false, false, false, true, true, false)), (String ((Ascii
    (true, true, false, false, false, true, true, false)),
    EmptyString)))))))))))))))) :: (((String ((Ascii (true, true, false,
    false, false, false, true, false)), (String ((Ascii (true, true, true,
    true, false, true, true, false)), (String ((Ascii (true, true, false,
    false, true, true, true, false)), (String ((Ascii (true, false, true,
    false, false, true, true, false)), (String ((Ascii (true, false, true,
    true, false, false, true, false)), (String ((Ascii (true, false, false,
    false, false, true, true, false)), (String ((Ascii (true, true, false,
    false, false, true, true, false)), (String ((Ascii (false, false, false,
    false, true, true, false, false)), EmptyString)))))))))))))))), ((String
    ((Ascii (true, true, false, false, false, false, true, false)), (String
    ((Ascii (false, true, false, false, false, true, true, false)), (String
    ((Ascii (true, true, true, true, false, true, true, false)), (String
    ((Ascii (false, true, false, false, true, true, true, false)), (String
    ((Ascii (false, false, true, false, true, false, true, false)), (String
    ((Ascii (true, false, false, false, false, true, true, false)), (String
    ((Ascii (true, true, true, false, false, true, true, false)),
    EmptyString)))))))))))))), (String ((Ascii (true, true, false, false,
    false, false, true, false)), (String ((Ascii (true, true, true, true,
    false, true, true, false)), (String ((Ascii (true, true, false, false,
    true, true, true, false)), (String ((Ascii (true, false, true, false,
    false, true, true, false)), (String ((Ascii (true, false, true, true,
    false, false, true, false)), (String ((Ascii (true, false, false, false,
    false, true, true, false)), (String ((Ascii (true, true, false, false,
    false, true, true, false)), (String ((Ascii (false, false, false, false,
    true, true, false, false)), EmptyString)))))))))))))))))) :: (((String
    ((Ascii (true, true, false, false, false, false, true, false)), (String
    ((Ascii (true, true, true, true, false, true, true, false)), (String
    ((Ascii (true, true, false, false, true, true, true, false)), (String
    ((Ascii (true, false, true, false, false, true, true, false)), (String
    ((Ascii (true, false, true, false, false, false, true, false)), (String
    ((Ascii (false, true, true, true, false, true, true, false)), (String
    ((Ascii (true, true, false, false, false, true, true, false)), (String
    ((Ascii (false, true, false, false, true, true, true, false)), (String
    ((Ascii (true, false, false, true, true, true, true, false)), (String
    ((Ascii (false, false, false, false, true, true, true, false)), (String
    ((Ascii (false, false, true, false, true, true, true, false)),
    EmptyString)))))))))))))))))))))), ((String ((Ascii (true, true, false,
    false, false, false, true, false)), (String ((Ascii (false, true, false,
    false, false, true, true, false)), (String ((Ascii (true, true, true,
    true, false, true, true, false)), (String ((Ascii (false, true, false,
    false, true, true, true, false)), (String ((Ascii (false, false, true,
    false, true, false, true, false)), (String ((Ascii (true, false, false,
    false, false, true, true, false)), (String ((Ascii (true, true, true,
    false, false, true, true, false)), EmptyString)))))))))))))), (String
    ((Ascii (true, true, false, false, false, false, true, false)), (String
    ((Ascii (true, true, true, true, false, true, true, false)), (String
    ((Ascii (true, true, false, false, true, true, true, false)), (String
    ((Ascii (true, false, true, false, false, true, true, false)), (String
    ((Ascii (true, false, true, false, false, false, true, false)), (String
    ((Ascii (false, true, true, true, false, true, true, false)), (String
    ((Ascii (true, true, false, false, false, true, true, false)), (String
    ((Ascii (false, true, false, false, true, true, true, false)), (String
    ((Ascii (true, false, false, true, true, true, true, false)), (String
    ((Ascii (false, false, false, false, true, true, true, false)), (String
    ((Ascii (false, false, true, false, true, true, true, false)),
    EmptyString)))))))))))))))))))))))) :: (((String ((Ascii (true, true,
    false, false, false, false, true, false)), (String ((Ascii (true, true,
    true, true, false, true, true, false)), (String ((Ascii (true, true,
    false, false, true, true, true, false)), (String ((Ascii (true, false,
    true, false, false, true, true, false)), (String ((Ascii (true, false,
    true, false, false, false, true, false)), (String ((Ascii (false, true,
    true, true, false, true, true, false)), (String ((Ascii (true, true,
    false, false, false, true, true, false)), (String ((Ascii (false, true,
    false, false, true, true, true, false)), (String ((Ascii (true, false,
    false, true, true, true, true, false)), (String ((Ascii (false, false,
    false, false, true, true, true, false)), (String ((Ascii (false, false,
    true, false, true, true, true, false)), (String ((Ascii (false, false,
    false, false, true, true, false, false)),
    EmptyString)))))))))))))))))))))))), ((String ((Ascii (true, true, false,
    false, false, false, true, false)), (String ((Ascii (false, true, false,
    false, false, true, true, false)), (String ((Ascii (true, true, true,
    true, false, true, true, false)), (String ((Ascii (false, true, false,
    false, true, true, true, false)), (String ((Ascii (false, false, true,
    false, true, false, true, false)), (String ((Ascii (true, false, false,
    false, false, true, true, false)), (String ((Ascii (true, true, true,
    false, false, true, true, false)), EmptyString)))))))))))))), (String
    ((Ascii (true, true, false, false, false, false, true, false)), (String
    ((Ascii (true, true, true, true, false, true, true, false)), (String
    ((Ascii (true, true, false, false, true, true, true, false)), (String
    ((Ascii (true, false, true, false, false, true, true, false)), (String
    ((Ascii (true, false, true, false, false, false, true, false)), (String
    ((Ascii (false, true, true, true, false, true, true, false)), (String
    ((Ascii (true, true, false, false, false, true, true, false)), (String
    ((Ascii (false, true, false, false, true, true, true, false)), (String
    ((Ascii (true, false, false, true, true, true, true, false)), (String
    ((Ascii (false, false, false, false, true, true, true, false)), (String
    ((Ascii (false, false, true, false, true, true, true, false)), (String
    ((Ascii (false, false, false, false, true, true, false, false)),
    EmptyString)))))))))))))))))))))))))) :: [])))))

(** val header_label_consts : (string * (string * string)) list **)

let header_label_consts =
  ((String ((Ascii (true, false, false, false, false, false, true, false)),
    (String ((Ascii (false, false, true, true, false, false, true, false)),
    (String ((Ascii (true, true, true, false, false, false, true, false)),
    EmptyString)))))), ((String ((Ascii (false, false, false, true, false,
    false, true, false)), (String ((Ascii (true, false, true, false, false,
    true, true, false)), (String ((Ascii (true, false, false, false, false,
    true, true, false)), (String ((Ascii (false, false, true, false, false,
    true, true, false)), (String ((Ascii (true, false, true, false, false,
    true, true, false)), (String ((Ascii (false, true, false, false, true,
    true, true, false)), (String ((Ascii (false, false, false, false, true,
    false, true, false)), (String ((Ascii (true, false, false, false, false,
    true, true, false)), (String ((Ascii (false, true, false, false, true,
    true, true, false)), (String ((Ascii (true, false, false, false, false,
    true, true, false)), (String ((Ascii (true, false, true, true, false,
    true, true, false)), (String ((Ascii (true, false, true, false, false,
    true, true, false)), (String ((Ascii (false, false, true, false, true,
    true, true, false)), (String ((Ascii (true, false, true, false, false,
    true, true, false)), (String ((Ascii (false, true, false, false, true,
    true, true, false)), EmptyString)))))))))))))))))))))))))))))), (String
    ((Ascii (true, false, false, false, false, false, true, false)), (String
    ((Ascii (false, false, true, true, false, true, true, false)), (String
    ((Ascii (true, true, true, false, false, true, true, false)),
    EmptyString)))))))) :: (((String ((Ascii (true, true, false, false,
    false, false, true, false)), (String ((Ascii (false, true, false, false,
    true, false, true, false)), (String ((Ascii (true, false, false, true,
    false, false, true, false)), (String ((Ascii (false, false, true, false,
    true, false, true, false)), EmptyString)))))))), ((String ((Ascii (false,
    false, false, true, false, false, true, false)), (String ((Ascii (true,
    false, true, false, false, true, true, false)), (String ((Ascii (true,
    false, false, false, false, true, true, false)), (String ((Ascii (false,
    false, true, false, false, true, true, false)), (String ((Ascii (true,
    false, true, false, false, true, true, false)), (String ((Ascii (false,
    true, false, false, true, true, true, false)), (String ((Ascii (false,
    false, false, false, true, false, true, false)), (String ((Ascii (true,
    false, false, false, false, true, true, false)), (String ((Ascii (false,
    true, false, false, true, true, true, false)), (String ((Ascii (true,
    false, false, false, false, true, true, false)), (String ((Ascii (true,
    false, true, true, false, true, true, false)), (String ((Ascii (true,
    false, true, false, false, true, true, false)), (String ((Ascii (false,
    false, true, false, true, true, true, false)), (String ((Ascii (true,
    false, true, false, false, true, true, false)), (String ((Ascii (false,
    true, false, false, true, true, true, false)),
    EmptyString)))))))))))))))))))))))))))))), (String ((Ascii (true, true,
    false, false, false, false, true, false)), (String ((Ascii (false, true,
    false, false, true, true, true, false)), (String ((Ascii (true, false,
    false, true, false, true, true, false)), (String ((Ascii (false, false,
    true, false, true, true, true, false)),
    EmptyString)))))))))) :: (((String ((Ascii (true, true, false, false,
    false, false, true, false)), (String ((Ascii (true, true, true, true,
    false, false, true, false)), (String ((Ascii (false, true, true, true,
    false, false, true, false)), (String ((Ascii (false, false, true, false,
    true, false, true, false)), (String ((Ascii (true, false, true, false,
    false, false, true, false)), (String ((Ascii (false, true, true, true,
    false, false, true, false)), (String ((Ascii (false, false, true, false,
    true, false, true, false)), (String ((Ascii (true, true, true, true,
    true, false, true, false)), (String ((Ascii (false, false, true, false,
    true, false, true, false)), (String ((Ascii (true, false, false, true,
    true, false, true, false)), (String ((Ascii (false, false, false, false,
    true, false, true, false)), (String ((Ascii (true, false, true, false,
    false, false, true, false)), EmptyString)))))))))))))))))))))))),
    ((String ((Ascii (false, false, false, true, false, false, true, false)),
    (String ((Ascii (true, false, true, false, false, true, true, false)),
    (String ((Ascii (true, false, false, false, false, true, true, false)),
    (String ((Ascii (false, false, true, false, false, true, true, false)),
    (String ((Ascii (true, false, true, false, false, true, true, false)),
    (String ((Ascii (false, true, false, false, true, true, true, false)),
    (String ((Ascii (false, false, false, false, true, false, true, false)),
    (String ((Ascii (true, false, false, false, false, true, true, false)),
    (String ((Ascii (false, true, false, false, true, true, true, false)),
    (String ((Ascii (true, false, false, false, false, true, true, false)),
    (String ((Ascii (true, false, true, true, false, true, true, false)),
    (String ((Ascii (true, false, true, false, false, true, true, false)),
    (String ((Ascii (false, false, true, false, true, true, true, false)),
    (String ((Ascii (true, false, true, false, false, true, true, false)),
    (String ((Ascii (false, true, false, false, true, true, true, false)),
    EmptyString)))))))))))))))))))))))))))))), (String ((Ascii (true, true,
    false, false, false, false, true, false)), (String ((Ascii (true, true,
    true, true, false, true, true, false)), (String ((Ascii (false, true,
    true, true, false, true, true, false)), (String ((Ascii (false, false,
    true, false, true, true, true, false)), (String ((Ascii (true, false,
    true, false, false, true, true, false)), (String ((Ascii (false, true,
    true, true, false, true, true, false)), (String ((Ascii (false, false,
    true, false, true, true, true, false)), (String ((Ascii (false, false,
    true, false, true, false, true, false)), (String ((Ascii (true, false,
    false, true, true, true, true, false)), (String ((Ascii (false, false,
    false, false, true, true, true, false)), (String ((Ascii (true, false,
    true, false, false, true, true, false)),
    EmptyString)))))))))))))))))))))))) :: (((String ((Ascii (true, true,
    false, true, false, false, true, false)), (String ((Ascii (true, false,
    false, true, false, false, true, false)), (String ((Ascii (false, false,
    true, false, false, false, true, false)), EmptyString)))))), ((String
    ((Ascii (false, false, false, true, false, false, true, false)), (String
    ((Ascii (true, false, true, false, false, true, true, false)), (String
    ((Ascii (true, false, false, false, false, true, true, false)), (String
    ((Ascii (false, false, true, false, false, true, true, false)), (String
    ((Ascii (true, false, true, false, false, true, true, false)), (String
    ((Ascii (false, true, false, false, true, true, true, false)), (String
    ((Ascii (false, false, false, false, true, false, true, false)), (String
    ((Ascii (true, false, false, false, false, true, true, false)), (String
    ((Ascii (false, true, false, false, true, true, true, false)), (String
    ((Ascii (true, false, false, false, false, true, true, false)), (String
    ((Ascii (true, false, true, true, false, true, true, false)), (String
    ((Ascii (true, false, true, false, false, true, true, false)), (String
    ((Ascii (false, false, true, false, true, true, true, false)), (String
    ((Ascii (true, false, true, false, false, true, true, false)), (String
    ((Ascii (false, true, false, false, true, true, true, false)),
    EmptyString)))))))))))))))))))))))))))))), (String ((Ascii (true, true,
    false, true, false, false, true, false)), (String ((Ascii (true, false,
    false, true, false, true, true, false)), (String ((Ascii (false, false,
    true, false, false, true, true, false)), EmptyString)))))))) :: (((String
    ((Ascii (true, false, false, true, false, false, true, false)), (String
    ((Ascii (false, true, true, false, true, false, true, false)),
    EmptyString)))), ((String ((Ascii (false, false, false, true, false,
    false, true, false)), (String ((Ascii (true, false, true, false, false,
    true, true, false)), (String ((Ascii (true, false, false, false, false,
    true, true, false)), (String ((Ascii (false, false, true, false, false,
    true, true, false)), (String ((Ascii (true, false, true, false, false,
    true, true, false)), (String ((Ascii (false, true, false, false, true,
    true, true, false)), (String ((Ascii (false, false, false, false, true,
    false, true, false)), (String ((Ascii (true, false, false, false, false,
    true, true, false)), (String ((Ascii (false, true, false, false, true,
    true, true, false)), (String ((Ascii (true, false, false, false, false,
    true, true, false)), (String ((Ascii (true, false, true, true, false,
    true, true, false)), (String ((Ascii (true, false, true, false, false,
    true, true, false)), (String ((Ascii (false, false, true, false, true,
    true, true, false)), (String ((Ascii (true, false, true, false, false,
    true, true, false)), (String ((Ascii (false, true, false, false, true,
    true, true, false)), EmptyString)))))))))))))))))))))))))))))), (String
    ((Ascii (true, false, false, true, false, false, true, false)), (String
    ((Ascii (false, true, true, false, true, true, true, false)),
    EmptyString)))))) :: (((String ((Ascii (false, false, false, false, true,
    false, true, false)), (String ((Ascii (true, false, false, false, false,
    false, true, false)), (String ((Ascii (false, true, false, false, true,
    false, true, false)), (String ((Ascii (false, false, true, false, true,
    false, true, false)), (String ((Ascii (true, false, false, true, false,
    false, true, false)), (String ((Ascii (true, false, false, false, false,
    false, true, false)), (String ((Ascii (false, false, true, true, false,
    false, true, false)), (String ((Ascii (true, true, true, true, true,
    false, true, false)), (String ((Ascii (true, false, false, true, false,
    false, true, false)), (String ((Ascii (false, true, true, false, true,
    false, true, false)), EmptyString)))))))))))))))))))), ((String ((Ascii
    (false, false, false, true, false, false, true, false)), (String ((Ascii
    (true, false, true, false, false, true, true, false)), (String ((Ascii
    (true, false, false, false, false, true, true, false)), (String ((Ascii
    (false, false, true, false, false, true, true, false)), (String ((Ascii
    (true, false, true, false, false, true, true, false)), (String ((Ascii
    (false, true, false, false, true, true, true, false)), (String ((Ascii
    (false, false, false, false, true, false, true, false)), (String ((Ascii
    (true, false, false, false, false, true, true, false)), (String ((Ascii
    (false, true, false, false, true, true, true, false)), (String ((Ascii
    (true, false, false, false, false, true, true, false)), (String ((Ascii
    (true, false, true, true, false, true, true, false)), (String ((Ascii
    (true, false, true, false, false, true, true, false)), (String ((Ascii
    (false, false, true, false, true, true, true, false)), (String ((Ascii
    (true, false, true, false, false, true, true, false)), (String ((Ascii
    (false, true, false, false, true, true, true, false)),
    EmptyString)))))))))))))))))))))))))))))), (String ((Ascii (false, false,
    false, false, true, false, true, false)), (String ((Ascii (true, false,
    false, false, false, true, true, false)), (String ((Ascii (false, true,
    false, false, true, true, true, false)), (String ((Ascii (false, false,
    true, false, true, true, true, false)), (String ((Ascii (true, false,
    false, true, false, true, true, false)), (String ((Ascii (true, false,
    false, false, false, true, true, false)), (String ((Ascii (false, false,
    true, true, false, true, true, false)), (String ((Ascii (true, false,
    false, true, false, false, true, false)), (String ((Ascii (false, true,
    true, false, true, true, true, false)),
    EmptyString)))))))))))))))))))) :: (((String ((Ascii (true, true, false,
    false, false, false, true, false)), (String ((Ascii (true, true, true,
    true, false, false, true, false)), (String ((Ascii (true, false, true,
    false, true, false, true, false)), (String ((Ascii (false, true, true,
    true, false, false, true, false)), (String ((Ascii (false, false, true,
    false, true, false, true, false)), (String ((Ascii (true, false, true,
    false, false, false, true, false)), (String ((Ascii (false, true, false,
    false, true, false, true, false)), (String ((Ascii (true, true, true,
    true, true, false, true, false)), (String ((Ascii (true, true, false,
    false, true, false, true, false)), (String ((Ascii (true, false, false,
    true, false, false, true, false)), (String ((Ascii (true, true, true,
    false, false, false, true, false)), EmptyString)))))))))))))))))))))),
    ((String ((Ascii (false, false, false, true, false, false, true, false)),
    (String ((Ascii (true, false, true, false, false, true, true, false)),
    (String ((Ascii (true, false, false, false, false, true, true, false)),
    (String ((Ascii (false, false, true, false, false, true, true, false)),
    (String ((Ascii (true, false, true, false, false, true, true, false)),
    (String ((Ascii (false, true, false, false, true, true, true, false)),
    (String ((Ascii (false, false, false, false, true, false, true, false)),
    (String ((Ascii (true, false, false, false, false, true, true, false)),
    (String ((Ascii (false, true, false, false, true, true, true, false)),
    (String ((Ascii (true, false, false, false, false, true, true, false)),
    (String ((Ascii (true, false, true, true, false, true, true, false)),
    (String ((Ascii (true, false, true, false, false, true, true, false)),
    (String ((Ascii (false, false, true, false, true, true, true, false)),
    (String ((Ascii (true, false, true, false, false, true, true, false)),
    (String ((Ascii (false, true, false, false, true, true, true, false)),
    EmptyString)))))))))))))))))))))))))))))), (String ((Ascii (true, true,
    false, false, false, false, true, false)), (String ((Ascii (true, true,
    true, true, false, true, true, false)), (String ((Ascii (true, false,
    true, false, true, true, true, false)), (String ((Ascii (false, true,
    true, true, false, true, true, false)), (String ((Ascii (false, false,
    true, false, true, true, true, false)), (String ((Ascii (true, false,
    true, false, false, true, true, false)), (String ((Ascii (false, true,
    false, false, true, true, true, false)), (String ((Ascii (true, true,
    false, false, true, false, true, false)), (String ((Ascii (true, false,
    false, true, false, true, true, false)), (String ((Ascii (true, true,
    true, false, false, true, true, false)), (String ((Ascii (false, true,
    true, true, false, true, true, false)), (String ((Ascii (true, false,
    false, false, false, true, true, false)), (String ((Ascii (false, false,
    true, false, true, true, true, false)), (String ((Ascii (true, false,
    true, false, true, true, true, false)), (String ((Ascii (false, true,
    false, false, true, true, true, false)), (String ((Ascii (true, false,
    true, false, false, true, true, false)),
    EmptyString)))))))))))))))))))))))))))))))))) :: []))))))

(** val key_label_consts : (string * (string * string)) list **)

let key_label_consts =
  ((String ((Ascii (true, true, false, true, false, false, true, false)),
    (String ((Ascii (false, false, true, false, true, false, true, false)),
    (String ((Ascii (true, false, false, true, true, false, true, false)),
    EmptyString)))))), ((String ((Ascii (true, true, false, true, false,
    false, true, false)), (String ((Ascii (true, false, true, false, false,
    true, true, false)), (String ((Ascii (true, false, false, true, true,
    true, true, false)), (String ((Ascii (false, false, false, false, true,
    false, true, false)), (String ((Ascii (true, false, false, false, false,
    true, true, false)), (String ((Ascii (false, true, false, false, true,
    true, true, false)), (String ((Ascii (true, false, false, false, false,
    true, true, false)), (String ((Ascii (true, false, true, true, false,
    true, true, false)), (String ((Ascii (true, false, true, false, false,
    true, true, false)), (String ((Ascii (false, false, true, false, true,
    true, true, false)), (String ((Ascii (true, false, true, false, false,
    true, true, false)), (String ((Ascii (false, true, false, false, true,
    true, true, false)), EmptyString)))))))))))))))))))))))), (String ((Ascii
    (true, true, false, true, false, false, true, false)), (String ((Ascii
    (false, false, true, false, true, true, true, false)), (String ((Ascii
    (true, false, false, true, true, true, true, false)),
    EmptyString)))))))) :: (((String ((Ascii (true, true, false, true, false,
    false, true, false)), (String ((Ascii (true, false, false, true, false,
    false, true, false)), (String ((Ascii (false, false, true, false, false,
    false, true, false)), EmptyString)))))), ((String ((Ascii (true, true,
    false, true, false, false, true, false)), (String ((Ascii (true, false,
    true, false, false, true, true, false)), (String ((Ascii (true, false,
    false, true, true, true, true, false)), (String ((Ascii (false, false,
    false, false, true, false, true, false)), (String ((Ascii (true, false,
    false, false, false, true, true, false)), (String ((Ascii (false, true,
    false, false, true, true, true, false)), (String ((Ascii (true, false,
    false, false, false, true, true, false)), (String ((Ascii (true, false,
    true, true, false, true, true, false)), (String ((Ascii (true, false,
    true, false, false, true, true, false)), (String ((Ascii (false, false,
    true, false, true, true, true, false)), (String ((Ascii (true, false,
    true, false, false, true, true, false)), (String ((Ascii (false, true,
    false, false, true, true, true, false)),
    EmptyString)))))))))))))))))))))))), (String ((Ascii (true, true, false,
    true, false, false, true, false)), (String ((Ascii (true, false, false,
    true, false, true, true, false)), (String ((Ascii (false, false, true,
    false, false, true, true, false)), EmptyString)))))))) :: (((String
    ((Ascii (true, false, false, false, false, false, true, false)), (String
    ((Ascii (false, false, true, true, false, false, true, false)), (String
    ((Ascii (true, true, true, false, false, false, true, false)),
    EmptyString)))))), ((String ((Ascii (true, true, false, true, false,
    false, true, false)), (String ((Ascii (true, false, true, false, false,
    true, true, false)), (String ((Ascii (true, false, false, true, true,
    true, true, false)), (String ((Ascii (false, false, false, false, true,
    false, true, false)), (String ((Ascii (true, false, false, false, false,
    true, true, false)), (String ((Ascii (false, true, false, false, true,
    true, true, false)), (String ((Ascii (true, false, false, false, false,
    true, true, false)), (String ((Ascii (true, false, true, true, false,
    true, true, false)), (String ((Ascii (true, false, true, false, false,
    true, true, false)), (String ((Ascii (false, false, true, false, true,
    true, true, false)), (String ((Ascii (true, false, true, false, false,
    true, true, false)), (String ((Ascii (false, true, false, false, true,
    true, true, false)), EmptyString)))))))))))))))))))))))), (String ((Ascii
    (true, false, false, false, false, false, true, false)), (String ((Ascii
    (false, false, true, true, false, true, true, false)), (String ((Ascii
    (true, true, true, false, false, true, true, false)),
    EmptyString)))))))) :: (((String ((Ascii (true, true, false, true, false,
    false, true, false)), (String ((Ascii (true, false, true, false, false,
    false, true, false)), (String ((Ascii (true, false, false, true, true,
    false, true, false)), (String ((Ascii (true, true, true, true, true,
    false, true, false)), (String ((Ascii (true, true, true, true, false,
    false, true, false)), (String ((Ascii (false, false, false, false, true,
    false, true, false)), (String ((Ascii (true, true, false, false, true,
    false, true, false)), EmptyString)))))))))))))), ((String ((Ascii (true,
    true, false, true, false, false, true, false)), (String ((Ascii (true,
    false, true, false, false, true, true, false)), (String ((Ascii (true,
    false, false, true, true, true, true, false)), (String ((Ascii (false,
    false, false, false, true, false, true, false)), (String ((Ascii (true,
    false, false, false, false, true, true, false)), (String ((Ascii (false,
    true, false, false, true, true, true, false)), (String ((Ascii (true,
    false, false, false, false, true, true, false)), (String ((Ascii (true,
    false, true, true, false, true, true, false)), (String ((Ascii (true,
    false, true, false, false, true, true, false)), (String ((Ascii (false,
    false, true, false, true, true, true, false)), (String ((Ascii (true,
    false, true, false, false, true, true, false)), (String ((Ascii (false,
    true, false, false, true, true, true, false)),
    EmptyString)))))))))))))))))))))))), (String ((Ascii (true, true, false,
    true, false, false, true, false)), (String ((Ascii (true, false, true,
    false, false, true, true, false)), (String ((Ascii (true, false, false,
    true, true, true, true, false)), (String ((Ascii (true, true, true, true,
    false, false, true, false)), (String ((Ascii (false, false, false, false,
    true, true, true, false)), (String ((Ascii (true, true, false, false,
    true, true, true, false)), EmptyString)))))))))))))) :: (((String ((Ascii
    (false, true, false, false, false, false, true, false)), (String ((Ascii
    (true, false, false, false, false, false, true, false)), (String ((Ascii
    (true, true, false, false, true, false, true, false)), (String ((Ascii
    (true, false, true, false, false, false, true, false)), (String ((Ascii
    (true, true, true, true, true, false, true, false)), (String ((Ascii
    (true, false, false, true, false, false, true, false)), (String ((Ascii
    (false, true, true, false, true, false, true, false)),
    EmptyString)))))))))))))), ((String ((Ascii (true, true, false, true,
    false, false, true, false)), (String ((Ascii (true, false, true, false,
    false, true, true, false)), (String ((Ascii (true, false, false, true,
    true, true, true, false)), (String ((Ascii (false, false, false, false,
    true, false, true, false)), (String ((Ascii (true, false, false, false,
    false, true, true, false)), (String ((Ascii (false, true, false, false,
    true, true, true, false)), (String ((Ascii (true, false, false, false,
    false, true, true, false)), (String ((Ascii (true, false, true, true,
    false, true, true, false)), (String ((Ascii (true, false, true, false,
    false, true, true, false)), (String ((Ascii (false, false, true, false,
    true, true, true, false)), (String ((Ascii (true, false, true, false,
    false, true, true, false)), (String ((Ascii (false, true, false, false,
    true, true, true, false)), EmptyString)))))))))))))))))))))))), (String
    ((Ascii (false, true, false, false, false, false, true, false)), (String
    ((Ascii (true, false, false, false, false, true, true, false)), (String
    ((Ascii (true, true, false, false, true, true, true, false)), (String
    ((Ascii (true, false, true, false, false, true, true, false)), (String
    ((Ascii (true, false, false, true, false, false, true, false)), (String
    ((Ascii (false, true, true, false, true, true, true, false)),
    EmptyString)))))))))))))) :: []))))

(** val claim_consts : (string * (string * string)) list **)

let claim_consts =
  ((String ((Ascii (true, false, false, true, false, false, true, false)),
    (String ((Ascii (true, true, false, false, true, false, true, false)),
    (String ((Ascii (true, true, false, false, true, false, true, false)),
    EmptyString)))))), ((String ((Ascii (true, true, false, false, false,
    false, true, false)), (String ((Ascii (true, true, true, false, true,
    true, true, false)), (String ((Ascii (false, false, true, false, true,
    true, true, false)), (String ((Ascii (true, true, false, false, false,
    false, true, false)), (String ((Ascii (false, false, true, true, false,
    true, true, false)), (String ((Ascii (true, false, false, false, false,
    true, true, false)), (String ((Ascii (true, false, false, true, false,
    true, true, false)), (String ((Ascii (true, false, true, true, false,
    true, true, false)), (String ((Ascii (false, true, true, true, false,
    false, true, false)), (String ((Ascii (true, false, false, false, false,
    true, true, false)), (String ((Ascii (true, false, true, true, false,
    true, true, false)), (String ((Ascii (true, false, true, false, false,
    true, true, false)), EmptyString)))))))))))))))))))))))), (String ((Ascii
    (true, false, false, true, false, false, true, false)), (String ((Ascii
    (true, true, false, false, true, true, true, false)), (String ((Ascii
    (true, true, false, false, true, true, true, false)),
    EmptyString)))))))) :: (((String ((Ascii (true, true, false, false, true,
    false, true, false)), (String ((Ascii (true, false, true, false, true,
    false, true, false)), (String ((Ascii (false, true, false, false, false,
    false, true, false)), EmptyString)))))), ((String ((Ascii (true, true,
    false, false, false, false, true, false)), (String ((Ascii (true, true,
    true, false, true, true, true, false)), (String ((Ascii (false, false,
    true, false, true, true, true, false)), (String ((Ascii (true, true,
    false, false, false, false, true, false)), (String ((Ascii (false, false,
    true, true, false, true, true, false)), (String ((Ascii (true, false,
    false, false, false, true, true, false)), (String ((Ascii (true, false,
    false, true, false, true, true, false)), (String ((Ascii (true, false,
    true, true, false, true, true, false)), (String ((Ascii (false, true,
    true, true, false, false, true, false)), (String ((Ascii (true, false,
    false, false, false, true, true, false)), (String ((Ascii (true, false,
    true, true, false, true, true, false)), (String ((Ascii (true, false,
    true, false, false, true, true, false)),
    EmptyString)))))))))))))))))))))))), (String ((Ascii (true, true, false,
    false, true, false, true, false)), (String ((Ascii (true, false, true,
    false, true, true, true, false)), (String ((Ascii (false, true, false,
    false, false, true, true, false)), EmptyString)))))))) :: (((String
    ((Ascii (true, false, false, false, false, false, true, false)), (String
    ((Ascii (true, false, true, false, true, false, true, false)), (String
    ((Ascii (false, false, true, false, false, false, true, false)),
    EmptyString)))))), ((String ((Ascii (true, true, false, false, false,
    false, true, false)), (String ((Ascii (true, true, true, false, true,
    true, true, false)), (String ((Ascii (false, false, true, false, true,
    true, true, false)), (String ((Ascii (true, true, false, false, false,
    false, true, false)), (String ((Ascii (false, false, true, true, false,
    true, true, false)), (String ((Ascii (true, false, false, false, false,
    true, true, false)), (String ((Ascii (true, false, false, true, false,
    true, true, false)), (String ((Ascii (true, false, true, true, false,
    true, true, false)), (String ((Ascii (false, true, true, true, false,
    false, true, false)), (String ((Ascii (true, false, false, false, false,
    true, true, false)), (String ((Ascii (true, false, true, true, false,
    true, true, false)), (String ((Ascii (true, false, true, false, false,
    true, true, false)), EmptyString)))))))))))))))))))))))), (String ((Ascii
    (true, false, false, false, false, false, true, false)), (String ((Ascii
    (true, false, true, false, true, true, true, false)), (String ((Ascii
    (false, false, true, false, false, true, true, false)),
    EmptyString)))))))) :: (((String ((Ascii (true, false, true, false,
    false, false, true, false)), (String ((Ascii (false, false, false, true,
    true, false, true, false)), (String ((Ascii (false, false, false, false,
    true, false, true, false)), EmptyString)))))), ((String ((Ascii (true,
    true, false, false, false, false, true, false)), (String ((Ascii (true,
    true, true, false, true, true, true, false)), (String ((Ascii (false,
    false, true, false, true, true, true, false)), (String ((Ascii (true,
    true, false, false, false, false, true, false)), (String ((Ascii (false,
    false, true, true, false, true, true, false)), (String ((Ascii (true,
    false, false, false, false, true, true, false)), (String ((Ascii (true,
    false, false, true, false, true, true, false)), (String ((Ascii (true,
    false, true, true, false, true, true, false)), (String ((Ascii (false,
    true, true, true, false, false, true, false)), (String ((Ascii (true,
    false, false, false, false, true, true, false)), (String ((Ascii (true,
    false, true, true, false, true, true, false)), (String ((Ascii (true,
    false, true, false, false, true, true, false)),
    EmptyString)))))))))))))))))))))))), (String ((Ascii (true, false, true,
    false, false, false, true, false)), (String ((Ascii (false, false, false,
    true, true, true, true, false)), (String ((Ascii (false, false, false,
    false, true, true, true, false)), EmptyString)))))))) :: (((String
    ((Ascii (false, true, true, true, false, false, true, false)), (String
    ((Ascii (false, true, false, false, false, false, true, false)), (String
    ((Ascii (false, true, true, false, false, false, true, false)),
    EmptyString)))))), ((String ((Ascii (true, true, false, false, false,
    false, true, false)), (String ((Ascii (true, true, true, false, true,
    true, true, false)), (String ((Ascii (false, false, true, false, true,
    true, true, false)), (String ((Ascii (true, true, false, false, false,
    false, true, false)), (String ((Ascii (false, false, true, true, false,
    true, true, false)), (String ((Ascii (true, false, false, false, false,
    true, true, false)), (String ((Ascii (true, false, false, true, false,
    true, true, false)), (String ((Ascii (true, false, true, true, false,
    true, true, false)), (String ((Ascii (false, true, true, true, false,
    false, true, false)), (String ((Ascii (true, false, false, false, false,
    true, true, false)), (String ((Ascii (true, false, true, true, false,
    true, true, false)), (String ((Ascii (true, false, true, false, false,
    true, true, false)), EmptyString)))))))))))))))))))))))), (String ((Ascii
    (false, true, true, true, false, false, true, false)), (String ((Ascii
    (false, true, false, false, false, true, true, false)), (String ((Ascii
    (false, true, true, false, false, true, true, false)),
    EmptyString)))))))) :: (((String ((Ascii (true, false, false, true,
    false, false, true, false)), (String ((Ascii (true, false, false, false,
    false, false, true, false)), (String ((Ascii (false, false, true, false,
    true, false, true, false)), EmptyString)))))), ((String ((Ascii (true,
    true, false, false, false, false, true, false)), (String ((Ascii (true,
    true, true, false, true, true, true, false)), (String ((Ascii (false,
    false, true, false, true, true, true, false)), (String ((Ascii (true,
    true, false, false, false, false, true, false)), (String ((Ascii (false,
    false, true, true, false, true, true, false)), (String ((Ascii (true,
    false, false, false, false, true, true, false)), (String ((Ascii (true,
    false, false, true, false, true, true, false)), (String ((Ascii (true,
    false, true, true, false, true, true, false)), (String ((Ascii (false,
    true, true, true, false, false, true, false)), (String ((Ascii (true,
    false, false, false, false, true, true, false)), (String ((Ascii (true,
    false, true, true, false, true, true, false)), (String ((Ascii (true,
    false, true, false, false, true, true, false)),
    EmptyString)))))))))))))))))))))))), (String ((Ascii (true, false, false,
    true, false, false, true, false)), (String ((Ascii (true, false, false,
    false, false, true, true, false)), (String ((Ascii (false, false, true,
    false, true, true, true, false)), EmptyString)))))))) :: (((String
    ((Ascii (true, true, false, false, false, false, true, false)), (String
    ((Ascii (false, false, true, false, true, false, true, false)), (String
    ((Ascii (true, false, false, true, false, false, true, false)),
    EmptyString)))))), ((String ((Ascii (true, true, false, false, false,
    false, true, false)), (String ((Ascii (true, true, true, false, true,
    true, true, false)), (String ((Ascii (false, false, true, false, true,
    true, true, false)), (String ((Ascii (true, true, false, false, false,
    false, true, false)), (String ((Ascii (false, false, true, true, false,
    true, true, false)), (String ((Ascii (true, false, false, false, false,
    true, true, false)), (String ((Ascii (true, false, false, true, false,
    true, true, false)), (String ((Ascii (true, false, true, true, false,
    true, true, false)), (String ((Ascii (false, true, true, true, false,
    false, true, false)), (String ((Ascii (true, false, false, false, false,
    true, true, false)), (String ((Ascii (true, false, true, true, false,
    true, true, false)), (String ((Ascii (true, false, true, false, false,
    true, true, false)), EmptyString)))))))))))))))))))))))), (String ((Ascii
    (true, true, false, false, false, false, true, false)), (String ((Ascii
    (false, false, true, false, true, true, true, false)), (String ((Ascii
    (true, false, false, true, false, true, true, false)),
    EmptyString)))))))) :: []))))))

(** val arity_of_type : (string * (string * coq_Z list)) list **)

let arity_of_type =
  ((String ((Ascii (true, true, false, false, false, false, true, false)),
    (String ((Ascii (true, true, true, true, false, true, true, false)),
    (String ((Ascii (true, true, false, false, true, true, true, false)),
    (String ((Ascii (true, false, true, false, false, true, true, false)),
    (String ((Ascii (true, true, false, false, true, false, true, false)),
    (String ((Ascii (true, false, false, true, false, true, true, false)),
    (String ((Ascii (true, true, true, false, false, true, true, false)),
    (String ((Ascii (false, true, true, true, false, true, true, false)),
    (String ((Ascii (true, false, false, false, false, true, true, false)),
    (String ((Ascii (false, false, true, false, true, true, true, false)),
    (String ((Ascii (true, false, true, false, true, true, true, false)),
    (String ((Ascii (false, true, false, false, true, true, true, false)),
    (String ((Ascii (true, false, true, false, false, true, true, false)),
    EmptyString)))))))))))))))))))))))))), ((String ((Ascii (true, false,
    false, true, false, true, true, false)), (String ((Ascii (false, true,
    true, true, false, true, true, false)), EmptyString)))), ((Zpos (Coq_xI
    Coq_xH)) :: []))) :: (((String ((Ascii (true, true, false, false, false,
    false, true, false)), (String ((Ascii (true, true, true, true, false,
    true, true, false)), (String ((Ascii (true, true, false, false, true,
    true, true, false)), (String ((Ascii (true, false, true, false, false,
    true, true, false)), (String ((Ascii (true, true, false, false, true,
    false, true, false)), (String ((Ascii (true, false, false, true, false,
    true, true, false)), (String ((Ascii (true, true, true, false, false,
    true, true, false)), (String ((Ascii (false, true, true, true, false,
    true, true, false)), EmptyString)))))))))))))))), ((String ((Ascii (true,
    false, false, true, false, true, true, false)), (String ((Ascii (false,
    true, true, true, false, true, true, false)), EmptyString)))), ((Zpos
    (Coq_xO (Coq_xO Coq_xH))) :: []))) :: (((String ((Ascii (true, true,
    false, false, false, false, true, false)), (String ((Ascii (true, true,
    true, true, false, true, true, false)), (String ((Ascii (true, true,
    false, false, true, true, true, false)), (String ((Ascii (true, false,
    true, false, false, true, true, false)), (String ((Ascii (true, true,
    false, false, true, false, true, false)), (String ((Ascii (true, false,
    false, true, false, true, true, false)), (String ((Ascii (true, true,
    true, false, false, true, true, false)), (String ((Ascii (false, true,
    true, true, false, true, true, false)), (String ((Ascii (true, false,
    false, false, true, true, false, false)), EmptyString)))))))))))))))))),
    ((String ((Ascii (true, false, false, true, false, true, true, false)),
    (String ((Ascii (false, true, true, true, false, true, true, false)),
    EmptyString)))), ((Zpos (Coq_xO (Coq_xO Coq_xH))) :: []))) :: (((String
    ((Ascii (true, true, false, false, false, false, true, false)), (String
    ((Ascii (true, true, true, true, false, true, true, false)), (String
    ((Ascii (true, true, false, false, true, true, true, false)), (String
    ((Ascii (true, false, true, false, false, true, true, false)), (String
    ((Ascii (true, false, true, true, false, false, true, false)), (String
    ((Ascii (true, false, false, false, false, true, true, false)), (String
    ((Ascii (true, true, false, false, false, true, true, false)),
    EmptyString)))))))))))))), ((String ((Ascii (true, false, false, true,
    false, true, true, false)), (String ((Ascii (false, true, true, true,
    false, true, true, false)), EmptyString)))), ((Zpos (Coq_xI (Coq_xO
    Coq_xH))) :: []))) :: (((String ((Ascii (true, true, false, false, false,
    false, true, false)), (String ((Ascii (true, true, true, true, false,
    true, true, false)), (String ((Ascii (true, true, false, false, true,
    true, true, false)), (String ((Ascii (true, false, true, false, false,
    true, true, false)), (String ((Ascii (true, false, true, true, false,
    false, true, false)), (String ((Ascii (true, false, false, false, false,
    true, true, false)), (String ((Ascii (true, true, false, false, false,
    true, true, false)), (String ((Ascii (false, false, false, false, true,
    true, false, false)), EmptyString)))))))))))))))), ((String ((Ascii
    (true, false, false, true, false, true, true, false)), (String ((Ascii
    (false, true, true, true, false, true, true, false)), EmptyString)))),
    ((Zpos (Coq_xO (Coq_xO Coq_xH))) :: []))) :: (((String ((Ascii (true,
    true, false, false, false, false, true, false)), (String ((Ascii (true,
    true, true, true, false, true, true, false)), (String ((Ascii (true,
    true, false, false, true, true, true, false)), (String ((Ascii (true,
    false, true, false, false, true, true, false)), (String ((Ascii (false,
    true, false, false, true, false, true, false)), (String ((Ascii (true,
    false, true, false, false, true, true, false)), (String ((Ascii (true,
    true, false, false, false, true, true, false)), (String ((Ascii (true,
    false, false, true, false, true, true, false)), (String ((Ascii (false,
    false, false, false, true, true, true, false)), (String ((Ascii (true,
    false, false, true, false, true, true, false)), (String ((Ascii (true,
    false, true, false, false, true, true, false)), (String ((Ascii (false,
    true, true, true, false, true, true, false)), (String ((Ascii (false,
    false, true, false, true, true, true, false)),
    EmptyString)))))))))))))))))))))))))), ((String ((Ascii (true, false,
    false, true, false, true, true, false)), (String ((Ascii (false, true,
    true, true, false, true, true, false)), EmptyString)))), ((Zpos (Coq_xI
    Coq_xH)) :: ((Zpos (Coq_xO (Coq_xO Coq_xH))) :: [])))) :: (((String
    ((Ascii (true, true, false, false, false, false, true, false)), (String
    ((Ascii (true, true, true, true, false, true, true, false)), (String
    ((Ascii (true, true, false, false, true, true, true, false)), (String
    ((Ascii (true, false, true, false, false, true, true, false)), (String
    ((Ascii (true, false, true, false, false, false, true, false)), (String
    ((Ascii (false, true, true, true, false, true, true, false)), (String
    ((Ascii (true, true, false, false, false, true, true, false)), (String
    ((Ascii (false, true, false, false, true, true, true, false)), (String
    ((Ascii (true, false, false, true, true, true, true, false)), (String
    ((Ascii (false, false, false, false, true, true, true, false)), (String
    ((Ascii (false, false, true, false, true, true, true, false)),
    EmptyString)))))))))))))))))))))), ((String ((Ascii (true, false, false,
    true, false, true, true, false)), (String ((Ascii (false, true, true,
    true, false, true, true, false)), EmptyString)))), ((Zpos (Coq_xO (Coq_xO
    Coq_xH))) :: []))) :: (((String ((Ascii (true, true, false, false, false,
    false, true, false)), (String ((Ascii (true, true, true, true, false,
    true, true, false)), (String ((Ascii (true, true, false, false, true,
    true, true, false)), (String ((Ascii (true, false, true, false, false,
    true, true, false)), (String ((Ascii (true, false, true, false, false,
    false, true, false)), (String ((Ascii (false, true, true, true, false,
    true, true, false)), (String ((Ascii (true, true, false, false, false,
    true, true, false)), (String ((Ascii (false, true, false, false, true,
    true, true, false)), (String ((Ascii (true, false, false, true, true,
    true, true, false)), (String ((Ascii (false, false, false, false, true,
    true, true, false)), (String ((Ascii (false, false, true, false, true,
    true, true, false)), (String ((Ascii (false, false, false, false, true,
    true, false, false)), EmptyString)))))))))))))))))))))))), ((String
    ((Ascii (true, false, false, true, false, true, true, false)), (String
    ((Ascii (false, true, true, true, false, true, true, false)),
    EmptyString)))), ((Zpos (Coq_xI Coq_xH)) :: []))) :: (((String ((Ascii
    (false, false, false, false, true, false, true, false)), (String ((Ascii
    (true, false, false, false, false, true, true, false)), (String ((Ascii
    (false, true, false, false, true, true, true, false)), (String ((Ascii
    (false, false, true, false, true, true, true, false)), (String ((Ascii
    (true, false, false, true, true, true, true, false)), (String ((Ascii
    (true, false, false, true, false, false, true, false)), (String ((Ascii
    (false, true, true, true, false, true, true, false)), (String ((Ascii
    (false, true, true, false, false, true, true, false)), (String ((Ascii
    (true, true, true, true, false, true, true, false)),
    EmptyString)))))))))))))))))), ((String ((Ascii (true, false, false,
    true, false, true, true, false)), (String ((Ascii (false, true, true,
    true, false, true, true, false)), EmptyString)))), ((Zpos (Coq_xI
    Coq_xH)) :: []))) :: (((String ((Ascii (true, true, false, false, true,
    false, true, false)), (String ((Ascii (true, false, true, false, true,
    true, true, false)), (String ((Ascii (false, false, false, false, true,
    true, true, false)), (String ((Ascii (false, false, false, false, true,
    true, true, false)), (String ((Ascii (false, false, false, false, true,
    false, true, false)), (String ((Ascii (true, false, true, false, true,
    true, true, false)), (String ((Ascii (false, true, false, false, false,
    true, true, false)), (String ((Ascii (true, false, false, true, false,
    false, true, false)), (String ((Ascii (false, true, true, true, false,
    true, true, false)), (String ((Ascii (false, true, true, false, false,
    true, true, false)), (String ((Ascii (true, true, true, true, false,
    true, true, false)), EmptyString)))))))))))))))))))))), ((String ((Ascii
    (true, false, false, true, false, true, true, false)), (String ((Ascii
    (false, true, true, true, false, true, true, false)), EmptyString)))),
    ((Zpos (Coq_xO Coq_xH)) :: ((Zpos (Coq_xI Coq_xH)) :: [])))) :: (((String
    ((Ascii (true, true, false, false, false, false, true, false)), (String
    ((Ascii (true, true, true, true, false, true, true, false)), (String
    ((Ascii (true, true, false, false, true, true, true, false)), (String
    ((Ascii (true, false, true, false, false, true, true, false)), (String
    ((Ascii (true, true, false, true, false, false, true, false)), (String
    ((Ascii (false, false, true, false, false, true, true, false)), (String
    ((Ascii (false, true, true, false, false, true, true, false)), (String
    ((Ascii (true, true, false, false, false, false, true, false)), (String
    ((Ascii (true, true, true, true, false, true, true, false)), (String
    ((Ascii (false, true, true, true, false, true, true, false)), (String
    ((Ascii (false, false, true, false, true, true, true, false)), (String
    ((Ascii (true, false, true, false, false, true, true, false)), (String
    ((Ascii (false, false, false, true, true, true, true, false)), (String
    ((Ascii (false, false, true, false, true, true, true, false)),
    EmptyString)))))))))))))))))))))))))))), ((String ((Ascii (true, true,
    true, false, false, true, true, false)), (String ((Ascii (true, false,
    true, false, false, true, true, false)), EmptyString)))), ((Zpos (Coq_xO
    (Coq_xO Coq_xH))) :: []))) :: []))))))))))

(** val protected_nesting_limit : (nat * string) option **)

let protected_nesting_limit =
  Some ((S (S (S (S (S (S (S (S (S (S (S (S (S (S (S (S O)))))))))))))))),
    (String ((Ascii (false, true, true, true, true, true, false, false)),
    (String ((Ascii (true, false, true, true, true, true, false, false)),
    EmptyString)))))
