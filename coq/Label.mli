open BinInt
open BinNat
open BinNums
open Cbor
open Datatypes
open Iana
open List
open PeanoNat
open Prelude
open String

type label =
| LInt of coq_Z
| LText of bytes

type reg_label =
| RAssigned of coq_Z
| RText of bytes

type regp_label =
| PPrivate of coq_Z
| PAssigned of coq_Z
| PText of bytes

val in_i64 : coq_Z -> bool

val in_u64 : coq_Z -> bool

val to_i64_res : coq_Z -> coq_Z res

val to_u64_res : coq_Z -> coq_Z res

val label_from_value : value -> label res

val label_to_value : label -> value

val reg_from_value : (string * coq_Z) list -> value -> reg_label res

val reg_to_value : reg_label -> value

val regp_from_value : string -> value -> regp_label res

val regp_to_value : regp_label -> value

val bytes_cmp : bytes -> bytes -> comparison

val then_cmp : comparison -> comparison -> comparison

val text_cmp : bytes -> bytes -> comparison

val int_cmp : coq_Z -> coq_Z -> comparison

val label_cmp : label -> label -> comparison

val reg_cmp : reg_label -> reg_label -> comparison

val regp_cmp : regp_label -> regp_label -> comparison

val cmp_canonical : label -> label -> comparison

val label_eqb : label -> label -> bool

val regp_eqb : regp_label -> regp_label -> bool

val reg_eqb : reg_label -> reg_label -> bool

val is_eq : comparison -> bool

val label_mem : label -> label list -> bool

val regp_mem : regp_label -> regp_label list -> bool

val reg_set_insert : reg_label -> reg_label list -> bool * reg_label list

val insert_sorted : ('a1 -> 'a1 -> comparison) -> 'a1 -> 'a1 list -> 'a1 list

val sort_by : ('a1 -> 'a1 -> comparison) -> 'a1 list -> 'a1 list
