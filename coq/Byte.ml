
type byte =
| Coq_x00
| Coq_x01
| Coq_x02
| Coq_x03
| Coq_x04
| Coq_x05
| Coq_x06
| Coq_x07
| Coq_x08
| Coq_x09
| Coq_x0a
| Coq_x0b
| Coq_x0c
| Coq_x0d
| Coq_x0e
| Coq_x0f
| Coq_x10
| Coq_x11
| Coq_x12
| Coq_x13
| Coq_x14
| Coq_x15
| Coq_x16
| Coq_x17
| Coq_x18
| Coq_x19
| Coq_x1a
| Coq_x1b
| Coq_x1c
| Coq_x1d
| Coq_x1e
| Coq_x1f
| Coq_x20
| Coq_x21
| Coq_x22
| Coq_x23
| Coq_x24
| Coq_x25
| Coq_x26
| Coq_x27
| Coq_x28
| Coq_x29
| Coq_x2a
| Coq_x2b
| Coq_x2c
| Coq_x2d
| Coq_x2e
| Coq_x2f
| Coq_x30
| Coq_x31
| Coq_x32
| Coq_x33
| Coq_x34
| Coq_x35
| Coq_x36
| Coq_x37
| Coq_x38
| Coq_x39
| Coq_x3a
| Coq_x3b
| Coq_x3c
| Coq_x3d
| Coq_x3e
| Coq_x3f
| Coq_x40
| Coq_x41
| Coq_x42
| Coq_x43
| Coq_x44
| Coq_x45
| Coq_x46
| Coq_x47
| Coq_x48
| Coq_x49
| Coq_x4a
| Coq_x4b
| Coq_x4c
| Coq_x4d
| Coq_x4e
| Coq_x4f
| Coq_x50
| Coq_x51
| Coq_x52
| Coq_x53
| Coq_x54
| Coq_x55
| Coq_x56
| Coq_x57
| Coq_x58
| Coq_x59
| Coq_x5a
| Coq_x5b
| Coq_x5c
| Coq_x5d
| Coq_x5e
| Coq_x5f
| Coq_x60
| Coq_x61
| Coq_x62
| Coq_x63
| Coq_x64
| Coq_x65
| Coq_x66
| Coq_x67
| Coq_x68
| Coq_x69
| Coq_x6a
| Coq_x6b
| Coq_x6c
| Coq_x6d
| Coq_x6e
| Coq_x6f
| Coq_x70
| Coq_x71
| Coq_x72
| Coq_x73
| Coq_x74
| Coq_x75
| Coq_x76
| Coq_x77
| Coq_x78
| Coq_x79
| Coq_x7a
| Coq_x7b
| Coq_x7c
| Coq_x7d
| Coq_x7e
| Coq_x7f
| Coq_x80
| Coq_x81
| Coq_x82
| Coq_x83
| Coq_x84
| Coq_x85
| Coq_x86
| Coq_x87
| Coq_x88
| Coq_x89
| Coq_x8a
| Coq_x8b
| Coq_x8c
| Coq_x8d
| Coq_x8e
| Coq_x8f
| Coq_x90
| Coq_x91
| Coq_x92
| Coq_x93
| Coq_x94
| Coq_x95
| Coq_x96
| Coq_x97
| Coq_x98
| Coq_x99
| Coq_x9a
| Coq_x9b
| Coq_x9c
| Coq_x9d
| Coq_x9e
| Coq_x9f
| Coq_xa0
| Coq_xa1
| Coq_xa2
| Coq_xa3
| Coq_xa4
| Coq_xa5
| Coq_xa6
| Coq_xa7
| Coq_xa8
| Coq_xa9
| Coq_xaa
| Coq_xab
| Coq_xac
| Coq_xad
| Coq_xae
| Coq_xaf
| Coq_xb0
| Coq_xb1
| Coq_xb2
| Coq_xb3
| Coq_xb4
| Coq_xb5
| Coq_xb6
| Coq_xb7
| Coq_xb8
| Coq_xb9
| Coq_xba
| Coq_xbb
| Coq_xbc
| Coq_xbd
| Coq_xbe
| Coq_xbf
| Coq_xc0
| Coq_xc1
| Coq_xc2
| Coq_xc3
| Coq_xc4
| Coq_xc5
| Coq_xc6
| Coq_xc7
| Coq_xc8
| Coq_xc9
| Coq_xca
| Coq_xcb
| Coq_xcc
| Coq_xcd
| Coq_xce
| Coq_xcf
| Coq_xd0
| Coq_xd1
| Coq_xd2
| Coq_xd3
| Coq_xd4
| Coq_xd5
| Coq_xd6
| Coq_xd7
| Coq_xd8
| Coq_xd9
| Coq_xda
| Coq_xdb
| Coq_xdc
| Coq_xdd
| Coq_xde
| Coq_xdf
| Coq_xe0
| Coq_xe1
| Coq_xe2
| Coq_xe3
| Coq_xe4
| Coq_xe5
| Coq_xe6
| Coq_xe7
| Coq_xe8
| Coq_xe9
| Coq_xea
| Coq_xeb
| Coq_xec
| Coq_xed
| Coq_xee
| Coq_xef
| Coq_xf0
| Coq_xf1
| Coq_xf2
| Coq_xf3
| Coq_xf4
| Coq_xf5
| Coq_xf6
| Coq_xf7
| Coq_xf8
| Coq_xf9
| Coq_xfa
| Coq_xfb
| Coq_xfc
| Coq_xfd
| Coq_xfe
| Coq_xff

(** val of_bits :
    (bool * (bool * (bool * (bool * (bool * (bool * (bool * bool))))))) ->
    byte **)

let of_bits = function
| (b0, p) ->
  if b0
  then let (b1, p0) = p in
       if b1
       then let (b2, p1) = p0 in
            if b2
            then let (b3, p2) = p1 in
                 if b3
                 then let (b4, p3) = p2 in
                      if b4
                      then let (b5, p4) = p3 in
                           if b5
                           then let (b6, b7) = p4 in
                                if b6
                                then if b7 then Coq_xff else Coq_x7f
                                else if b7 then Coq_xbf else Coq_x3f
                           else let (b6, b7) = p4 in
                                if b6
                                then if b7 then Coq_xdf else Coq_x5f
                                else if b7 then Coq_x9f else Coq_x1f
                      else let (b5, p4) = p3 in
                           if b5
                           then let (b6, b7) = p4 in
                                if b6
                                then if b7 then Coq_xef else Coq_x6f
                                else if b7 then Coq_xaf else Coq_x2f
                           else let (b6, b7) = p4 in
                                if b6
                                then if b7 then Coq_xcf else Coq_x4f
                                else if b7 then Coq_x8f else Coq_x0f
                 else let (b4, p3) = p2 in
                      if b4
                      then let (b5, p4) = p3 in
                           if b5
                           then let (b6, b7) = p4 in
                                if b6
                                then if b7 then Coq_xf7 else Coq_x77
                                else if b7 then Coq_xb7 else Coq_x37
                           else let (b6, b7) = p4 in
                                if b6
                                then if b7 then Coq_xd7 else Coq_x57
                                else if b7 then Coq_x97 else Coq_x17
                      else let (b5, p4) = p3 in
                           if b5
                           then let (b6, b7) = p4 in
                                if b6
                                then if b7 then Coq_xe7 else Coq_x67
                                else if b7 then Coq_xa7 else Coq_x27
                           else let (b6, b7) = p4 in
                                if b6
                                then if b7 then Coq_xc7 else Coq_x47
                                else if b7 then Coq_x87 else Coq_x07
            else let (b3, p2) = p1 in
                 if b3
                 then let (b4, p3) = p2 in
                      if b4
                      then let (b5, p4) = p3 in
                           if b5
                           then let (b6, b7) = p4 in
                                if b6
                                then if b7 then Coq_xfb else Coq_x7b
                                else if b7 then Coq_xbb else Coq_x3b
                           else let (b6, b7) = p4 in
                                if b6
                                then if b7 then Coq_xdb else Coq_x5b
                                else if b7 then Coq_x9b else Coq_x1b
                      else let (b5, p4) = p3 in
                           if b5
                           then let (b6, b7) = p4 in
                                if b6
                                then if b7 then Coq_xeb else Coq_x6b
                                else if b7 then Coq_xab else Coq_x2b
                           else let (b6, b7) = p4 in
                                if b6
                                then if b7 then Coq_xcb else Coq_x4b
                                else if b7 then Coq_x8b else Coq_x0b
                 else let (b4, p3) = p2 in
                      if b4
                      then let (b5, p4) = p3 in
                           if b5
                           then let (b6, b7) = p4 in
                                if b6
                                then if b7 then Coq_xf3 else Coq_x73
                                else if b7 then Coq_xb3 else Coq_x33
                           else let (b6, b7) = p4 in
                                if b6
                                then if b7 then Coq_xd3 else Coq_x53
                                else if b7 then Coq_x93 else Coq_x13
                      else let (b5, p4) = p3 in
                           if b5
                           then let (b6, b7) = p4 in
                                if b6
                                then if b7 then Coq_xe3 else Coq_x63
                                else if b7 then Coq_xa3 else Coq_x23
                           else let (b6, b7) = p4 in
                                if b6
                                then if b7 then Coq_xc3 else Coq_x43
                                else if b7 then Coq_x83 else Coq_x03
       else let (b2, p1) = p0 in
            if b2
            then let (b3, p2) = p1 in
                 if b3
                 then let (b4, p3) = p2 in
                      if b4
                      then let (b5, p4) = p3 in
                           if b5
                           then let (b6, b7) = p4 in
                                if b6
                                then if b7 then Coq_xfd else Coq_x7d
                                else if b7 then Coq_xbd else Coq_x3d
                           else let (b6, b7) = p4 in
                                if b6
                                then if b7 then Coq_xdd else Coq_x5d
                                else if b7 then Coq_x9d else Coq_x1d
                      else let (b5, p4) = p3 in
                           if b5
                           then let (b6, b7) = p4 in
                                if b6
                                then if b7 then Coq_xed else Coq_x6d
                                else if b7 then Coq_xad else Coq_x2d
                           else let (b6, b7) = p4 in
                                if b6
                                then if b7 then Coq_xcd else Coq_x4d
                                else if b7 then Coq_x8d else Coq_x0d
                 else let (b4, p3) = p2 in
                      if b4
                      then let (b5, p4) = p3 in
                           if b5
                           then let (b6, b7) = p4 in
                                if b6
                                then if b7 then Coq_xf5 else Coq_x75
                                else if b7 then Coq_xb5 else Coq_x35
                           else let (b6, b7) = p4 in
                                if b6
                                then if b7 then Coq_xd5 else Coq_x55
                                else if b7 then Coq_x95 else Coq_x15
                      else let (b5, p4) = p3 in
                           if b5
                           then let (b6, b7) = p4 in
                                if b6
                                then if b7 then Coq_xe5 else Coq_x65
                                else if b7 then Coq_xa5 else Coq_x25
                           else let (b6, b7) = p4 in
                                if b6
                                then if b7 then Coq_xc5 else Coq_x45
                                else if b7 then Coq_x85 else Coq_x05
            else let (b3, p2) = p1 in
                 if b3
                 then let (b4, p3) = p2 in
                      if b4
                      then let (b5, p4) = p3 in
                           if b5
                           then let (b6, b7) = p4 in
                                if b6
                                then if b7 then Coq_xf9 else Coq_x79
                                else if b7 then Coq_xb9 else Coq_x39
                           else let (b6, b7) = p4 in
                                if b6
                                then if b7 then Coq_xd9 else Coq_x59
                                else if b7 then Coq_x99 else Coq_x19
                      else let (b5, p4) = p3 in
                           if b5
                           then let (b6, b7) = p4 in
                                if b6
                                then if b7 then Coq_xe9 else Coq_x69
                                else if b7 then Coq_xa9 else Coq_x29
                           else let (b6, b7) = p4 in
                                if b6
                                then if b7 then Coq_xc9 else Coq_x49
                                else if b7 then Coq_x89 else Coq_x09
                 else let (b4, p3) = p2 in
                      if b4
                      then let (b5, p4) = p3 in
                           if b5
                           then let (b6, b7) = p4 in
                                if b6
                                then if b7 then Coq_xf1 else Coq_x71
                                else if b7 then Coq_xb1 else Coq_x31
                           else let (b6, b7) = p4 in
                                if b6
                                then if b7 then Coq_xd1 else Coq_x51
                                else if b7 then Coq_x91 else Coq_x11
                      else let (b5, p4) = p3 in
                           if b5
                           then let (b6, b7) = p4 in
                                if b6
                                then if b7 then Coq_xe1 else Coq_x61
                                else if b7 then Coq_xa1 else Coq_x21
                           else let (b6, b7) = p4 in
                                if b6
                                then if b7 then Coq_xc1 else Coq_x41
                                else if b7 then Coq_x81 else Coq_x01
  else let (b1, p0) = p in
       if b1
       then let (b2, p1) = p0 in
            if b2
            then let (b3, p2) = p1 in
                 if b3
                 then let (b4, p3) = p2 in
                      if b4
                      then let (b5, p4) = p3 in
                           if b5
                           then let (b6, b7) = p4 in
                                if b6
                                then if b7 then Coq_xfe else Coq_x7e
                                else if b7 then Coq_xbe else Coq_x3e
                           else let (b6, b7) = p4 in
                                if b6
                                then if b7 then Coq_xde else Coq_x5e
                                else if b7 then Coq_x9e else Coq_x1e
                      else let (b5, p4) = p3 in
                           if b5
                           then let (b6, b7) = p4 in
                                if b6
                                then if b7 then Coq_xee else Coq_x6e
                                else if b7 then Coq_xae else Coq_x2e
                           else let (b6, b7) = p4 in
                                if b6
                                then if b7 then Coq_xce else Coq_x4e
                                else if b7 then Coq_x8e else Coq_x0e
                 else let (b4, p3) = p2 in
                      if b4
                      then let (b5, p4) = p3 in
                           if b5
                           then let (b6, b7) = p4 in
                                if b6
                                then if b7 then Coq_xf6 else Coq_x76
                                else if b7 then Coq_xb6 else Coq_x36
                           else let (b6, b7) = p4 in
                                if b6
                                then if b7 then Coq_xd6 else Coq_x56
                                else if b7 then Coq_x96 else Coq_x16
                      else let (b5, p4) = p3 in
                           if b5
                           then let (b6, b7) = p4 in
                                if b6
                                then if b7 then Coq_xe6 else Coq_x66
                                else if b7 then Coq_xa6 else Coq_x26
                           else let (b6, b7) = p4 in
                                if b6
                                then if b7 then Coq_xc6 else Coq_x46
                                else if b7 then Coq_x86 else Coq_x06
            else let (b3, p2) = p1 in
                 if b3
                 then let (b4, p3) = p2 in
                      if b4
                      then let (b5, p4) = p3 in
                           if b5
                           then let (b6, b7) = p4 in
                                if b6
                                then if b7 then Coq_xfa else Coq_x7a
                                else if b7 then Coq_xba else Coq_x3a
                           else let (b6, b7) = p4 in
                                if b6
                                then if b7 then Coq_xda else Coq_x5a
                                else if b7 then Coq_x9a else Coq_x1a
                      else let (b5, p4) = p3 in
                           if b5
                           then let (b6, b7) = p4 in
                                if b6
                                then if b7 then Coq_xea else Coq_x6a
                                else if b7 then Coq_xaa else Coq_x2a
                           else let (b6, b7) = p4 in
                                if b6
                                then if b7 then Coq_xca else Coq_x4a
                                else if b7 then Coq_x8a else Coq_x0a
                 else let (b4, p3) = p2 in
                      if b4
                      then let (b5, p4) = p3 in
                           if b5
                           then let (b6, b7) = p4 in
                                if b6
                                then if b7 then Coq_xf2 else Coq_x72
                                else if b7 then Coq_xb2 else Coq_x32
                           else let (b6, b7) = p4 in
                                if b6
                                then if b7 then Coq_xd2 else Coq_x52
                                else if b7 then Coq_x92 else Coq_x12
                      else let (b5, p4) = p3 in
                           if b5
                           then let (b6, b7) = p4 in
                                if b6
                                then if b7 then Coq_xe2 else Coq_x62
                                else if b7 then Coq_xa2 else Coq_x22
                           else let (b6, b7) = p4 in
                                if b6
                                then if b7 then Coq_xc2 else Coq_x42
                                else if b7 then Coq_x82 else Coq_x02
       else let (b2, p1) = p0 in
            if b2
            then let (b3, p2) = p1 in
                 if b3
                 then let (b4, p3) = p2 in
                      if b4
                      then let (b5, p4) = p3 in
                           if b5
                           then let (b6, b7) = p4 in
                                if b6
                                then if b7 then Coq_xfc else Coq_x7c
                                else if b7 then Coq_xbc else Coq_x3c
                           else let (b6, b7) = p4 in
                                if b6
                                then if b7 then Coq_xdc else Coq_x5c
                                else if b7 then Coq_x9c else Coq_x1c
                      else let (b5, p4) = p3 in
                           if b5
                           then let (b6, b7) = p4 in
                                if b6
                                then if b7 then Coq_xec else Coq_x6c
                                else if b7 then Coq_xac else Coq_x2c
                           else let (b6, b7) = p4 in
                                if b6
                                then if b7 then Coq_xcc else Coq_x4c
                                else if b7 then Coq_x8c else Coq_x0c
                 else let (b4, p3) = p2 in
                      if b4
                      then let (b5, p4) = p3 in
                           if b5
                           then let (b6, b7) = p4 in
                                if b6
                                then if b7 then Coq_xf4 else Coq_x74
                                else if b7 then Coq_xb4 else Coq_x34
                           else let (b6, b7) = p4 in
                                if b6
                                then if b7 then Coq_xd4 else Coq_x54
                                else if b7 then Coq_x94 else Coq_x14
                      else let (b5, p4) = p3 in
                           if b5
                           then let (b6, b7) = p4 in
                                if b6
                                then if b7 then Coq_xe4 else Coq_x64
                                else if b7 then Coq_xa4 else Coq_x24
                           else let (b6, b7) = p4 in
                                if b6
                                then if b7 then Coq_xc4 else Coq_x44
                                else if b7 then Coq_x84 else Coq_x04
            else let (b3, p2) = p1 in
                 if b3
                 then let (b4, p3) = p2 in
                      if b4
                      then let (b5, p4) = p3 in
                           if b5
                           then let (b6, b7) = p4 in
                                if b6
                                then if b7 then Coq_xf8 else Coq_x78
                                else if b7 then Coq_xb8 else Coq_x38
                           else let (b6, b7) = p4 in
                                if b6
                                then if b7 then Coq_xd8 else Coq_x58
                                else if b7 then Coq_x98 else Coq_x18
                      else let (b5, p4) = p3 in
                           if b5
                           then let (b6, b7) = p4 in
                                if b6
                                then if b7 then Coq_xe8 else Coq_x68
                                else if b7 then Coq_xa8 else Coq_x28
                           else let (b6, b7) = p4 in
                                if b6
                                then if b7 then Coq_xc8 else Coq_x48
                                else if b7 then Coq_x88 else Coq_x08
                 else let (b4, p3) = p2 in
                      if b4
                      then let (b5, p4) = p3 in
                           if b5
                           then let (b6, b7) = p4 in
                                if b6
                                then if b7 then Coq_xf0 else Coq_x70
                                else if b7 then Coq_xb0 else Coq_x30
                           else let (b6, b7) = p4 in
                                if b6
                                then if b7 then Coq_xd0 else Coq_x50
                                else if b7 then Coq_x90 else Coq_x10
                      else let (b5, p4) = p3 in
                           if b5
                           then let (b6, b7) = p4 in
                                if b6
                                then if b7 then Coq_xe0 else Coq_x60
                                else if b7 then Coq_xa0 else Coq_x20
                           else let (b6, b7) = p4 in
                                if b6
                                then if b7 then Coq_xc0 else Coq_x40
                                else if b7 then Coq_x80 else Coq_x00

(** val to_bits :
    byte -> bool * (bool * (bool * (bool * (bool * (bool * (bool * bool)))))) **)

let to_bits = function
| Coq_x00 ->
  (false, (false, (false, (false, (false, (false, (false, false)))))))
| Coq_x01 ->
  (true, (false, (false, (false, (false, (false, (false, false)))))))
| Coq_x02 ->
  (false, (true, (false, (false, (false, (false, (false, false)))))))
| Coq_x03 ->
  (true, (true, (false, (false, (false, (false, (false, false)))))))
| Coq_x04 ->
  (false, (false, (true, (false, (false, (false, (false, false)))))))
| Coq_x05 ->
  (true, (false, (true, (false, (false, (false, (false, false)))))))
| Coq_x06 ->
  (false, (true, (true, (false, (false, (false, (false, false)))))))
| Coq_x07 -> (true, (true, (true, (false, (false, (false, (false, false)))))))
| Coq_x08 ->
  (false, (false, (false, (true, (false, (false, (false, false)))))))
| Coq_x09 ->
  (true, (false, (false, (true, (false, (false, (false, false)))))))
| Coq_x0a ->
  (false, (true, (false, (true, (false, (false, (false, false)))))))
| Coq_x0b -> (true, (true, (false, (true, (false, (false, (false, false)))))))
| Coq_x0c ->
  (false, (false, (true, (true, (false, (false, (false, false)))))))
| Coq_x0d -> (true, (false, (true, (true, (false, (false, (false, false)))))))
| Coq_x0e -> (false, (true, (true, (true, (false, (false, (false, false)))))))
| Coq_x0f -> (true, (true, (true, (true, (false, (false, (false, false)))))))
| Coq_x10 ->
  (false, (false, (false, (false, (true, (false, (false, false)))))))
| Coq_x11 ->
  (true, (false, (false, (false, (true, (false, (false, false)))))))
| Coq_x12 ->
  (false, (true, (false, (false, (true, (false, (false, false)))))))
| Coq_x13 -> (true, (true, (false, (false, (true, (false, (false, false)))))))
| Coq_x14 ->
  (false, (false, (true, (false, (true, (false, (false, false)))))))
| Coq_x15 -> (true, (false, (true, (false, (true, (false, (false, false)))))))
| Coq_x16 -> (false, (true, (true, (false, (true, (false, (false, false)))))))
| Coq_x17 -> (true, (true, (true, (false, (true, (false, (false, false)))))))
| Coq_x18 ->
  (false, (false, (false, (true, (true, (false, (false, false)))))))
| Coq_x19 -> (true, (false, (false, (true, (true, (false, (false, false)))))))
| Coq_x1a -> (false, (true, (false, (true, (true, (false, (false, false)))))))
| Coq_x1b -> (true, (true, (false, (true, (true, (false, (false, false)))))))
| Coq_x1c -> (false, (false, (true, (true, (true, (false, (false, false)))))))
| Coq_x1d -> (true, (false, (true, (true, (true, (false, (false, false)))))))
| Coq_x1e -> (false, (true, (true, (true, (true, (false, (false, false)))))))
| Coq_x1f -> (true, (true, (true, (true, (true, (false, (false, false)))))))
| Coq_x20 ->
  (false, (false, (false, (false, (false, (true, (false, false)))))))
| Coq_x21 ->
  (true, (false, (false, (false, (false, (true, (false, false)))))))
| Coq_x22 ->
  (false, (true, (false, (false, (false, (true, (false, false)))))))
| Coq_x23 -> (true, (true, (false, (false, (false, (true, (false, false)))))))
| Coq_x24 ->
  (false, (false, (true, (false, (false, (true, (false, false)))))))
| Coq_x25 -> (true, (false, (true, (false, (false, (true, (false, false)))))))
| Coq_x26 -> (false, (true, (true, (false, (false, (true, (false, false)))))))
| Coq_x27 -> (true, (true, (true, (false, (false, (true, (false, false)))))))
| Coq_x28 ->
  (false, (false, (false, (true, (false, (true, (false, false)))))))
| Coq_x29 -> (true, (false, (false, (true, (false, (true, (false, false)))))))
| Coq_x2a -> (false, (true, (false, (true, (false, (true, (false, false)))))))
| Coq_x2b -> (true, (true, (false, (true, (false, (true, (false, false)))))))
| Coq_x2c -> (false, (false, (true, (true, (false, (true, (false, false)))))))
| Coq_x2d -> (true, (false, (true, (true, (false, (true, (false, false)))))))
| Coq_x2e -> (false, (true, (true, (true, (false, (true, (false, false)))))))
| Coq_x2f -> (true, (true, (true, (true, (false, (true, (false, false)))))))
| Coq_x30 ->
  (false, (false, (false, (false, (true, (true, (false, false)))))))
| Coq_x31 -> (true, (false, (false, (false, (true, (true, (false, false)))))))
| Coq_x32 -> (false, (true, (false, (false, (true, (true, (false, false)))))))
| Coq_x33 -> (true, (true, (false, (false, (true, (true, (false, false)))))))
| Coq_x34 -> (false, (false, (true, (false, (true, (true, (false, false)))))))
| Coq_x35 -> (true, (false, (true, (false, (true, (true, (false, false)))))))
| Coq_x36 -> (false, (true, (true, (false, (true, (true, (false, false)))))))
| Coq_x37 -> (true, (true, (true, (false, (true, (true, (false, false)))))))
| Coq_x38 -> (false, (false, (false, (true, (true, (true, (false, false)))))))
| Coq_x39 -> (true, (false, (false, (true, (true, (true, (false, false)))))))
| Coq_x3a -> (false, (true, (false, (true, (true, (true, (false, false)))))))
| Coq_x3b -> (true, (true, (false, (true, (true, (true, (false, false)))))))
| Coq_x3c -> (false, (false, (true, (true, (true, (true, (false, false)))))))
| Coq_x3d -> (true, (false, (true, (true, (true, (true, (false, false)))))))
| Coq_x3e -> (false, (true, (true, (true, (true, (true, (false, false)))))))
| Coq_x3f -> (true, (true, (true, (true, (true, (true, (false, false)))))))
| Coq_x40 ->
  (false, (false, (false, (false, (false, (false, (true, false)))))))
| Coq_x41 ->
  (true, (false, (false, (false, (false, (false, (true, false)))))))
| Coq_x42 ->
  (false, (true, (false, (false, (false, (false, (true, false)))))))
| Coq_x43 -> (true, (true, (false, (false, (false, (false, (true, false)))))))
| Coq_x44 ->
  (false, (false, (true, (false, (false, (false, (true, false)))))))
| Coq_x45 -> (true, (false, (true, (false, (false, (false, (true, false)))))))
| Coq_x46 -> (false, (true, (true, (false, (false, (false, (true, false)))))))
| Coq_x47 -> (true, (true, (true, (false, (false, (false, (true, false)))))))
| Coq_x48 ->
  (false, (false, (false, (true, (false, (false, (true, false)))))))
| Coq_x49 -> (true, (false, (false, (true, (false, (false, (true, false)))))))
| Coq_x4a -> (false, (true, (false, (true, (false, (false, (true, false)))))))
| Coq_x4b -> (true, (true, (false, (true, (false, (false, (true, false)))))))
| Coq_x4c -> (false, (false, (true, (true, (false, (false, (true, false)))))))
| Coq_x4d -> (true, (false, (true, (true, (false, (false, (true, false)))))))
| Coq_x4e -> (false, (true, (true, (true, (false, (false, (true, false)))))))
| Coq_x4f -> (true, (true, (true, (true, (false, (false, (true, false)))))))
| Coq_x50 ->
  (false, (false, (false, (false, (true, (false, (true, false)))))))
| Coq_x51 -> (true, (false, (false, (false, (true, (false, (true, false)))))))
| Coq_x52 -> (false, (true, (false, (false, (true, (false, (true, false)))))))
| Coq_x53 -> (true, (true, (false, (false, (true, (false, (true, false)))))))
| Coq_x54 -> (false, (false, (true, (false, (true, (false, (true, false)))))))
| Coq_x55 -> (true, (false, (true, (false, (true, (false, (true, false)))))))
| Coq_x56 -> (false, (true, (true, (false, (true, (false, (true, false)))))))
| Coq_x57 -> (true, (true, (true, (false, (true, (false, (true, false)))))))
| Coq_x58 -> (false, (false, (false, (true, (true, (false, (true, false)))))))
| Coq_x59 -> (true, (false, (false, (true, (true, (false, (true, false)))))))
| Coq_x5a -> (false, (true, (false, (true, (true, (false, (true, false)))))))
| Coq_x5b -> (true, (true, (false, (true, (true, (false, (true, false)))))))
| Coq_x5c -> (false, (false, (true, (true, (true, (false, (true, false)))))))
| Coq_x5d -> (true, (false, (true, (true, (true, (false, (true, false)))))))
| Coq_x5e -> (false, (true, (true, (true, (true, (false, (true, false)))))))
| Coq_x5f -> (true, (true, (true, (true, (true, (false, (true, false)))))))
| Coq_x60 ->
  (false, (false, (false, (false, (false, (true, (true, false)))))))
| Coq_x61 -> (true, (false, (false, (false, (false, (true, (true, false)))))))
| Coq_x62 -> (false, (true, (false, (false, (false, (true, (true, false)))))))
| Coq_x63 -> (true, (true, (false, (false, (false, (true, (true, false)))))))
| Coq_x64 -> (false, (false, (true, (false, (false, (true, (true, false)))))))
| Coq_x65 -> (true, (false, (true, (false, (false, (true, (true, false)))))))
| Coq_x66 -> (false, (true, (true, (false, (false, (true, (true, false)))))))
| Coq_x67 -> (true, (true, (true, (false, (false, (true, (true, false)))))))
| Coq_x68 -> (false, (false, (false, (true, (false, (true, (true, false)))))))
| Coq_x69 -> (true, (false, (false, (true, (false, (true, (true, false)))))))
| Coq_x6a -> (false, (true, (false, (true, (false, (true, (true, false)))))))
| Coq_x6b -> (true, (true, (false, (true, (false, (true, (true, false)))))))
| Coq_x6c -> (false, (false, (true, (true, (false, (true, (true, false)))))))
| Coq_x6d -> (true, (false, (true, (true, (false, (true, (true, false)))))))
| Coq_x6e -> (false, (true, (true, (true, (false, (true, (true, false)))))))
| Coq_x6f -> (true, (true, (true, (true, (false, (true, (true, false)))))))
| Coq_x70 -> (false, (false, (false, (false, (true, (true, (true, false)))))))
| Coq_x71 -> (true, (false, (false, (false, (true, (true, (true, false)))))))
| Coq_x72 -> (false, (true, (false, (false, (true, (true, (true, false)))))))
| Coq_x73 -> (true, (true, (false, (false, (true, (true, (true, false)))))))
| Coq_x74 -> (false, (false, (true, (false, (true, (true, (true, false)))))))
| Coq_x75 -> (true, (false, (true, (false, (true, (true, (true, false)))))))
| Coq_x76 -> (false, (true, (true, (false, (true, (true, (true, false)))))))
| Coq_x77 -> (true, (true, (true, (false, (true, (true, (true, false)))))))
| Coq_x78 -> (false, (false, (false, (true, (true, (true, (true, false)))))))
| Coq_x79 -> (true, (false, (false, (true, (true, (true, (true, false)))))))
| Coq_x7a -> (false, (true, (false, (true, (true, (true, (true, false)))))))
| Coq_x7b -> (true, (true, (false, (true, (true, (true, (true, false)))))))
| Coq_x7c -> (false, (false, (true, (true, (true, (true, (true, false)))))))
| Coq_x7d -> (true, (false, (true, (true, (true, (true, (true, false)))))))
| Coq_x7e -> (false, (true, (true, (true, (true, (true, (true, false)))))))
| Coq_x7f -> (true, (true, (true, (true, (true, (true, (true, false)))))))
| Coq_x80 ->
  (false, (false, (false, (false, (false, (false, (false, true)))))))
| Coq_x81 ->
  (true, (false, (false, (false, (false, (false, (false, true)))))))
| Coq_x82 ->
  (false, (true, (false, (false, (false, (false, (false, true)))))))
| Coq_x83 -> (true, (true, (false, (false, (false, (false, (false, true)))))))
| Coq_x84 ->
  (false, (false, (true, (false, (false, (false, (false, true)))))))
| Coq_x85 -> (true, (false, (true, (false, (false, (false, (false, true)))))))
| Coq_x86 -> (false, (true, (true, (false, (false, (false, (false, true)))))))
| Coq_x87 -> (true, (true, (true, (false, (false, (false, (false, true)))))))
| Coq_x88 ->
  (false, (false, (false, (true, (false, (false, (false, true)))))))
| Coq_x89 -> (true, (false, (false, (true, (false, (false, (false, true)))))))
| Coq_x8a -> (false, (true, (false, (true, (false, (false, (false, true)))))))
| Coq_x8b -> (true, (true, (false, (true, (false, (false, (false, true)))))))
| Coq_x8c -> (false, (false, (true, (true, (false, (false, (false, true)))))))
| Coq_x8d -> (true, (false, (true, (true, (false, (false, (false, true)))))))
| Coq_x8e -> (false, (true, (true, (true, (false, (false, (false, true)))))))
| Coq_x8f -> (true, (true, (true, (true, (false, (false, (false, true)))))))
| Coq_x90 ->
  (false, (false, (false, (false, (true, (false, (false, true)))))))
| Coq_x91 -> (true, (false, (false, (false, (true, (false, (false, true)))))))
| Coq_x92 -> (false, (true, (false, (false, (true, (false, (false, true)))))))
| Coq_x93 -> (true, (true, (false, (false, (true, (false, (false, true)))))))
| Coq_x94 -> (false, (false, (true, (false, (true, (false, (false, true)))))))
| Coq_x95 -> (true, (false, (true, (false, (true, (false, (false, true)))))))
| Coq_x96 -> (false, (true, (true, (false, (true, (false, (false, true)))))))
| Coq_x97 -> (true, (true, (true, (false, (true, (false, (false, true)))))))
| Coq_x98 -> (false, (false, (false, (true, (true, (false, (false, true)))))))
| Coq_x99 -> (true, (false, (false, (true, (true, (false, (false, true)))))))
| Coq_x9a -> (false, (true, (false, (true, (true, (false, (false, true)))))))
| Coq_x9b -> (true, (true, (false, (true, (true, (false, (false, true)))))))
| Coq_x9c -> (false, (false, (true, (true, (true, (false, (false, true)))))))
| Coq_x9d -> (true, (false, (true, (true, (true, (false, (false, true)))))))
| Coq_x9e -> (false, (true, (true, (true, (true, (false, (false, true)))))))
| Coq_x9f -> (true, (true, (true, (true, (true, (false, (false, true)))))))
| Coq_xa0 ->
  (false, (false, (false, (false, (false, (true, (false, true)))))))
| Coq_xa1 -> (true, (false, (false, (false, (false, (true, (false, true)))))))
| Coq_xa2 -> (false, (true, (false, (false, (false, (true, (false, true)))))))
| Coq_xa3 -> (true, (true, (false, (false, (false, (true, (false, true)))))))
| Coq_xa4 -> (false, (false, (true, (false, (false, (true, (false, true)))))))
| Coq_xa5 -> (true, (false, (true, (false, (false, (true, (false, true)))))))
| Coq_xa6 -> (false, (true, (true, (false, (false, (true, (false, true)))))))
| Coq_xa7 -> (true, (true, (true, (false, (false, (true, (false, true)))))))
| Coq_xa8 -> (false, (false, (false, (true, (false, (true, (false, true)))))))
| Coq_xa9 -> (true, (false, (false, (true, (false, (true, (false, true)))))))
| Coq_xaa -> (false, (true, (false, (true, (false, (true, (false, true)))))))
| Coq_xab -> (true, (true, (false, (true, (false, (true, (false, true)))))))
| Coq_xac -> (false, (false, (true, (true, (false, (true, (false, true)))))))
| Coq_xad -> (true, (false, (true, (true, (false, (true, (false, true)))))))
| Coq_xae -> (false, (true, (true, (true, (false, (true, (false, true)))))))
| Coq_xaf -> (true, (true, (true, (true, (false, (true, (false, true)))))))
| Coq_xb0 -> (false, (false, (false, (false, (true, (true, (false, true)))))))
| Coq_xb1 -> (true, (false, (false, (false, (true, (true, (false, true)))))))
| Coq_xb2 -> (false, (true, (false, (false, (true, (true, (false, true)))))))
| Coq_xb3 -> (true, (true, (false, (false, (true, (true, (false, true)))))))
| Coq_xb4 -> (false, (false, (true, (false, (true, (true, (false, true)))))))
| Coq_xb5 -> (true, (false, (true, (false, (true, (true, (false, true)))))))
| Coq_xb6 -> (false, (true, (true, (false, (true, (true, (false, true)))))))
| Coq_xb7 -> (true, (true, (true, (false, (true, (true, (false, true)))))))
| Coq_xb8 -> (false, (false, (false, (true, (true, (true, (false, true)))))))
| Coq_xb9 -> (true, (false, (false, (true, (true, (true, (false, true)))))))
| Coq_xba -> (false, (true, (false, (true, (true, (true, (false, true)))))))
| Coq_xbb -> (true, (true, (false, (true, (true, (true, (false, true)))))))
| Coq_xbc -> (false, (false, (true, (true, (true, (true, (false, true)))))))
| Coq_xbd -> (true, (false, (true, (true, (true, (true, (false, true)))))))
| Coq_xbe -> (false, (true, (true, (true, (true, (true, (false, true)))))))
| Coq_xbf -> (true, (true, (true, (true, (true, (true, (false, true)))))))
| Coq_xc0 ->
  (false, (false, (false, (false, (false, (false, (true, true)))))))
| Coq_xc1 -> (true, (false, (false, (false, (false, (false, (true, true)))))))
| Coq_xc2 -> (false, (true, (false, (false, (false, (false, (true, true)))))))
| Coq_xc3 -> (true, (true, (false, (false, (false, (false, (true, true)))))))
| Coq_xc4 -> (false, (false, (true, (false, (false, (false, (true, true)))))))
| Coq_xc5 -> (true, (false, (true, (false, (false, (false, (true, true)))))))
| Coq_xc6 -> (false, (true, (true, (false, (false, (false, (true, true)))))))
| Coq_xc7 -> (true, (true, (true, (false, (false, (false, (true, true)))))))
| Coq_xc8 -> (false, (false, (false, (true, (false, (false, (true, true)))))))
| Coq_xc9 -> (true, (false, (false, (true, (false, (false, (true, true)))))))
| Coq_xca -> (false, (true, (false, (true, (false, (false, (true, true)))))))
| Coq_xcb -> (true, (true, (false, (true, (false, (false, (true, true)))))))
| Coq_xcc -> (false, (false, (true, (true, (false, (false, (true, true)))))))
| Coq_xcd -> (true, (false, (true, (true, (false, (false, (true, true)))))))
| Coq_xce -> (false, (true, (true, (true, (false, (false, (true, true)))))))
| Coq_xcf -> (true, (true, (true, (true, (false, (false, (true, true)))))))
| Coq_xd0 -> (false, (false, (false, (false, (true, (false, (true, true)))))))
| Coq_xd1 -> (true, (false, (false, (false, (true, (false, (true, true)))))))
| Coq_xd2 -> (false, (true, (false, (false, (true, (false, (true, true)))))))
| Coq_xd3 -> (true, (true, (false, (false, (true, (false, (true, true)))))))
| Coq_xd4 -> (false, (false, (true, (false, (true, (false, (true, true)))))))
| Coq_xd5 -> (true, (false, (true, (false, (true, (false, (true, true)))))))
| Coq_xd6 -> (false, (true, (true, (false, (true, (false, (true, true)))))))
| Coq_xd7 -> (true, (true, (true, (false, (true, (false, (true, true)))))))
| Coq_xd8 -> (false, (false, (false, (true, (true, (false, (true, true)))))))
| Coq_xd9 -> (true, (false, (false, (true, (true, (false, (true, true)))))))
| Coq_xda -> (false, (true, (false, (true, (true, (false, (true, true)))))))
| Coq_xdb -> (true, (true, (false, (true, (true, (false, (true, true)))))))
| Coq_xdc -> (false, (false, (true, (true, (true, (false, (true, true)))))))
| Coq_xdd -> (true, (false, (true, (true, (true, (false, (true, true)))))))
| Coq_xde -> (false, (true, (true, (true, (true, (false, (true, true)))))))
| Coq_xdf -> (true, (true, (true, (true, (true, (false, (true, true)))))))
| Coq_xe0 -> (false, (false, (false, (false, (false, (true, (true, true)))))))
| Coq_xe1 -> (true, (false, (false, (false, (false, (true, (true, true)))))))
| Coq_xe2 -> (false, (true, (false, (false, (false, (true, (true, true)))))))
| Coq_xe3 -> (true, (true, (false, (false, (false, (true, (true, true)))))))
| Coq_xe4 -> (false, (false, (true, (false, (false, (true, (true, true)))))))
| Coq_xe5 -> (true, (false, (true, (false, (false, (true, (true, true)))))))
| Coq_xe6 -> (false, (true, (true, (false, (false, (true, (true, true)))))))
| Coq_xe7 -> (true, (true, (true, (false, (false, (true, (true, true)))))))
| Coq_xe8 -> (false, (false, (false, (true, (false, (true, (true, true)))))))
| Coq_xe9 -> (true, (false, (false, (true, (false, (true, (true, true)))))))
| Coq_xea -> (false, (true, (false, (true, (false, (true, (true, true)))))))
| Coq_xeb -> (true, (true, (false, (true, (false, (true, (true, true)))))))
| Coq_xec -> (false, (false, (true, (true, (false, (true, (true, true)))))))
| Coq_xed -> (true, (false, (true, (true, (false, (true, (true, true)))))))
| Coq_xee -> (false, (true, (true, (true, (false, (true, (true, true)))))))
| Coq_xef -> (true, (true, (true, (true, (false, (true, (true, true)))))))
| Coq_xf0 -> (false, (false, (false, (false, (true, (true, (true, true)))))))
| Coq_xf1 -> (true, (false, (false, (false, (true, (true, (true, true)))))))
| Coq_xf2 -> (false, (true, (false, (false, (true, (true, (true, true)))))))
| Coq_xf3 -> (true, (true, (false, (false, (true, (true, (true, true)))))))
| Coq_xf4 -> (false, (false, (true, (false, (true, (true, (true, true)))))))
| Coq_xf5 -> (true, (false, (true, (false, (true, (true, (true, true)))))))
| Coq_xf6 -> (false, (true, (true, (false, (true, (true, (true, true)))))))
| Coq_xf7 -> (true, (true, (true, (false, (true, (true, (true, true)))))))
| Coq_xf8 -> (false, (false, (false, (true, (true, (true, (true, true)))))))
| Coq_xf9 -> (true, (false, (false, (true, (true, (true, (true, true)))))))
| Coq_xfa -> (false, (true, (false, (true, (true, (true, (true, true)))))))
| Coq_xfb -> (true, (true, (false, (true, (true, (true, (true, true)))))))
| Coq_xfc -> (false, (false, (true, (true, (true, (true, (true, true)))))))
| Coq_xfd -> (true, (false, (true, (true, (true, (true, (true, true)))))))
| Coq_xfe -> (false, (true, (true, (true, (true, (true, (true, true)))))))
| Coq_xff -> (true, (true, (true, (true, (true, (true, (true, true)))))))
