open Ascii
open Cbor
open Datatypes
open Iana
open Label
open List
open Msg
open Prelude
open String

type cose_key = { k_kty : reg_label; k_kid : bytes;
                  k_alg : regp_label option; k_ops : reg_label list;
                  k_base_iv : bytes; k_params : (label * value) list }

val coq_KTY_RESERVED : reg_label

val key_default : cose_key

val set_kty : reg_label -> cose_key -> cose_key

val set_kkid : bytes -> cose_key -> cose_key

val set_kalg : regp_label option -> cose_key -> cose_key

val set_kops : reg_label list -> cose_key -> cose_key

val set_kbase_iv : bytes -> cose_key -> cose_key

val set_kparams : (label * value) list -> cose_key -> cose_key

val key_ops_loop : value list -> reg_label list -> reg_label list res

val key_step : cose_key -> label -> value -> cose_key res

val coq_CoseKey_from_value : value -> cose_key res

val coq_CoseKey_to_value : cose_key -> value res

val coq_CoseKeySet_from_value : value -> cose_key list res

val coq_CoseKeySet_to_value : cose_key list -> value res

type cbor_ordering =
| Lexicographic
| LengthFirstLexicographic

val canonicalize : cbor_ordering -> cose_key -> cose_key
