
val bool_dec : bool -> bool -> bool

val eqb : bool -> bool -> bool
