open Ascii
open BinNums
open String

module Raw :
 sig
  val of_pos : positive -> string -> string
 end

val of_pos : positive -> string

val of_N : coq_N -> string

val of_Z : coq_Z -> string
