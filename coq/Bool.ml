
(** val bool_dec : bool -> bool -> bool **)

let bool_dec b1 b2 =
  if b1 then if b2 then true else false else if b2 then false else true

(** val eqb : bool -> bool -> bool **)

let eqb b1 b2 =
  if b1 then b2 else if b2 then false else true
