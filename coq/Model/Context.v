(* PartyInfo, SuppPubInfo, CoseKdfContext (src/context/mod.rs) *)
From Coset.Model Require Import Prelude Cbor Iana Label Msg.
Open Scope string_scope. Open Scope Z_scope. Open Scope list_scope.

Inductive nonce := NonceBytes (b : bytes) | NonceInteger (z : Z).
Record party_info := mkParty { pi_identity : option bytes; pi_nonce : option nonce; pi_other : option bytes }.
Definition party_default := mkParty None None None.

Definition PartyInfo_from_value (v : value) : res party_info :=
  do a <- try_as_array v;
  if negb (arity_ok "PartyInfo" (List.length a)) then Err EUnexpected
  else match a with
  | x0 :: x1 :: x2 :: _ =>
    do other <- bytes_or_nil x2;
    do nn <- match x1 with
             | VNull => Ok None
             | VBytes b => Ok (Some (NonceBytes b))
             | VInt u => do z <- to_i64_res u; Ok (Some (NonceInteger z))
             | _ => Err EUnexpected
             end;
    do id <- bytes_or_nil x0;
    Ok (mkParty id nn other)
  | _ => Panic
  end.
Definition PartyInfo_to_value (p : party_info) : res value :=
  Ok (VArray [opt_bytes_value (pi_identity p);
              match pi_nonce p with None => VNull | Some (NonceBytes b) => VBytes b | Some (NonceInteger i) => VInt i end;
              opt_bytes_value (pi_other p)]).

Record supp_pub_info := mkSupp { sp_len : Z; sp_prot : protected; sp_other : option bytes }.
Definition supp_default := mkSupp 0 protected_default None.

Definition SuppPubInfo_from_value (v : value) : res supp_pub_info :=
  do a <- try_as_array v;
  if negb (arity_ok "SuppPubInfo" (List.length a)) then Err EUnexpected
  else match a with
  | x0 :: x1 :: rest =>
    do other <- (if Nat.eqb (List.length a) 3 then
                   match rest with x2 :: _ => do b <- try_as_bytes x2; Ok (Some b) | [] => Panic end
                 else Ok None);
    do p <- ProtectedHeader_from_cbor_bstr x1;
    do i <- try_as_integer x0;
    do n <- to_u64_res i;
    Ok (mkSupp n p other)
  | _ => Panic
  end.
Definition SuppPubInfo_to_value (s : supp_pub_info) : res value :=
  do p <- protected_cbor_bstr (sp_prot s);
  Ok (VArray ([VInt (sp_len s); p] ++ match sp_other s with Some o => [VBytes o] | None => [] end)).

Record kdf_context := mkKdf {
  kc_alg : regp_label; kc_u : party_info; kc_v : party_info; kc_pub : supp_pub_info;
  kc_priv : list bytes }.
Definition ALG_RESERVED : regp_label := PAssigned (enum_const "Algorithm" "Reserved").
Definition kdf_default := mkKdf ALG_RESERVED party_default party_default supp_default [].

(* for i in (4..a.len()).rev() { a.remove(i).try_as_bytes()? }: the first error reported is
   that of the last offending element; the kind is the same for all *)
Definition CoseKdfContext_from_value (v : value) : res kdf_context :=
  do a <- try_as_array v;
  if negb (arity_ok "CoseKdfContext" (List.length a)) then Err EUnexpected
  else match a with
  | x0 :: x1 :: x2 :: x3 :: rest =>
    do priv <- mapM try_as_bytes rest;
    do pub <- SuppPubInfo_from_value x3;
    do pv <- PartyInfo_from_value x2;
    do pu <- PartyInfo_from_value x1;
    do alg <- regp_from_value "Algorithm" x0;
    Ok (mkKdf alg pu pv pub priv)
  | _ => Panic   (* a.len() - 4 underflow / remove out of range *)
  end.
Definition CoseKdfContext_to_value (k : kdf_context) : res value :=
  do u <- PartyInfo_to_value (kc_u k);
  do v <- PartyInfo_to_value (kc_v k);
  do p <- SuppPubInfo_to_value (kc_pub k);
  Ok (VArray ([regp_to_value (kc_alg k); u; v; p] ++ map VBytes (kc_priv k))).
