(* Descriptions: every in-memory value is reflected into / read back from a CBOR `value`
   with a fixed shape, so that the Coq model and the Rust harness can exchange struct
   literals and print results with one printer.  Mirrors harness/src/desc.rs. *)
From Coset.Model Require Import Prelude Cbor Iana Label Msg Key Cwt Context.
From Coq Require Import HexString.
Open Scope string_scope. Open Scope Z_scope. Open Scope list_scope.

(* ---------- printer ---------- *)
Definition hexdigit (n : N) : byte :=
  n2b (if (n <? 10)%N then 48 + n else 87 + n)%N.
Fixpoint hex_of_bytes (l : bytes) : bytes :=
  match l with
  | [] => []
  | b :: r => hexdigit (b2n b / 16) :: hexdigit (b2n b mod 16) :: hex_of_bytes r
  end.

Definition is_nan (x : N) : bool :=
  (((x / 4503599627370496) mod 2048 =? 2047) && negb (x mod 4503599627370496 =? 0))%N.

Definition sep_concat (sep : bytes) :=
  fix go (l : list bytes) : bytes :=
    match l with
    | [] => []
    | [x] => x
    | x :: r => x ++ sep ++ go r
    end.

Fixpoint show_value (v : value) : bytes :=
  match v with
  | VInt z => s2b "i" ++ s2b (HexString.of_Z z)
  | VBytes b => s2b "h" ++ hex_of_bytes b
  | VFloat x => if is_nan x then s2b "fNaN" else s2b "f" ++ s2b (HexString.of_N x)
  | VText t => s2b "t" ++ hex_of_bytes t
  | VBool true => s2b "T"
  | VBool false => s2b "F"
  | VNull => s2b "N"
  | VTag t v => s2b "g" ++ s2b (HexString.of_N t) ++ s2b "(" ++ show_value v ++ s2b ")"
  | VArray l => s2b "[" ++ sep_concat (s2b ",") (map show_value l) ++ s2b "]"
  | VMap m => s2b "{" ++ sep_concat (s2b ",") (map (fun kv => show_value (fst kv) ++ s2b ":" ++ show_value (snd kv)) m) ++ s2b "}"
  end.

Definition show_err (e : err) : bytes :=
  s2b match e with
      | EDecode => "err:Decode" | EDup => "err:Dup" | EEncode => "err:Encode" | EExtra => "err:Extra"
      | ERange => "err:Range" | EUnexpected => "err:Unexpected" | EUnreg => "err:Unreg"
      | EUnregNonPriv => "err:UnregNonPriv"
      end.

Definition show_res {A} (f : A -> bytes) (r : res A) : bytes :=
  match r with
  | Ok a => s2b "ok " ++ f a
  | Err e => show_err e
  | Panic => s2b "panic"
  | OutOfFuel => s2b "outoffuel"
  end.

(* ---------- struct -> desc ---------- *)
Definition d_opt {A} (f : A -> value) (o : option A) : value :=
  match o with Some a => f a | None => VNull end.
Definition d_reg (l : reg_label) : value :=
  match l with RAssigned z => VArray [VInt 1; VInt z] | RText t => VArray [VInt 2; VText t] end.
Definition d_regp (l : regp_label) : value :=
  match l with
  | PPrivate z => VArray [VInt 0; VInt z]
  | PAssigned z => VArray [VInt 1; VInt z]
  | PText t => VArray [VInt 2; VText t]
  end.
Definition d_label := label_to_value.
Definition d_pairs (l : list (label * value)) : value :=
  VArray (map (fun p => VArray [d_label (fst p); snd p]) l).

Fixpoint d_header (h : header) {struct h} : value :=
  VArray [d_opt d_regp (h_alg h); VArray (map d_reg (h_crit h)); d_opt d_reg (h_ctype h);
          VBytes (h_kid h); VBytes (h_iv h); VBytes (h_piv h);
          VArray (map d_signature (h_csigs h)); d_pairs (h_rest h)]
with d_signature (s : signature) {struct s} : value :=
  VArray [d_protected (s_prot s); d_header (s_unprot s); VBytes (s_sig s)]
with d_protected (p : protected) {struct p} : value :=
  VArray [d_opt VBytes (p_orig p); d_header (p_hdr p)].

Definition d_sign1 (m : sign1) := VArray [d_protected (s1_prot m); d_header (s1_unprot m); d_opt VBytes (s1_payload m); VBytes (s1_sig m)].
Definition d_sign (m : sign) := VArray [d_protected (sn_prot m); d_header (sn_unprot m); d_opt VBytes (sn_payload m); VArray (map d_signature (sn_sigs m))].
Definition d_mac0 (m : mac0) := VArray [d_protected (m0_prot m); d_header (m0_unprot m); d_opt VBytes (m0_payload m); VBytes (m0_tag m)].
Fixpoint d_recipient (r : recipient) : value :=
  VArray [d_protected (r_prot r); d_header (r_unprot r); d_opt VBytes (r_ct r); VArray (map d_recipient (r_recipients r))].
Definition d_mac (m : mac) := VArray [d_protected (mc_prot m); d_header (mc_unprot m); d_opt VBytes (mc_payload m); VBytes (mc_tag m); VArray (map d_recipient (mc_recipients m))].
Definition d_encrypt (m : encrypt) := VArray [d_protected (en_prot m); d_header (en_unprot m); d_opt VBytes (en_ct m); VArray (map d_recipient (en_recipients m))].
Definition d_encrypt0 (m : encrypt0) := VArray [d_protected (e0_prot m); d_header (e0_unprot m); d_opt VBytes (e0_ct m)].
Definition d_key (k : cose_key) :=
  VArray [d_reg (k_kty k); VBytes (k_kid k); d_opt d_regp (k_alg k); VArray (map d_reg (k_ops k));
          VBytes (k_base_iv k); d_pairs (k_params k)].
Definition d_keyset (ks : list cose_key) := VArray (map d_key ks).
Definition d_timestamp (t : timestamp) :=
  match t with WholeSeconds z => VArray [VInt 0; VInt z] | FractionalSeconds f => VArray [VInt 1; VFloat f] end.
Definition d_claims (c : claims) :=
  VArray [d_opt VText (c_iss c); d_opt VText (c_sub c); d_opt VText (c_aud c);
          d_opt d_timestamp (c_exp c); d_opt d_timestamp (c_nbf c); d_opt d_timestamp (c_iat c);
          d_opt VBytes (c_cti c);
          VArray (map (fun p => VArray [d_regp (fst p); snd p]) (c_rest c))].
Definition d_nonce (n : nonce) := match n with NonceBytes b => VBytes b | NonceInteger z => VInt z end.
Definition d_party (p : party_info) := VArray [d_opt VBytes (pi_identity p); d_opt d_nonce (pi_nonce p); d_opt VBytes (pi_other p)].
Definition d_supp (s : supp_pub_info) := VArray [VInt (sp_len s); d_protected (sp_prot s); d_opt VBytes (sp_other s)].
Definition d_kdf (k : kdf_context) :=
  VArray [d_regp (kc_alg k); d_party (kc_u k); d_party (kc_v k); d_supp (kc_pub k); VArray (map VBytes (kc_priv k))].

(* ---------- desc -> struct (Err EUnexpected = malformed description) ---------- *)
Definition bad {A} : res A := Err EUnexpected.
Definition o_opt {A} (f : value -> res A) (v : value) : res (option A) :=
  match v with VNull => Ok None | _ => do a <- f v; Ok (Some a) end.
Definition o_bytes (v : value) : res bytes := match v with VBytes b => Ok b | _ => bad end.
Definition o_text (v : value) : res bytes := match v with VText b => Ok b | _ => bad end.
Definition o_int (v : value) : res Z := match v with VInt z => Ok z | _ => bad end.
Definition o_reg (v : value) : res reg_label :=
  match v with
  | VArray [VInt 1; VInt z] => Ok (RAssigned z)
  | VArray [VInt 2; VText t] => Ok (RText t)
  | _ => bad
  end.
Definition o_regp (v : value) : res regp_label :=
  match v with
  | VArray [VInt 0; VInt z] => Ok (PPrivate z)
  | VArray [VInt 1; VInt z] => Ok (PAssigned z)
  | VArray [VInt 2; VText t] => Ok (PText t)
  | _ => bad
  end.
Definition o_label (v : value) : res label :=
  match v with VInt z => Ok (LInt z) | VText t => Ok (LText t) | _ => bad end.
Definition o_list {A} (f : value -> res A) (v : value) : res (list A) :=
  match v with VArray l => mapM f l | _ => bad end.
Definition o_pair (v : value) : res (label * value) :=
  match v with VArray [k; x] => do l <- o_label k; Ok (l, x) | _ => bad end.

Fixpoint o_header (v : value) {struct v} : res header :=
  match v with
  | VArray [a; c; ct; kid; iv; piv; cs; rest] =>
    do a' <- o_opt o_regp a;
    do c' <- o_list o_reg c;
    do ct' <- o_opt o_reg ct;
    do kid' <- o_bytes kid; do iv' <- o_bytes iv; do piv' <- o_bytes piv;
    do cs' <- match cs with
              | VArray l => mapM (fun s =>
                  match s with
                  | VArray [p; u; sg] =>
                    do p' <- match p with
                             | VArray [od; h] => do od' <- o_opt o_bytes od; do h' <- o_header h; Ok (mkProtected od' h')
                             | _ => bad
                             end;
                    do u' <- o_header u;
                    do sg' <- o_bytes sg;
                    Ok (mkSignature p' u' sg')
                  | _ => bad
                  end) l
              | _ => bad
              end;
    do rest' <- o_list o_pair rest;
    Ok (mkHeader a' c' ct' kid' iv' piv' cs' rest')
  | _ => bad
  end.
Definition o_protected (v : value) : res protected :=
  match v with
  | VArray [od; h] => do od' <- o_opt o_bytes od; do h' <- o_header h; Ok (mkProtected od' h')
  | _ => bad
  end.
Definition o_signature (v : value) : res signature :=
  match v with
  | VArray [p; u; sg] => do p' <- o_protected p; do u' <- o_header u; do sg' <- o_bytes sg; Ok (mkSignature p' u' sg')
  | _ => bad
  end.
Definition o_sign1 (v : value) : res sign1 :=
  match v with
  | VArray [p; u; pl; sg] => do p' <- o_protected p; do u' <- o_header u; do pl' <- o_opt o_bytes pl; do sg' <- o_bytes sg; Ok (mkSign1 p' u' pl' sg')
  | _ => bad
  end.
Definition o_sign (v : value) : res sign :=
  match v with
  | VArray [p; u; pl; sg] => do p' <- o_protected p; do u' <- o_header u; do pl' <- o_opt o_bytes pl; do sg' <- o_list o_signature sg; Ok (mkSign p' u' pl' sg')
  | _ => bad
  end.
Definition o_mac0 (v : value) : res mac0 :=
  match v with
  | VArray [p; u; pl; sg] => do p' <- o_protected p; do u' <- o_header u; do pl' <- o_opt o_bytes pl; do sg' <- o_bytes sg; Ok (mkMac0 p' u' pl' sg')
  | _ => bad
  end.
Fixpoint o_recipient (v : value) {struct v} : res recipient :=
  match v with
  | VArray [p; u; ct; rs] =>
    do p' <- o_protected p; do u' <- o_header u; do ct' <- o_opt o_bytes ct;
    do rs' <- match rs with VArray l => mapM o_recipient l | _ => bad end;
    Ok (mkRecipient p' u' ct' rs')
  | _ => bad
  end.
Definition o_mac (v : value) : res mac :=
  match v with
  | VArray [p; u; pl; tg; rs] => do p' <- o_protected p; do u' <- o_header u; do pl' <- o_opt o_bytes pl; do tg' <- o_bytes tg; do rs' <- o_list o_recipient rs; Ok (mkMac p' u' pl' tg' rs')
  | _ => bad
  end.
Definition o_encrypt (v : value) : res encrypt :=
  match v with
  | VArray [p; u; ct; rs] => do p' <- o_protected p; do u' <- o_header u; do ct' <- o_opt o_bytes ct; do rs' <- o_list o_recipient rs; Ok (mkEncrypt p' u' ct' rs')
  | _ => bad
  end.
Definition o_encrypt0 (v : value) : res encrypt0 :=
  match v with
  | VArray [p; u; ct] => do p' <- o_protected p; do u' <- o_header u; do ct' <- o_opt o_bytes ct; Ok (mkEncrypt0 p' u' ct')
  | _ => bad
  end.
(* key_ops given as a list: inserted one by one, as BTreeSet::from_iter would *)
Definition o_key (v : value) : res cose_key :=
  match v with
  | VArray [kty; kid; alg; ops; biv; params] =>
    do kty' <- o_reg kty; do kid' <- o_bytes kid; do alg' <- o_opt o_regp alg;
    do ops' <- o_list o_reg ops; do biv' <- o_bytes biv; do params' <- o_list o_pair params;
    Ok (mkKey kty' kid' alg' (fold_left (fun s x => snd (reg_set_insert x s)) ops' []) biv' params')
  | _ => bad
  end.
Definition o_timestamp (v : value) : res timestamp :=
  match v with
  | VArray [VInt 0; VInt z] => Ok (WholeSeconds z)
  | VArray [VInt 1; VFloat f] => Ok (FractionalSeconds f)
  | _ => bad
  end.
Definition o_claim_pair (v : value) : res (regp_label * value) :=
  match v with VArray [k; x] => do l <- o_regp k; Ok (l, x) | _ => bad end.
Definition o_claims (v : value) : res claims :=
  match v with
  | VArray [i; s; a; e; n; t; c; r] =>
    do i' <- o_opt o_text i; do s' <- o_opt o_text s; do a' <- o_opt o_text a;
    do e' <- o_opt o_timestamp e; do n' <- o_opt o_timestamp n; do t' <- o_opt o_timestamp t;
    do c' <- o_opt o_bytes c; do r' <- o_list o_claim_pair r;
    Ok (mkClaims i' s' a' e' n' t' c' r')
  | _ => bad
  end.
Definition o_nonce (v : value) : res nonce :=
  match v with VBytes b => Ok (NonceBytes b) | VInt z => Ok (NonceInteger z) | _ => bad end.
Definition o_party (v : value) : res party_info :=
  match v with
  | VArray [i; n; o] => do i' <- o_opt o_bytes i; do n' <- o_opt o_nonce n; do o' <- o_opt o_bytes o; Ok (mkParty i' n' o')
  | _ => bad
  end.
Definition o_supp (v : value) : res supp_pub_info :=
  match v with
  | VArray [l; p; o] => do l' <- o_int l; do p' <- o_protected p; do o' <- o_opt o_bytes o; Ok (mkSupp l' p' o')
  | _ => bad
  end.
Definition o_kdf (v : value) : res kdf_context :=
  match v with
  | VArray [a; u; w; s; pr] =>
    do a' <- o_regp a; do u' <- o_party u; do w' <- o_party w; do s' <- o_supp s; do pr' <- o_list o_bytes pr;
    Ok (mkKdf a' u' w' s' pr')
  | _ => bad
  end.
