(* Header, ProtectedHeader, CoseSignature and the message structures:
   from_cbor_value / to_cbor_value / structure functions / helper entry points.
   Hand transliteration of src/header, src/sign, src/mac, src/encrypt. *)
From Coset.Model Require Import Prelude Cbor Iana Label.
From Coset.gen Require Import Generated.
Open Scope string_scope. Open Scope Z_scope. Open Scope list_scope.

(* ---------- util::ValueTryAs ---------- *)
Definition try_as_bytes (v : value) : res bytes :=
  match v with VBytes b => Ok b | _ => Err EUnexpected end.
Definition try_as_nonempty_bytes (v : value) : res bytes :=
  do b <- try_as_bytes v; if isnil b then Err EUnexpected else Ok b.
Definition try_as_array (v : value) : res (list value) :=
  match v with VArray a => Ok a | _ => Err EUnexpected end.
Definition try_as_map (v : value) : res (list (value * value)) :=
  match v with VMap m => Ok m | _ => Err EUnexpected end.
Definition try_as_string (v : value) : res bytes :=
  match v with VText t => Ok t | _ => Err EUnexpected end.
Definition try_as_integer (v : value) : res Z :=
  match v with VInt z => Ok z | _ => Err EUnexpected end.
Definition bytes_or_nil (v : value) : res (option bytes) :=
  match v with VBytes b => Ok (Some b) | VNull => Ok None | _ => Err EUnexpected end.

(* common::read_to_value *)
Definition read_to_value (l : bytes) : res value :=
  do (v, r) <- from_reader l;
  if isnil r then Ok v else Err EExtra.

(* ---------- types ---------- *)
Inductive header := mkHeader {
  h_alg : option regp_label;
  h_crit : list reg_label;
  h_ctype : option reg_label;
  h_kid : bytes;
  h_iv : bytes;
  h_piv : bytes;
  h_csigs : list signature;
  h_rest : list (label * value) }
with signature := mkSignature {
  s_prot : protected;
  s_unprot : header;
  s_sig : bytes }
with protected := mkProtected {
  p_orig : option bytes;
  p_hdr : header }.

Definition header_default : header := mkHeader None [] None [] [] [] [] [].
Definition protected_default : protected := mkProtected None header_default.
Definition signature_default : signature := mkSignature protected_default header_default [].

Definition header_is_empty (h : header) : bool :=
  negb (issome (h_alg h)) && isnil (h_crit h) && negb (issome (h_ctype h)) && isnil (h_kid h)
  && isnil (h_iv h) && isnil (h_piv h) && isnil (h_csigs h) && isnil (h_rest h).

(* ---------- content-type text checks (str::trim, matches('/').count()) ---------- *)
(* Unicode White_Space as UTF-8, at the front of a byte string *)
Definition ws_prefix (l : bytes) : bool :=
  match l with
  | b0 :: r0 =>
    let n0 := b2n b0 in
    if ((9 <=? n0) && (n0 <=? 13))%N || (n0 =? 32)%N then true
    else match r0 with
    | b1 :: r1 =>
      let n1 := b2n b1 in
      if (n0 =? 194)%N then (n1 =? 133)%N || (n1 =? 160)%N
      else match r1 with
      | b2 :: _ =>
        let n2 := b2n b2 in
        if (n0 =? 225)%N then (n1 =? 154)%N && (n2 =? 128)%N
        else if (n0 =? 226)%N then
          ((n1 =? 128)%N && (((128 <=? n2) && (n2 <=? 138))%N || (n2 =? 168)%N || (n2 =? 169)%N || (n2 =? 175)%N))
          || ((n1 =? 129)%N && (n2 =? 159)%N)
        else if (n0 =? 227)%N then (n1 =? 128)%N && (n2 =? 128)%N
        else false
      | [] => false
      end
    | [] => false
    end
  | [] => false
  end.

(* ... at the end: look at the last 1, 2 or 3 bytes *)
Definition ws_suffix (l : bytes) : bool :=
  match rev l with
  | c :: r0 =>
    let n := b2n c in
    if (n <? 128)%N then ((9 <=? n) && (n <=? 13))%N || (n =? 32)%N
    else match r0 with
    | b :: r1 =>
      if (192 <=? b2n b)%N then ws_prefix [b; c]
      else match r1 with
      | a :: _ => ws_prefix [a; b; c]
      | [] => false
      end
    | [] => false
    end
  | [] => false
  end.

Definition count_slash (l : bytes) : nat :=
  List.length (filter (fun b => (b2n b =? 47)%N) l).

Definition check_content_type_text (t : bytes) : res unit :=
  if isnil t then Err EUnexpected
  else if ws_prefix t || ws_suffix t then Err EUnexpected
  else if negb (Nat.eqb (count_slash t) 1) then Err EUnexpected
  else Ok tt.

(* ---------- sequential map decoder with a seen-set and early exit ---------- *)
Section Loop.
  Context {S : Type}.
  Variable step : S -> label -> value -> res S.
  Definition map_loop :=
    fix go (m : list (value * value)) (s : S) (seen : list label) : res S :=
      match m with
      | [] => Ok s
      | (k, x) :: m' =>
        do l <- label_from_value k;
        if label_mem l seen then Err EDup
        else do s' <- step s l x; go m' s' (l :: seen)
      end.
End Loop.

(* field setters *)
Definition set_alg a h := mkHeader a (h_crit h) (h_ctype h) (h_kid h) (h_iv h) (h_piv h) (h_csigs h) (h_rest h).
Definition set_crit c h := mkHeader (h_alg h) c (h_ctype h) (h_kid h) (h_iv h) (h_piv h) (h_csigs h) (h_rest h).
Definition set_ctype c h := mkHeader (h_alg h) (h_crit h) c (h_kid h) (h_iv h) (h_piv h) (h_csigs h) (h_rest h).
Definition set_kid k h := mkHeader (h_alg h) (h_crit h) (h_ctype h) k (h_iv h) (h_piv h) (h_csigs h) (h_rest h).
Definition set_iv i h := mkHeader (h_alg h) (h_crit h) (h_ctype h) (h_kid h) i (h_piv h) (h_csigs h) (h_rest h).
Definition set_piv i h := mkHeader (h_alg h) (h_crit h) (h_ctype h) (h_kid h) (h_iv h) i (h_csigs h) (h_rest h).
Definition set_csigs c h := mkHeader (h_alg h) (h_crit h) (h_ctype h) (h_kid h) (h_iv h) (h_piv h) c (h_rest h).
Definition set_rest r h := mkHeader (h_alg h) (h_crit h) (h_ctype h) (h_kid h) (h_iv h) (h_piv h) (h_csigs h) r.

Definition is_lint (l : label) (z : Z) : bool := match l with LInt i => Z.eqb i z | LText _ => false end.

(* RFC 8152 3.1: IV and Partial IV must not both be present *)
Definition iv_clash (h : header) : bool := negb (isnil (h_iv h)) && negb (isnil (h_piv h)).

(* ---------- decoding, one nesting level ---------- *)
Section Level.
  (* Header::from_slice for a protected header one level further down,
     or the nesting-limit error *)
  Variable parse_prot : bytes -> res header.

  Definition protected_from_bstr (v : value) : res protected :=
    do data <- try_as_bytes v;
    if isnil data then Ok (mkProtected (Some data) header_default)
    else do h <- parse_prot data; Ok (mkProtected (Some data) h).

  Definition signature_from_value_with (hv : value -> res header) (v : value) : res signature :=
    match v with
    | VArray a =>
      if negb (arity_ok "CoseSignature" (List.length a)) then Err EUnexpected
      else match a with
      | x0 :: x1 :: x2 :: _ =>
        do sg <- try_as_bytes x2;
        do u <- hv x1;
        do p <- protected_from_bstr x0;
        Ok (mkSignature p u sg)
      | _ => Panic   (* a.remove(i) out of range *)
      end
    | _ => Err EUnexpected
    end.

  Definition header_step (hv : value -> res header) (h : header) (l : label) (x : value) : res header :=
    do h' <-
      (if is_lint l H_ALG then
         do a <- regp_from_value "Algorithm" x; Ok (set_alg (Some a) h)
       else if is_lint l H_CRIT then
         match x with
         | VArray a =>
           if isnil a then Err EUnexpected
           else do c <- mapM (reg_from_value T_HeaderParameter) a; Ok (set_crit (h_crit h ++ c) h)
         | _ => Err EUnexpected
         end
       else if is_lint l H_CONTENT_TYPE then
         do c <- reg_from_value T_CoapContentFormat x;
         match c with
         | RText t => do _ <- check_content_type_text t; Ok (set_ctype (Some c) h)
         | _ => Ok (set_ctype (Some c) h)
         end
       else if is_lint l H_KID then
         do b <- try_as_nonempty_bytes x; Ok (set_kid b h)
       else if is_lint l H_IV then
         do b <- try_as_nonempty_bytes x; Ok (set_iv b h)
       else if is_lint l H_PARTIAL_IV then
         do b <- try_as_nonempty_bytes x; Ok (set_piv b h)
       else if is_lint l H_COUNTER_SIG then
         match x with
         | VArray sig_or_sigs =>
           match sig_or_sigs with
           | [] => Err EUnexpected
           | VBytes _ :: _ =>
             do s <- signature_from_value_with hv x; Ok (set_csigs (h_csigs h ++ [s]) h)
           | VArray _ :: _ =>
             do ss <- mapM (signature_from_value_with hv) sig_or_sigs; Ok (set_csigs (h_csigs h ++ ss) h)
           | _ => Err EUnexpected
           end
         | _ => Err EUnexpected
         end
       else Ok (set_rest (h_rest h ++ [(l, x)]) h));
    if iv_clash h' then Err EUnexpected else Ok h'.

  Fixpoint header_from_value (v : value) {struct v} : res header :=
    match v with
    | VMap m => map_loop (header_step header_from_value) m header_default []
    | _ => Err EUnexpected
    end.

  Definition signature_from_value := signature_from_value_with header_from_value.
End Level.

(* remaining budget n = MAX_PROTECTED_NESTING - depth *)
Fixpoint header_at (n : nat) (v : value) {struct n} : res header :=
  header_from_value
    (fun data => match n with
                 | O => Err EUnexpected
                 | S n' => do v' <- read_to_value data; header_at n' v'
                 end) v.

Definition parse_prot_at (n : nat) (data : bytes) : res header :=
  match n with
  | O => Err EUnexpected
  | S n' => do v' <- read_to_value data; header_at n' v'
  end.

(* the public entry points (depth 0) *)
Definition Header_from_value (v : value) : res header := header_at nest_limit v.
Definition ProtectedHeader_from_cbor_bstr (v : value) : res protected :=
  protected_from_bstr (parse_prot_at nest_limit) v.
Definition CoseSignature_from_value (v : value) : res signature :=
  signature_from_value (parse_prot_at nest_limit) v.
(* AsCborValue for ProtectedHeader: a bare map, no wire bytes retained *)
Definition ProtectedHeader_from_value (v : value) : res protected :=
  do h <- Header_from_value v; Ok (mkProtected None h).

(* ---------- encoding ---------- *)
Definition opt_entry {A} (k : Z) (o : option A) (f : A -> value) : list (value * value) :=
  match o with Some a => [(VInt k, f a)] | None => [] end.
Definition bytes_entry (k : Z) (b : bytes) : list (value * value) :=
  if isnil b then [] else [(VInt k, VBytes b)].

(* the loop over rest / params with its seen-set *)
Fixpoint emit_rest (rest : list (label * value)) (seen : list label) (acc : list (value * value))
  : res (list (value * value)) :=
  match rest with
  | [] => Ok acc
  | (l, x) :: r =>
    if label_mem l seen then Err EDup
    else emit_rest r (l :: seen) (acc ++ [(label_to_value l, x)])
  end.

(* seen-set seeded from the entries already emitted (F2 repair) *)
Definition seed_seen (m : list (value * value)) : res (list label) :=
  mapM (fun kv => label_from_value (fst kv)) m.

Fixpoint header_to_value (h : header) {struct h} : res value :=
  let m1 := opt_entry H_ALG (h_alg h) regp_to_value
         ++ (if isnil (h_crit h) then [] else [(VInt H_CRIT, VArray (map reg_to_value (h_crit h)))])
         ++ opt_entry H_CONTENT_TYPE (h_ctype h) reg_to_value
         ++ bytes_entry H_KID (h_kid h)
         ++ bytes_entry H_IV (h_iv h)
         ++ bytes_entry H_PARTIAL_IV (h_piv h) in
  do m2 <-
    match h_csigs h with
    | [] => Ok m1
    | [s] => do sv <- signature_to_value s; Ok (m1 ++ [(VInt H_COUNTER_SIG, sv)])
    | ss => do svs <- mapM signature_to_value ss; Ok (m1 ++ [(VInt H_COUNTER_SIG, VArray svs)])
    end;
  do seen <- seed_seen m2;
  do m <- emit_rest (h_rest h) seen m2;
  Ok (VMap m)
with signature_to_value (s : signature) {struct s} : res value :=
  do p <- protected_cbor_bstr (s_prot s);
  do u <- header_to_value (s_unprot s);
  Ok (VArray [p; u; VBytes (s_sig s)])
with protected_cbor_bstr (p : protected) {struct p} : res value :=
  match p_orig p with
  | Some d => Ok (VBytes d)
  | None =>
    if header_is_empty (p_hdr p) then Ok (VBytes [])
    else do v <- header_to_value (p_hdr p); Ok (VBytes (ser v))
  end.

Definition protected_to_value (p : protected) : res value := header_to_value (p_hdr p).

(* ---------- RFC 8152 structure functions ---------- *)
Definition s2b (s : string) : bytes := list_byte_of_string s.

Inductive sig_context := SigCoseSignature | SigCoseSign1 | SigCounterSignature.
Inductive mac_context := MacCoseMac | MacCoseMac0.
Inductive enc_context := EncCoseEncrypt | EncCoseEncrypt0 | EncEncRecipient | EncMacRecipient | EncRecRecipient.

Definition sig_context_text (c : sig_context) : bytes :=
  s2b (ctx_text sig_ctx_text
    match c with SigCoseSignature => "CoseSignature" | SigCoseSign1 => "CoseSign1"
               | SigCounterSignature => "CounterSignature" end).
Definition mac_context_text (c : mac_context) : bytes :=
  s2b (ctx_text mac_ctx_text match c with MacCoseMac => "CoseMac" | MacCoseMac0 => "CoseMac0" end).
Definition enc_context_text (c : enc_context) : bytes :=
  s2b (ctx_text enc_ctx_text
    match c with EncCoseEncrypt => "CoseEncrypt" | EncCoseEncrypt0 => "CoseEncrypt0"
               | EncEncRecipient => "EncRecipient" | EncMacRecipient => "MacRecipient"
               | EncRecRecipient => "RecRecipient" end).

(* .expect("failed to serialize header") *)
Definition expect {A} (r : res A) : res A :=
  match r with Err _ => Panic | x => x end.

Definition sig_structure_data (c : sig_context) (body : protected) (sign : option protected)
           (aad payload : bytes) : res bytes :=
  do b <- expect (protected_cbor_bstr body);
  do s <- match sign with
          | Some sp => do x <- expect (protected_cbor_bstr sp); Ok [x]
          | None => Ok []
          end;
  Ok (ser (VArray ([VText (sig_context_text c); b] ++ s ++ [VBytes aad; VBytes payload]))).

Definition mac_structure_data (c : mac_context) (p : protected) (aad payload : bytes) : res bytes :=
  do b <- expect (protected_cbor_bstr p);
  Ok (ser (VArray [VText (mac_context_text c); b; VBytes aad; VBytes payload])).

Definition enc_structure_data (c : enc_context) (p : protected) (aad : bytes) : res bytes :=
  do b <- expect (protected_cbor_bstr p);
  Ok (ser (VArray [VText (enc_context_text c); b; VBytes aad])).

(* ---------- messages ---------- *)
Record sign1 := mkSign1 { s1_prot : protected; s1_unprot : header; s1_payload : option bytes; s1_sig : bytes }.
Record sign := mkSign { sn_prot : protected; sn_unprot : header; sn_payload : option bytes; sn_sigs : list signature }.
Record mac0 := mkMac0 { m0_prot : protected; m0_unprot : header; m0_payload : option bytes; m0_tag : bytes }.
Inductive recipient := mkRecipient {
  r_prot : protected; r_unprot : header; r_ct : option bytes; r_recipients : list recipient }.
Record mac := mkMac { mc_prot : protected; mc_unprot : header; mc_payload : option bytes; mc_tag : bytes;
                      mc_recipients : list recipient }.
Record encrypt := mkEncrypt { en_prot : protected; en_unprot : header; en_ct : option bytes;
                              en_recipients : list recipient }.
Record encrypt0 := mkEncrypt0 { e0_prot : protected; e0_unprot : header; e0_ct : option bytes }.

Definition opt_bytes_value (o : option bytes) : value :=
  match o with Some b => VBytes b | None => VNull end.

Definition Header_to_value := header_to_value.
Definition CoseSignature_to_value := signature_to_value.

Definition CoseSign1_from_value (v : value) : res sign1 :=
  do a <- try_as_array v;
  if negb (arity_ok "CoseSign1" (List.length a)) then Err EUnexpected
  else match a with
  | x0 :: x1 :: x2 :: x3 :: _ =>
    do sg <- try_as_bytes x3;
    do pl <- bytes_or_nil x2;
    do u <- Header_from_value x1;
    do p <- ProtectedHeader_from_cbor_bstr x0;
    Ok (mkSign1 p u pl sg)
  | _ => Panic
  end.
Definition CoseSign1_to_value (m : sign1) : res value :=
  do p <- protected_cbor_bstr (s1_prot m);
  do u <- header_to_value (s1_unprot m);
  Ok (VArray [p; u; opt_bytes_value (s1_payload m); VBytes (s1_sig m)]).

Definition CoseSign_from_value (v : value) : res sign :=
  do a <- try_as_array v;
  if negb (arity_ok "CoseSign" (List.length a)) then Err EUnexpected
  else match a with
  | x0 :: x1 :: x2 :: x3 :: _ =>
    do sa <- try_as_array x3;
    do sigs <- mapM (fun s => map_err (CoseSignature_from_value s) EUnexpected) sa;
    do pl <- bytes_or_nil x2;
    do u <- Header_from_value x1;
    do p <- ProtectedHeader_from_cbor_bstr x0;
    Ok (mkSign p u pl sigs)
  | _ => Panic
  end.
Definition CoseSign_to_value (m : sign) : res value :=
  do p <- protected_cbor_bstr (sn_prot m);
  do u <- header_to_value (sn_unprot m);
  do ss <- mapM signature_to_value (sn_sigs m);
  Ok (VArray [p; u; opt_bytes_value (sn_payload m); VArray ss]).

Definition CoseMac0_from_value (v : value) : res mac0 :=
  do a <- try_as_array v;
  if negb (arity_ok "CoseMac0" (List.length a)) then Err EUnexpected
  else match a with
  | x0 :: x1 :: x2 :: x3 :: _ =>
    do tg <- try_as_bytes x3;
    do pl <- bytes_or_nil x2;
    do u <- Header_from_value x1;
    do p <- ProtectedHeader_from_cbor_bstr x0;
    Ok (mkMac0 p u pl tg)
  | _ => Panic
  end.
Definition CoseMac0_to_value (m : mac0) : res value :=
  do p <- protected_cbor_bstr (m0_prot m);
  do u <- header_to_value (m0_unprot m);
  Ok (VArray [p; u; opt_bytes_value (m0_payload m); VBytes (m0_tag m)]).

Fixpoint CoseRecipient_from_value (v : value) {struct v} : res recipient :=
  match v with
  | VArray a =>
    if negb (arity_ok "CoseRecipient" (List.length a)) then Err EUnexpected
    else match a with
    | x0 :: x1 :: x2 :: rest =>
      do rs <- (if Nat.eqb (List.length a) 4 then
                  match rest with
                  | x3 :: _ =>
                    match x3 with
                    | VArray ra => mapM CoseRecipient_from_value ra
                    | _ => Err EUnexpected
                    end
                  | [] => Panic
                  end
                else Ok []);
      do ct <- bytes_or_nil x2;
      do u <- Header_from_value x1;
      do p <- ProtectedHeader_from_cbor_bstr x0;
      Ok (mkRecipient p u ct rs)
    | _ => Panic
    end
  | _ => Err EUnexpected
  end.
Fixpoint CoseRecipient_to_value (r : recipient) {struct r} : res value :=
  do p <- protected_cbor_bstr (r_prot r);
  do u <- header_to_value (r_unprot r);
  do tail <- (if isnil (r_recipients r) then Ok []
              else do rs <- mapM CoseRecipient_to_value (r_recipients r); Ok [VArray rs]);
  Ok (VArray ([p; u; opt_bytes_value (r_ct r)] ++ tail)).

Definition recipients_from_value (v : value) : res (list recipient) :=
  do ra <- try_as_array v; mapM CoseRecipient_from_value ra.

Definition CoseMac_from_value (v : value) : res mac :=
  do a <- try_as_array v;
  if negb (arity_ok "CoseMac" (List.length a)) then Err EUnexpected
  else match a with
  | x0 :: x1 :: x2 :: x3 :: x4 :: _ =>
    do rs <- recipients_from_value x4;
    do tg <- try_as_bytes x3;
    do pl <- bytes_or_nil x2;
    do u <- Header_from_value x1;
    do p <- ProtectedHeader_from_cbor_bstr x0;
    Ok (mkMac p u pl tg rs)
  | _ => Panic
  end.
Definition CoseMac_to_value (m : mac) : res value :=
  do p <- protected_cbor_bstr (mc_prot m);
  do u <- header_to_value (mc_unprot m);
  do rs <- mapM CoseRecipient_to_value (mc_recipients m);
  Ok (VArray [p; u; opt_bytes_value (mc_payload m); VBytes (mc_tag m); VArray rs]).

Definition CoseEncrypt_from_value (v : value) : res encrypt :=
  do a <- try_as_array v;
  if negb (arity_ok "CoseEncrypt" (List.length a)) then Err EUnexpected
  else match a with
  | x0 :: x1 :: x2 :: x3 :: _ =>
    do rs <- recipients_from_value x3;
    do ct <- bytes_or_nil x2;
    do u <- Header_from_value x1;
    do p <- ProtectedHeader_from_cbor_bstr x0;
    Ok (mkEncrypt p u ct rs)
  | _ => Panic
  end.
Definition CoseEncrypt_to_value (m : encrypt) : res value :=
  do p <- protected_cbor_bstr (en_prot m);
  do u <- header_to_value (en_unprot m);
  do rs <- mapM CoseRecipient_to_value (en_recipients m);
  Ok (VArray [p; u; opt_bytes_value (en_ct m); VArray rs]).

Definition CoseEncrypt0_from_value (v : value) : res encrypt0 :=
  do a <- try_as_array v;
  if negb (arity_ok "CoseEncrypt0" (List.length a)) then Err EUnexpected
  else match a with
  | x0 :: x1 :: x2 :: _ =>
    do ct <- bytes_or_nil x2;
    do u <- Header_from_value x1;
    do p <- ProtectedHeader_from_cbor_bstr x0;
    Ok (mkEncrypt0 p u ct)
  | _ => Panic
  end.
Definition CoseEncrypt0_to_value (m : encrypt0) : res value :=
  do p <- protected_cbor_bstr (e0_prot m);
  do u <- header_to_value (e0_unprot m);
  Ok (VArray [p; u; opt_bytes_value (e0_ct m)]).

(* ---------- to-be-signed / MACed / AAD helpers ---------- *)
Definition unwrap_or_empty (o : option bytes) : bytes := match o with Some b => b | None => [] end.

Definition Sign1_tbs_data (m : sign1) (aad : bytes) : res bytes :=
  sig_structure_data SigCoseSign1 (s1_prot m) None aad (unwrap_or_empty (s1_payload m)).
Definition Sign1_tbs_detached_data (m : sign1) (payload aad : bytes) : res bytes :=
  if issome (s1_payload m) then Panic   (* assert!(self.payload.is_none()) *)
  else sig_structure_data SigCoseSign1 (s1_prot m) None aad payload.
Definition Sign_tbs_data (m : sign) (aad : bytes) (sg : signature) : res bytes :=
  sig_structure_data SigCoseSignature (sn_prot m) (Some (s_prot sg)) aad (unwrap_or_empty (sn_payload m)).
Definition Sign_tbs_detached_data (m : sign) (payload aad : bytes) (sg : signature) : res bytes :=
  if issome (sn_payload m) then Panic
  else sig_structure_data SigCoseSignature (sn_prot m) (Some (s_prot sg)) aad payload.

Definition Mac_tbm (m : mac) (aad : bytes) : res bytes :=
  match mc_payload m with
  | None => Panic   (* expect("payload missing") *)
  | Some pl => mac_structure_data MacCoseMac (mc_prot m) aad pl
  end.
Definition Mac0_tbm (m : mac0) (aad : bytes) : res bytes :=
  match m0_payload m with
  | None => Panic
  | Some pl => mac_structure_data MacCoseMac0 (m0_prot m) aad pl
  end.

Definition is_recipient_context (c : enc_context) : bool :=
  match c with EncEncRecipient | EncMacRecipient | EncRecRecipient => true | _ => false end.

(* verify / decrypt helpers: what the caller's closure receives *)
Section Closures.
  Context {R : Type}.
  Definition Sign1_verify_signature (m : sign1) (aad : bytes) (verifier : bytes -> bytes -> R) : res R :=
    do tbs <- Sign1_tbs_data m aad; Ok (verifier (s1_sig m) tbs).
  Definition Sign1_verify_detached_signature (m : sign1) (payload aad : bytes)
             (verifier : bytes -> bytes -> R) : res R :=
    do tbs <- Sign1_tbs_detached_data m payload aad; Ok (verifier (s1_sig m) tbs).
  Definition Sign_verify_signature (m : sign) (which : nat) (aad : bytes)
             (verifier : bytes -> bytes -> R) : res R :=
    do sg <- nth_res (sn_sigs m) which;
    do tbs <- Sign_tbs_data m aad sg; Ok (verifier (s_sig sg) tbs).
  Definition Sign_verify_detached_signature (m : sign) (which : nat) (payload aad : bytes)
             (verifier : bytes -> bytes -> R) : res R :=
    do sg <- nth_res (sn_sigs m) which;
    do tbs <- Sign_tbs_detached_data m payload aad sg; Ok (verifier (s_sig sg) tbs).
  Definition Mac_verify_tag (m : mac) (aad : bytes) (verify : bytes -> bytes -> R) : res R :=
    do tbm <- Mac_tbm m aad; Ok (verify (mc_tag m) tbm).
  Definition Mac0_verify_tag (m : mac0) (aad : bytes) (verify : bytes -> bytes -> R) : res R :=
    do tbm <- Mac0_tbm m aad; Ok (verify (m0_tag m) tbm).
  Definition Encrypt_decrypt (m : encrypt) (aad : bytes) (cipher : bytes -> bytes -> R) : res R :=
    match en_ct m with
    | None => Panic
    | Some ct => do a <- enc_structure_data EncCoseEncrypt (en_prot m) aad; Ok (cipher ct a)
    end.
  Definition Encrypt0_decrypt (m : encrypt0) (aad : bytes) (cipher : bytes -> bytes -> R) : res R :=
    match e0_ct m with
    | None => Panic
    | Some ct => do a <- enc_structure_data EncCoseEncrypt0 (e0_prot m) aad; Ok (cipher ct a)
    end.
  Definition Recipient_decrypt (m : recipient) (c : enc_context) (aad : bytes)
             (cipher : bytes -> bytes -> R) : res R :=
    match r_ct m with
    | None => Panic
    | Some ct =>
      if negb (is_recipient_context c) then Panic
      else do a <- enc_structure_data c (r_prot m) aad; Ok (cipher ct a)
    end.
End Closures.
