(* Prelude: bytes, result monad with explicit Panic / OutOfFuel, small helpers.
   Part of the executable model; no proofs here. *)
From Coq Require Export String.
From Coq Require Export List ZArith NArith Bool.
From Coq.Strings Require Export Byte.
Export ListNotations.

Definition bytes := list byte.

Definition b2n (b : byte) : N := Byte.to_N b.
Definition n2b (n : N) : byte :=
  match Byte.of_N (N.modulo n 256) with Some b => b | None => x00 end.

(* coset's CoseError, error payloads dropped *)
Inductive err :=
| EDecode        (* DecodeFailed(_)            *)
| EDup           (* DuplicateMapKey            *)
| EEncode        (* EncodeFailed               *)
| EExtra         (* ExtraneousData             *)
| ERange         (* OutOfRangeIntegerValue     *)
| EUnexpected    (* UnexpectedItem(_, _)       *)
| EUnreg         (* UnregisteredIanaValue      *)
| EUnregNonPriv. (* UnregisteredIanaNonPrivateValue *)

Inductive res (A : Type) :=
| Ok (a : A)
| Err (e : err)
| Panic        (* the Rust code would panic here *)
| OutOfFuel.   (* model artefact; excluded by the fuel-sufficiency lemma *)
Arguments Ok {A}. Arguments Err {A}. Arguments Panic {A}. Arguments OutOfFuel {A}.

Definition bind {A B} (r : res A) (f : A -> res B) : res B :=
  match r with Ok a => f a | Err e => Err e | Panic => Panic | OutOfFuel => OutOfFuel end.
Notation "'do' x <- r ; k" := (bind r (fun x => k))
  (at level 200, x pattern, r at level 100, k at level 200, right associativity).

Definition map_err {A} (r : res A) (e' : err) : res A :=
  match r with Err _ => Err e' | x => x end.

Definition mapM {A B} (f : A -> res B) : list A -> res (list B) :=
  fix go (l : list A) : res (list B) :=
    match l with
    | [] => Ok []
    | a :: r => do b <- f a; do bs <- go r; Ok (b :: bs)
    end.

Definition isnil {A} (l : list A) : bool := match l with [] => true | _ => false end.
Definition issome {A} (o : option A) : bool := match o with Some _ => true | None => false end.

Fixpoint bytes_eqb (a b : bytes) : bool :=
  match a, b with
  | [], [] => true
  | x :: a', y :: b' => Byte.eqb x y && bytes_eqb a' b'
  | _, _ => false
  end.

(* Vec::remove(i) / indexing: panics when out of range *)
Fixpoint nth_res {A} (l : list A) (i : nat) : res A :=
  match l, i with
  | [], _ => Panic
  | x :: _, O => Ok x
  | _ :: r, S i' => nth_res r i'
  end.
