(* CoseKey, CoseKeySet, canonicalize (src/key/mod.rs) *)
From Coset.Model Require Import Prelude Cbor Iana Label Msg.
Open Scope string_scope. Open Scope Z_scope. Open Scope list_scope.

Record cose_key := mkKey {
  k_kty : reg_label;
  k_kid : bytes;
  k_alg : option regp_label;
  k_ops : list reg_label;      (* BTreeSet<KeyOperation>: sorted by Ord, no duplicates *)
  k_base_iv : bytes;
  k_params : list (label * value) }.

Definition KTY_RESERVED : reg_label := RAssigned (enum_const "KeyType" "Reserved").
Definition key_default : cose_key := mkKey KTY_RESERVED [] None [] [] [].

Definition set_kty x k := mkKey x (k_kid k) (k_alg k) (k_ops k) (k_base_iv k) (k_params k).
Definition set_kkid x k := mkKey (k_kty k) x (k_alg k) (k_ops k) (k_base_iv k) (k_params k).
Definition set_kalg x k := mkKey (k_kty k) (k_kid k) x (k_ops k) (k_base_iv k) (k_params k).
Definition set_kops x k := mkKey (k_kty k) (k_kid k) (k_alg k) x (k_base_iv k) (k_params k).
Definition set_kbase_iv x k := mkKey (k_kty k) (k_kid k) (k_alg k) (k_ops k) x (k_params k).
Definition set_kparams x k := mkKey (k_kty k) (k_kid k) (k_alg k) (k_ops k) (k_base_iv k) x.

(* key_ops loop: insert each decoded entry, fail on a repeated one *)
Fixpoint key_ops_loop (a : list value) (s : list reg_label) : res (list reg_label) :=
  match a with
  | [] => Ok s
  | x :: r =>
    do op <- reg_from_value T_KeyOperation x;
    let (ins, s') := reg_set_insert op s in
    if ins then key_ops_loop r s' else Err EUnexpected
  end.

Definition key_step (k : cose_key) (l : label) (x : value) : res cose_key :=
  if is_lint l K_KTY then do t <- reg_from_value T_KeyType x; Ok (set_kty t k)
  else if is_lint l K_KID then do b <- try_as_nonempty_bytes x; Ok (set_kkid b k)
  else if is_lint l K_ALG then do a <- regp_from_value "Algorithm" x; Ok (set_kalg (Some a) k)
  else if is_lint l K_KEY_OPS then
    do a <- try_as_array x;
    do s <- key_ops_loop a (k_ops k);
    if isnil s then Err EUnexpected else Ok (set_kops s k)
  else if is_lint l K_BASE_IV then do b <- try_as_nonempty_bytes x; Ok (set_kbase_iv b k)
  else Ok (set_kparams (k_params k ++ [(l, x)]) k).

Definition CoseKey_from_value (v : value) : res cose_key :=
  do m <- try_as_map v;
  do k <- map_loop key_step m key_default [];
  if reg_eqb (k_kty k) KTY_RESERVED then Err EUnexpected else Ok k.

Definition CoseKey_to_value (k : cose_key) : res value :=
  let m1 := [(VInt K_KTY, reg_to_value (k_kty k))]
         ++ bytes_entry K_KID (k_kid k)
         ++ opt_entry K_ALG (k_alg k) regp_to_value
         ++ (if isnil (k_ops k) then [] else [(VInt K_KEY_OPS, VArray (map reg_to_value (k_ops k)))])
         ++ bytes_entry K_BASE_IV (k_base_iv k) in
  do seen <- seed_seen m1;
  do m <- emit_rest (k_params k) seen m1;
  Ok (VMap m).

Definition CoseKeySet_from_value (v : value) : res (list cose_key) :=
  do a <- try_as_array v; mapM CoseKey_from_value a.
Definition CoseKeySet_to_value (ks : list cose_key) : res value :=
  do vs <- mapM CoseKey_to_value ks; Ok (VArray vs).

Inductive cbor_ordering := Lexicographic | LengthFirstLexicographic.

Definition canonicalize (o : cbor_ordering) (k : cose_key) : cose_key :=
  match o with
  | Lexicographic => set_kparams (sort_by (fun l r => label_cmp (fst l) (fst r)) (k_params k)) k
  | LengthFirstLexicographic => set_kparams (sort_by (fun l r => cmp_canonical (fst l) (fst r)) (k_params k)) k
  end.
