(* Builders: one `step : state -> op -> res state` per builder type.
   A `res` of Panic is the documented panic; `Err e` is the error of a fallible (try-prefixed)
   variant whose closure failed (the message is not produced). Closures are Gallina
   functions carried by the op. *)
From Coset.Model Require Import Prelude Cbor Iana Label Msg Key Cwt Context.
Open Scope string_scope. Open Scope Z_scope. Open Scope list_scope.

Definition fresh_protected (h : header) : protected := mkProtected None h.

(* ---------- HeaderBuilder ---------- *)
Inductive header_op :=
| HO_key_id (b : bytes)
| HO_algorithm (alg : Z)                 (* iana::Algorithm *)
| HO_add_critical (p : Z)                (* iana::HeaderParameter *)
| HO_add_critical_label (l : reg_label)
| HO_content_format (cf : Z)
| HO_content_type (t : bytes)
| HO_iv (b : bytes)
| HO_partial_iv (b : bytes)
| HO_add_counter_signature (s : signature)
| HO_value (l : Z) (v : value)
| HO_text_value (l : bytes) (v : value).

Definition header_builder_step (h : header) (o : header_op) : res header :=
  match o with
  | HO_key_id b => Ok (set_kid b h)
  | HO_algorithm a => Ok (set_alg (Some (PAssigned a)) h)
  | HO_add_critical p => Ok (set_crit (h_crit h ++ [RAssigned p]) h)
  | HO_add_critical_label l => Ok (set_crit (h_crit h ++ [l]) h)
  | HO_content_format cf => Ok (set_ctype (Some (RAssigned cf)) h)
  | HO_content_type t => Ok (set_ctype (Some (RText t)) h)
  | HO_iv b => Ok (set_piv [] (set_iv b h))
  | HO_partial_iv b => Ok (set_iv [] (set_piv b h))
  | HO_add_counter_signature s => Ok (set_csigs (h_csigs h ++ [s]) h)
  | HO_value l v =>
    if (enum_const "HeaderParameter" "Alg" <=? l) && (l <=? enum_const "HeaderParameter" "CounterSignature")
    then Panic else Ok (set_rest (h_rest h ++ [(LInt l, v)]) h)
  | HO_text_value l v => Ok (set_rest (h_rest h ++ [(LText l, v)]) h)
  end.

(* ---------- CoseSignatureBuilder ---------- *)
Inductive signature_op := SO_protected (h : header) | SO_unprotected (h : header) | SO_signature (b : bytes).
Definition signature_builder_step (s : signature) (o : signature_op) : res signature :=
  match o with
  | SO_protected h => Ok (mkSignature (fresh_protected h) (s_unprot s) (s_sig s))
  | SO_unprotected h => Ok (mkSignature (s_prot s) h (s_sig s))
  | SO_signature b => Ok (mkSignature (s_prot s) (s_unprot s) b)
  end.

(* closures: infallible `bytes -> bytes`, fallible `bytes -> err + bytes` modelled as option *)
Definition closure1 := bytes -> option bytes.          (* None = the closure returned Err *)
Definition closure2 := bytes -> bytes -> option bytes.

(* an infallible closure that "fails" cannot exist: the non-try variants are only ever
   given total closures; we model them by requiring Some *)
Definition call1 (f : closure1) (x : bytes) : res bytes :=
  match f x with Some y => Ok y | None => Err EEncode end.
Definition call2 (f : closure2) (x y : bytes) : res bytes :=
  match f x y with Some z => Ok z | None => Err EEncode end.

(* ---------- CoseSign1Builder ---------- *)
Inductive sign1_op :=
| S1_protected (h : header) | S1_unprotected (h : header) | S1_signature (b : bytes) | S1_payload (b : bytes)
| S1_create_signature (aad : bytes) (f : closure1)
| S1_create_detached_signature (payload aad : bytes) (f : closure1)
| S1_try_create_signature (aad : bytes) (f : closure1)
| S1_try_create_detached_signature (payload aad : bytes) (f : closure1).

Definition sign1_builder_step (m : sign1) (o : sign1_op) : res sign1 :=
  match o with
  | S1_protected h => Ok (mkSign1 (fresh_protected h) (s1_unprot m) (s1_payload m) (s1_sig m))
  | S1_unprotected h => Ok (mkSign1 (s1_prot m) h (s1_payload m) (s1_sig m))
  | S1_signature b => Ok (mkSign1 (s1_prot m) (s1_unprot m) (s1_payload m) b)
  | S1_payload b => Ok (mkSign1 (s1_prot m) (s1_unprot m) (Some b) (s1_sig m))
  | S1_create_signature aad f | S1_try_create_signature aad f =>
    do tbs <- Sign1_tbs_data m aad; do sg <- call1 f tbs;
    Ok (mkSign1 (s1_prot m) (s1_unprot m) (s1_payload m) sg)
  | S1_create_detached_signature pl aad f | S1_try_create_detached_signature pl aad f =>
    do tbs <- Sign1_tbs_detached_data m pl aad; do sg <- call1 f tbs;
    Ok (mkSign1 (s1_prot m) (s1_unprot m) (s1_payload m) sg)
  end.

(* ---------- CoseSignBuilder ---------- *)
Inductive sign_op :=
| SN_protected (h : header) | SN_unprotected (h : header) | SN_payload (b : bytes)
| SN_add_signature (s : signature)
| SN_add_created_signature (s : signature) (aad : bytes) (f : closure1)
| SN_add_detached_signature (s : signature) (payload aad : bytes) (f : closure1)
| SN_try_add_created_signature (s : signature) (aad : bytes) (f : closure1)
| SN_try_add_detached_signature (s : signature) (payload aad : bytes) (f : closure1).

Definition sign_builder_step (m : sign) (o : sign_op) : res sign :=
  match o with
  | SN_protected h => Ok (mkSign (fresh_protected h) (sn_unprot m) (sn_payload m) (sn_sigs m))
  | SN_unprotected h => Ok (mkSign (sn_prot m) h (sn_payload m) (sn_sigs m))
  | SN_payload b => Ok (mkSign (sn_prot m) (sn_unprot m) (Some b) (sn_sigs m))
  | SN_add_signature s => Ok (mkSign (sn_prot m) (sn_unprot m) (sn_payload m) (sn_sigs m ++ [s]))
  | SN_add_created_signature s aad f | SN_try_add_created_signature s aad f =>
    do tbs <- Sign_tbs_data m aad s; do sg <- call1 f tbs;
    Ok (mkSign (sn_prot m) (sn_unprot m) (sn_payload m)
               (sn_sigs m ++ [mkSignature (s_prot s) (s_unprot s) sg]))
  | SN_add_detached_signature s pl aad f | SN_try_add_detached_signature s pl aad f =>
    do tbs <- Sign_tbs_detached_data m pl aad s; do sg <- call1 f tbs;
    Ok (mkSign (sn_prot m) (sn_unprot m) (sn_payload m)
               (sn_sigs m ++ [mkSignature (s_prot s) (s_unprot s) sg]))
  end.

(* ---------- CoseMac0Builder / CoseMacBuilder ---------- *)
Inductive mac0_op :=
| M0_protected (h : header) | M0_unprotected (h : header) | M0_tag (b : bytes) | M0_payload (b : bytes)
| M0_create_tag (aad : bytes) (f : closure1) | M0_try_create_tag (aad : bytes) (f : closure1).
Definition mac0_builder_step (m : mac0) (o : mac0_op) : res mac0 :=
  match o with
  | M0_protected h => Ok (mkMac0 (fresh_protected h) (m0_unprot m) (m0_payload m) (m0_tag m))
  | M0_unprotected h => Ok (mkMac0 (m0_prot m) h (m0_payload m) (m0_tag m))
  | M0_tag b => Ok (mkMac0 (m0_prot m) (m0_unprot m) (m0_payload m) b)
  | M0_payload b => Ok (mkMac0 (m0_prot m) (m0_unprot m) (Some b) (m0_tag m))
  | M0_create_tag aad f | M0_try_create_tag aad f =>
    do tbm <- Mac0_tbm m aad; do tg <- call1 f tbm;
    Ok (mkMac0 (m0_prot m) (m0_unprot m) (m0_payload m) tg)
  end.

Inductive mac_op :=
| MC_protected (h : header) | MC_unprotected (h : header) | MC_tag (b : bytes) | MC_payload (b : bytes)
| MC_add_recipient (r : recipient)
| MC_create_tag (aad : bytes) (f : closure1) | MC_try_create_tag (aad : bytes) (f : closure1).
Definition mac_builder_step (m : mac) (o : mac_op) : res mac :=
  match o with
  | MC_protected h => Ok (mkMac (fresh_protected h) (mc_unprot m) (mc_payload m) (mc_tag m) (mc_recipients m))
  | MC_unprotected h => Ok (mkMac (mc_prot m) h (mc_payload m) (mc_tag m) (mc_recipients m))
  | MC_tag b => Ok (mkMac (mc_prot m) (mc_unprot m) (mc_payload m) b (mc_recipients m))
  | MC_payload b => Ok (mkMac (mc_prot m) (mc_unprot m) (Some b) (mc_tag m) (mc_recipients m))
  | MC_add_recipient r => Ok (mkMac (mc_prot m) (mc_unprot m) (mc_payload m) (mc_tag m) (mc_recipients m ++ [r]))
  | MC_create_tag aad f | MC_try_create_tag aad f =>
    do tbm <- Mac_tbm m aad; do tg <- call1 f tbm;
    Ok (mkMac (mc_prot m) (mc_unprot m) (mc_payload m) tg (mc_recipients m))
  end.

(* ---------- CoseRecipientBuilder / CoseEncryptBuilder / CoseEncrypt0Builder ---------- *)
Inductive recipient_op :=
| RO_protected (h : header) | RO_unprotected (h : header) | RO_ciphertext (b : bytes)
| RO_add_recipient (r : recipient)
| RO_create_ciphertext (c : enc_context) (pt aad : bytes) (f : closure2)
| RO_try_create_ciphertext (c : enc_context) (pt aad : bytes) (f : closure2).
Definition recipient_aad (m : recipient) (c : enc_context) (aad : bytes) : res bytes :=
  if negb (is_recipient_context c) then Panic else enc_structure_data c (r_prot m) aad.
Definition recipient_builder_step (m : recipient) (o : recipient_op) : res recipient :=
  match o with
  | RO_protected h => Ok (mkRecipient (fresh_protected h) (r_unprot m) (r_ct m) (r_recipients m))
  | RO_unprotected h => Ok (mkRecipient (r_prot m) h (r_ct m) (r_recipients m))
  | RO_ciphertext b => Ok (mkRecipient (r_prot m) (r_unprot m) (Some b) (r_recipients m))
  | RO_add_recipient r => Ok (mkRecipient (r_prot m) (r_unprot m) (r_ct m) (r_recipients m ++ [r]))
  | RO_create_ciphertext c pt aad f | RO_try_create_ciphertext c pt aad f =>
    do a <- recipient_aad m c aad; do ct <- call2 f pt a;
    Ok (mkRecipient (r_prot m) (r_unprot m) (Some ct) (r_recipients m))
  end.

Inductive encrypt_op :=
| EO_protected (h : header) | EO_unprotected (h : header) | EO_ciphertext (b : bytes)
| EO_add_recipient (r : recipient)
| EO_create_ciphertext (pt aad : bytes) (f : closure2)
| EO_try_create_ciphertext (pt aad : bytes) (f : closure2).
Definition encrypt_builder_step (m : encrypt) (o : encrypt_op) : res encrypt :=
  match o with
  | EO_protected h => Ok (mkEncrypt (fresh_protected h) (en_unprot m) (en_ct m) (en_recipients m))
  | EO_unprotected h => Ok (mkEncrypt (en_prot m) h (en_ct m) (en_recipients m))
  | EO_ciphertext b => Ok (mkEncrypt (en_prot m) (en_unprot m) (Some b) (en_recipients m))
  | EO_add_recipient r => Ok (mkEncrypt (en_prot m) (en_unprot m) (en_ct m) (en_recipients m ++ [r]))
  | EO_create_ciphertext pt aad f | EO_try_create_ciphertext pt aad f =>
    do a <- enc_structure_data EncCoseEncrypt (en_prot m) aad; do ct <- call2 f pt a;
    Ok (mkEncrypt (en_prot m) (en_unprot m) (Some ct) (en_recipients m))
  end.

Inductive encrypt0_op :=
| E0_protected (h : header) | E0_unprotected (h : header) | E0_ciphertext (b : bytes)
| E0_create_ciphertext (pt aad : bytes) (f : closure2)
| E0_try_create_ciphertext (pt aad : bytes) (f : closure2).
Definition encrypt0_builder_step (m : encrypt0) (o : encrypt0_op) : res encrypt0 :=
  match o with
  | E0_protected h => Ok (mkEncrypt0 (fresh_protected h) (e0_unprot m) (e0_ct m))
  | E0_unprotected h => Ok (mkEncrypt0 (e0_prot m) h (e0_ct m))
  | E0_ciphertext b => Ok (mkEncrypt0 (e0_prot m) (e0_unprot m) (Some b))
  | E0_create_ciphertext pt aad f | E0_try_create_ciphertext pt aad f =>
    do a <- enc_structure_data EncCoseEncrypt0 (e0_prot m) aad; do ct <- call2 f pt a;
    Ok (mkEncrypt0 (e0_prot m) (e0_unprot m) (Some ct))
  end.

(* ---------- CoseKeyBuilder ---------- *)
Inductive key_op :=
| KO_new
| KO_new_ec2_pub_key (curve : Z) (x y : bytes)
| KO_new_ec2_pub_key_y_sign (curve : Z) (x : bytes) (y_sign : bool)
| KO_new_ec2_priv_key (curve : Z) (x y d : bytes)
| KO_new_symmetric_key (k : bytes)
| KO_new_okp_key
| KO_kty (t : reg_label)
| KO_key_id (b : bytes)
| KO_base_iv (b : bytes)
| KO_key_type (t : Z)
| KO_algorithm (a : Z)
| KO_add_key_op (o : Z)
| KO_param (l : Z) (v : value).

Definition ec2 (n : string) : label := LInt (enum_const "Ec2KeyParameter" n).
Definition key_of_kty (n : string) : cose_key := set_kty (RAssigned (enum_const "KeyType" n)) key_default.

Definition key_builder_step (k : cose_key) (o : key_op) : res cose_key :=
  match o with
  | KO_new => Ok key_default
  | KO_new_ec2_pub_key c x y =>
    Ok (set_kparams [(ec2 "Crv", VInt c); (ec2 "X", VBytes x); (ec2 "Y", VBytes y)] (key_of_kty "EC2"))
  | KO_new_ec2_pub_key_y_sign c x ys =>
    Ok (set_kparams [(ec2 "Crv", VInt c); (ec2 "X", VBytes x); (ec2 "Y", VBool ys)] (key_of_kty "EC2"))
  | KO_new_ec2_priv_key c x y d =>
    Ok (set_kparams [(ec2 "Crv", VInt c); (ec2 "X", VBytes x); (ec2 "Y", VBytes y); (ec2 "D", VBytes d)]
                    (key_of_kty "EC2"))
  | KO_new_symmetric_key kk =>
    Ok (set_kparams [(LInt (enum_const "SymmetricKeyParameter" "K"), VBytes kk)] (key_of_kty "Symmetric"))
  | KO_new_okp_key => Ok (key_of_kty "OKP")
  | KO_kty t => Ok (set_kty t k)
  | KO_key_id b => Ok (set_kkid b k)
  | KO_base_iv b => Ok (set_kbase_iv b k)
  | KO_key_type t => Ok (set_kty (RAssigned t) k)
  | KO_algorithm a => Ok (set_kalg (Some (PAssigned a)) k)
  | KO_add_key_op o => Ok (set_kops (snd (reg_set_insert (RAssigned o) (k_ops k))) k)
  | KO_param l v =>
    if registered T_KeyParameter l then Panic
    else Ok (set_kparams (k_params k ++ [(LInt l, v)]) k)
  end.

(* ---------- ClaimsSetBuilder ---------- *)
Inductive claims_op :=
| CO_issuer (t : bytes) | CO_subject (t : bytes) | CO_audience (t : bytes)
| CO_expiration_time (t : timestamp) | CO_not_before (t : timestamp) | CO_issued_at (t : timestamp)
| CO_cwt_id (b : bytes)
| CO_claim (name : Z) (v : value)
| CO_text_claim (name : bytes) (v : value)
| CO_private_claim (id : Z) (v : value).

Definition claims_builder_step (c : claims) (o : claims_op) : res claims :=
  let mk i s a e n t ct r := mkClaims i s a e n t ct r in
  match o with
  | CO_issuer t => Ok (mk (Some t) (c_sub c) (c_aud c) (c_exp c) (c_nbf c) (c_iat c) (c_cti c) (c_rest c))
  | CO_subject t => Ok (mk (c_iss c) (Some t) (c_aud c) (c_exp c) (c_nbf c) (c_iat c) (c_cti c) (c_rest c))
  | CO_audience t => Ok (mk (c_iss c) (c_sub c) (Some t) (c_exp c) (c_nbf c) (c_iat c) (c_cti c) (c_rest c))
  | CO_expiration_time t => Ok (mk (c_iss c) (c_sub c) (c_aud c) (Some t) (c_nbf c) (c_iat c) (c_cti c) (c_rest c))
  | CO_not_before t => Ok (mk (c_iss c) (c_sub c) (c_aud c) (c_exp c) (Some t) (c_iat c) (c_cti c) (c_rest c))
  | CO_issued_at t => Ok (mk (c_iss c) (c_sub c) (c_aud c) (c_exp c) (c_nbf c) (Some t) (c_cti c) (c_rest c))
  | CO_cwt_id b => Ok (mk (c_iss c) (c_sub c) (c_aud c) (c_exp c) (c_nbf c) (c_iat c) (Some b) (c_rest c))
  | CO_claim n v =>
    if (enum_const "CwtClaimName" "Iss" <=? n) && (n <=? enum_const "CwtClaimName" "Cti") then Panic
    else Ok (mk (c_iss c) (c_sub c) (c_aud c) (c_exp c) (c_nbf c) (c_iat c) (c_cti c) (c_rest c ++ [(PAssigned n, v)]))
  | CO_text_claim n v =>
    Ok (mk (c_iss c) (c_sub c) (c_aud c) (c_exp c) (c_nbf c) (c_iat c) (c_cti c) (c_rest c ++ [(PText n, v)]))
  | CO_private_claim i v =>
    if negb (is_private "CwtClaimName" i) then Panic
    else Ok (mk (c_iss c) (c_sub c) (c_aud c) (c_exp c) (c_nbf c) (c_iat c) (c_cti c) (c_rest c ++ [(PPrivate i, v)]))
  end.

(* ---------- PartyInfoBuilder / SuppPubInfoBuilder / CoseKdfContextBuilder ---------- *)
Inductive party_op := PO_identity (b : bytes) | PO_nonce (n : nonce) | PO_other (b : bytes).
Definition party_builder_step (p : party_info) (o : party_op) : res party_info :=
  match o with
  | PO_identity b => Ok (mkParty (Some b) (pi_nonce p) (pi_other p))
  | PO_nonce n => Ok (mkParty (pi_identity p) (Some n) (pi_other p))
  | PO_other b => Ok (mkParty (pi_identity p) (pi_nonce p) (Some b))
  end.

Inductive supp_op := UO_key_data_length (n : Z) | UO_protected (h : header) | UO_other (b : bytes).
Definition supp_builder_step (s : supp_pub_info) (o : supp_op) : res supp_pub_info :=
  match o with
  | UO_key_data_length n => Ok (mkSupp n (sp_prot s) (sp_other s))
  | UO_protected h => Ok (mkSupp (sp_len s) (fresh_protected h) (sp_other s))
  | UO_other b => Ok (mkSupp (sp_len s) (sp_prot s) (Some b))
  end.

Inductive kdf_op :=
| DO_party_u_info (p : party_info) | DO_party_v_info (p : party_info) | DO_supp_pub_info (s : supp_pub_info)
| DO_algorithm (a : Z) | DO_add_supp_priv_info (b : bytes).
Definition kdf_builder_step (k : kdf_context) (o : kdf_op) : res kdf_context :=
  match o with
  | DO_party_u_info p => Ok (mkKdf (kc_alg k) p (kc_v k) (kc_pub k) (kc_priv k))
  | DO_party_v_info p => Ok (mkKdf (kc_alg k) (kc_u k) p (kc_pub k) (kc_priv k))
  | DO_supp_pub_info s => Ok (mkKdf (kc_alg k) (kc_u k) (kc_v k) s (kc_priv k))
  | DO_algorithm a => Ok (mkKdf (PAssigned a) (kc_u k) (kc_v k) (kc_pub k) (kc_priv k))
  | DO_add_supp_priv_info b => Ok (mkKdf (kc_alg k) (kc_u k) (kc_v k) (kc_pub k) (kc_priv k ++ [b]))
  end.

(* run a call sequence: stops at the first Panic / failed fallible call *)
Definition run_ops {S O} (step : S -> O -> res S) (ops : list O) (init : S) : res S :=
  fold_left (fun acc o => do s <- acc; step s o) ops (Ok init).
