(* CborSerializable / TaggedCborSerializable default methods (src/common/mod.rs) *)
From Coset.Model Require Import Prelude Cbor Iana Label Msg.
Open Scope string_scope. Open Scope Z_scope. Open Scope list_scope.

Section Api.
  Context {T : Type}.
  Variable from_value : value -> res T.
  Variable to_value : T -> res value.

  Definition from_slice (b : bytes) : res T := do v <- read_to_value b; from_value v.
  Definition to_vec (x : T) : res bytes := do v <- to_value x; Ok (ser v).

  Variable TAG : N.
  Definition from_tagged_slice (b : bytes) : res T :=
    do v <- read_to_value b;
    match v with
    | VTag t inner => if N.eqb t TAG then from_value inner else Err EUnexpected
    | _ => Err EUnexpected
    end.
  Definition to_tagged_vec (x : T) : res bytes := do v <- to_value x; Ok (ser (VTag TAG v)).
End Api.

Definition Label_from_value := label_from_value.
Definition Label_to_value (l : label) : res value := Ok (label_to_value l).
