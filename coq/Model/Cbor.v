(* Byte-level model of ciborium 0.2.2 as used by coset:
     de  : ciborium::de::from_reader::<Value>  on a slice
     ser : ciborium::ser::into_writer(&Value)
   Executable; no proofs in this file. *)
From Coset.Model Require Import Prelude.
Open Scope N_scope.

(* ciborium::value::Value.  Integers are the 65-bit range [-2^64, 2^64);
   floats are IEEE-754 binary64 bit patterns; text is the UTF-8 byte string. *)
Inductive value :=
| VInt (z : Z)
| VBytes (b : bytes)
| VFloat (bits : N)
| VText (t : bytes)
| VBool (b : bool)
| VNull
| VTag (t : N) (v : value)
| VArray (l : list value)
| VMap (m : list (value * value)).

(* ---------- big-endian integers ---------- *)
Fixpoint be (k : nat) (n : N) : bytes :=
  match k with O => [] | S k' => n2b (n / 256 ^ N.of_nat k') :: be k' n end.
Fixpoint unbe (l : bytes) : N :=
  match l with [] => 0 | b :: r => b2n b * 256 ^ N.of_nat (length r) + unbe r end.

(* ---------- item head ---------- *)
Definition head (mt n : N) : bytes :=
  if n <? 24 then [n2b (mt * 32 + n)]
  else if n <? 256 then n2b (mt * 32 + 24) :: be 1 n
  else if n <? 65536 then n2b (mt * 32 + 25) :: be 2 n
  else if n <? 4294967296 then n2b (mt * 32 + 26) :: be 4 n
  else n2b (mt * 32 + 27) :: be 8 n.

(* walk n cells; fail when the input runs out (no length computation) *)
Fixpoint takeN (n : N) (l : bytes) {struct l} : option (bytes * bytes) :=
  if n =? 0 then Some ([], l)
  else match l with
       | [] => None
       | b :: r => match takeN (N.pred n) r with
                   | Some (a, r') => Some (b :: a, r')
                   | None => None
                   end
       end.

(* major type, additional information, argument (None = indefinite), rest *)
Definition dehead (l : bytes) : option (N * N * option N * bytes) :=
  match l with
  | [] => None
  | b :: r =>
    let mt := b2n b / 32 in
    let ai := b2n b mod 32 in
    if ai <? 24 then Some (mt, ai, Some ai, r)
    else if ai =? 24 then match takeN 1 r with Some (a, r') => Some (mt, ai, Some (unbe a), r') | None => None end
    else if ai =? 25 then match takeN 2 r with Some (a, r') => Some (mt, ai, Some (unbe a), r') | None => None end
    else if ai =? 26 then match takeN 4 r with Some (a, r') => Some (mt, ai, Some (unbe a), r') | None => None end
    else if ai =? 27 then match takeN 8 r with Some (a, r') => Some (mt, ai, Some (unbe a), r') | None => None end
    else if ai =? 31 then Some (mt, ai, None, r)
    else None
  end.

(* ---------- floats: bit-level widening and exact narrowing candidates ---------- *)
Definition pow2 (k : N) : N := 2 ^ k.

(* binary16 -> binary64 (half's conversion; NaNs are quieted) *)
Definition widen16 (h : N) : N :=
  let s := h / 32768 in
  let e := (h / 1024) mod 32 in
  let m := h mod 1024 in
  if e =? 31 then
    if m =? 0 then s * pow2 63 + 2047 * pow2 52
    else s * pow2 63 + 2047 * pow2 52 + pow2 51 + (m * pow2 42) mod pow2 51
  else if e =? 0 then
    if m =? 0 then s * pow2 63
    else let k := N.log2 m in    (* m = 2^k + frac, value = m * 2^-24 *)
         s * pow2 63 + (k + 999) * pow2 52 + (m - pow2 k) * pow2 (52 - k)
  else s * pow2 63 + (e + 1008) * pow2 52 + m * pow2 42.

(* binary32 -> binary64 (cvtss2sd; NaNs are quieted) *)
Definition widen32 (f : N) : N :=
  let s := f / pow2 31 in
  let e := (f / pow2 23) mod 256 in
  let m := f mod pow2 23 in
  if e =? 255 then
    if m =? 0 then s * pow2 63 + 2047 * pow2 52
    else s * pow2 63 + 2047 * pow2 52 + pow2 51 + (m * pow2 29) mod pow2 51
  else if e =? 0 then
    if m =? 0 then s * pow2 63
    else let k := N.log2 m in    (* value = m * 2^-149 *)
         s * pow2 63 + (k + 874) * pow2 52 + (m - pow2 k) * pow2 (52 - k)
  else s * pow2 63 + (e + 896) * pow2 52 + m * pow2 29.

(* truncating candidates: equal to the correctly rounded conversion whenever the
   value is exactly representable, which is the only case the encoder keeps *)
Definition cand16 (x : N) : N :=
  let s := x / pow2 63 in
  let e := (x / pow2 52) mod 2048 in
  let m := x mod pow2 52 in
  if e =? 2047 then
    if m =? 0 then s * 32768 + 31744 else s * 32768 + 31744 + 512 + (m / pow2 42) mod 512
  else if e =? 0 then s * 32768
  else if (1009 <=? e) && (e <=? 1038) then s * 32768 + (e - 1008) * 1024 + m / pow2 42
  else if (999 <=? e) && (e <=? 1008) then s * 32768 + (pow2 52 + m) / pow2 (1051 - e)
  else s * 32768.

Definition cand32 (x : N) : N :=
  let s := x / pow2 63 in
  let e := (x / pow2 52) mod 2048 in
  let m := x mod pow2 52 in
  if e =? 2047 then
    if m =? 0 then s * pow2 31 + 255 * pow2 23 else s * pow2 31 + 255 * pow2 23 + pow2 22 + (m / pow2 29) mod pow2 22
  else if e =? 0 then s * pow2 31
  else if (897 <=? e) && (e <=? 1150) then s * pow2 31 + (e - 896) * pow2 23 + m / pow2 29
  else if (874 <=? e) && (e <=? 896) then s * pow2 31 + (pow2 52 + m) / pow2 (926 - e)
  else s * pow2 31.

Definition ser_float (x : N) : bytes :=
  if widen16 (cand16 x) =? x then n2b 249 :: be 2 (cand16 x)
  else if widen32 (cand32 x) =? x then n2b 250 :: be 4 (cand32 x)
  else n2b 251 :: be 8 x.

(* ---------- UTF-8 (core::str::from_utf8) ---------- *)
Definition inr (lo hi : N) (b : byte) : bool := (lo <=? b2n b) && (b2n b <=? hi).
Definition cont (b : byte) : bool := inr 128 191 b.

Fixpoint utf8_valid (l : bytes) : bool :=
  match l with
  | [] => true
  | b0 :: r0 =>
    if b2n b0 <? 128 then utf8_valid r0
    else match r0 with
    | [] => false
    | b1 :: r1 =>
      if inr 194 223 b0 then cont b1 && utf8_valid r1
      else match r1 with
      | [] => false
      | b2 :: r2 =>
        if b2n b0 =? 224 then inr 160 191 b1 && cont b2 && utf8_valid r2
        else if inr 225 236 b0 || inr 238 239 b0 then cont b1 && cont b2 && utf8_valid r2
        else if b2n b0 =? 237 then inr 128 159 b1 && cont b2 && utf8_valid r2
        else match r2 with
        | [] => false
        | b3 :: r3 =>
          if b2n b0 =? 240 then inr 144 191 b1 && cont b2 && cont b3 && utf8_valid r3
          else if inr 241 243 b0 then cont b1 && cont b2 && cont b3 && utf8_valid r3
          else if b2n b0 =? 244 then inr 128 143 b1 && cont b2 && cont b3 && utf8_valid r3
          else false
        end
      end
    end
  end.

(* ---------- serialisation ---------- *)
Fixpoint ser (v : value) : bytes :=
  match v with
  | VInt z => if (0 <=? z)%Z then head 0 (Z.to_N z) else head 1 (Z.to_N (-1 - z))
  | VBytes b => head 2 (N.of_nat (length b)) ++ b
  | VFloat x => ser_float x
  | VText t => head 3 (N.of_nat (length t)) ++ t
  | VBool false => [n2b 244]
  | VBool true => [n2b 245]
  | VNull => [n2b 246]
  | VTag t v => head 6 t ++ ser v
  | VArray l => head 4 (N.of_nat (length l)) ++ flat_map ser l
  | VMap m => head 5 (N.of_nat (length m)) ++ flat_map (fun kv => ser (fst kv) ++ ser (snd kv)) m
  end.

(* ---------- deserialisation ---------- *)
Definition derr {A} : res A := Err EDecode.

(* strip leading zero bytes *)
Fixpoint strip0 (l : bytes) : bytes :=
  match l with
  | b :: r => if b2n b =? 0 then strip0 r else l
  | [] => []
  end.

(* tag 2 / 3 over a definite byte string of at most 16 bytes *)
Definition bignum (neg : bool) (content : bytes) : res value :=
  let raw := unbe content in
  if neg then
    if raw <? pow2 64 then Ok (VInt (-1 - Z.of_N raw))
    else if raw <? pow2 127 then Ok (VTag 3 (VBytes (strip0 content)))
    else derr
  else
    if raw <? pow2 64 then Ok (VInt (Z.of_N raw))
    else Ok (VTag 2 (VBytes (strip0 content))).

(* segments of a byte / text string whose first head has major type [mt]
   (ciborium_ll::Segments): [nested] counts open indefinite heads *)
Fixpoint segs (fuel : nat) (mt : N) (nested : nat) (l : bytes) : res (bytes * bytes) :=
  match fuel with O => OutOfFuel | S f =>
  match dehead l with
  | None => derr
  | Some (mt', ai, arg, r) =>
    if (mt' =? 7) && (ai =? 31) then
      match nested with
      | O => derr
      | S O => Ok ([], r)
      | S n' => segs f mt n' r
      end
    else if mt' =? mt then
      match arg with
      | None => segs f mt (S nested) r
      | Some n =>
        match takeN n r with
        | None => derr
        | Some (s, r') =>
          if (mt =? 3) && negb (utf8_valid s) then derr
          else match nested with
               | O => Ok (s, r')
               | _ => do (rest, r'') <- segs f mt nested r'; Ok (s ++ rest, r'')
               end
        end
      end
    else derr
  end end.

Fixpoint de (fuel : nat) (bud : nat) (l : bytes) {struct fuel} : res (value * bytes) :=
  match fuel with O => OutOfFuel | S f =>
  match dehead l with
  | None => derr
  | Some (mt, ai, arg, r) =>
    if mt =? 0 then match arg with Some n => Ok (VInt (Z.of_N n), r) | None => derr end
    else if mt =? 1 then match arg with Some n => Ok (VInt (-1 - Z.of_N n), r) | None => derr end
    else if mt =? 2 then do (b, r') <- segs f 2 0 l; Ok (VBytes b, r')
    else if mt =? 3 then do (t, r') <- segs f 3 0 l; Ok (VText t, r')
    else if mt =? 4 then
      match bud with O => derr | S bud' =>
        do (vs, r') <- items f bud' arg r; Ok (VArray vs, r') end
    else if mt =? 5 then
      match bud with O => derr | S bud' =>
        do (m, r') <- entries f bud' arg r; Ok (VMap m, r') end
    else if mt =? 6 then
      match arg with
      | None => derr
      | Some t =>
        match dehead r with
        | None => derr
        | Some (mt2, ai2, arg2, r2) =>
          let short := match arg2 with Some n2 => (mt2 =? 2) && (n2 <=? 16) | None => false end in
          if ((t =? 2) || (t =? 3)) && short then
            match arg2 with
            | Some n2 => match takeN n2 r2 with
                         | None => derr
                         | Some (c, r3) => do v <- bignum (t =? 3) c; Ok (v, r3)
                         end
            | None => derr
            end
          else
            match bud with O => derr | S bud' =>
              do (v, r') <- de f bud' r; Ok (VTag t v, r') end
        end
      end
    else (* major type 7 *)
      match arg with
      | None => derr  (* break *)
      | Some n =>
        if ai <? 25 then
          if n =? 20 then Ok (VBool false, r)
          else if n =? 21 then Ok (VBool true, r)
          else if n =? 22 then Ok (VNull, r)
          else if n =? 23 then Ok (VNull, r)
          else derr
        else if ai =? 25 then Ok (VFloat (widen16 n), r)
        else if ai =? 26 then Ok (VFloat (widen32 n), r)
        else Ok (VFloat n, r)
      end
  end end
with items (fuel : nat) (bud : nat) (cnt : option N) (l : bytes) {struct fuel} : res (list value * bytes) :=
  match fuel with O => OutOfFuel | S f =>
  match cnt with
  | Some n =>
    if n =? 0 then Ok ([], l)
    else do (v, r) <- de f bud l; do (vs, r') <- items f bud (Some (N.pred n)) r; Ok (v :: vs, r')
  | None =>
    match l with
    | [] => derr
    | b :: r0 =>
      if b2n b =? 255 then Ok ([], r0)
      else do (v, r) <- de f bud l; do (vs, r') <- items f bud None r; Ok (v :: vs, r')
    end
  end end
with entries (fuel : nat) (bud : nat) (cnt : option N) (l : bytes) {struct fuel} : res (list (value * value) * bytes) :=
  match fuel with O => OutOfFuel | S f =>
  match cnt with
  | Some n =>
    if n =? 0 then Ok ([], l)
    else do (k, r) <- de f bud l; do (v, r1) <- de f bud r;
         do (m, r') <- entries f bud (Some (N.pred n)) r1; Ok ((k, v) :: m, r')
  | None =>
    match l with
    | [] => derr
    | b :: r0 =>
      if b2n b =? 255 then Ok ([], r0)
      else do (k, r) <- de f bud l; do (v, r1) <- de f bud r;
           do (m, r') <- entries f bud None r1; Ok ((k, v) :: m, r')
    end
  end end.

Definition RECURSION_LIMIT : nat := 256.
Definition fuel_of (l : bytes) : nat := S (S (length l + length l)).

(* ciborium::de::from_reader on a slice: value and unread rest *)
Definition from_reader (l : bytes) : res (value * bytes) := de (fuel_of l) RECURSION_LIMIT l.
