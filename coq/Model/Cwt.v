(* Timestamp, ClaimsSet (src/cwt/mod.rs) *)
From Coset.Model Require Import Prelude Cbor Iana Label Msg.
Open Scope string_scope. Open Scope Z_scope. Open Scope list_scope.

Inductive timestamp := WholeSeconds (z : Z) | FractionalSeconds (bits : N).

Definition Timestamp_from_value (v : value) : res timestamp :=
  match v with
  | VInt i => do z <- to_i64_res i; Ok (WholeSeconds z)
  | VFloat f => Ok (FractionalSeconds f)
  | _ => Err EUnexpected
  end.
Definition Timestamp_to_value (t : timestamp) : value :=
  match t with WholeSeconds z => VInt z | FractionalSeconds f => VFloat f end.

Record claims := mkClaims {
  c_iss : option bytes; c_sub : option bytes; c_aud : option bytes;
  c_exp : option timestamp; c_nbf : option timestamp; c_iat : option timestamp;
  c_cti : option bytes;
  c_rest : list (regp_label * value) }.
Definition claims_default := mkClaims None None None None None None None [].

Definition is_claim (n : regp_label) (c : Z) : bool := regp_eqb n (PAssigned c).

Definition claims_step (c : claims) (n : regp_label) (x : value) : res claims :=
  if is_claim n C_ISS then do t <- try_as_string x;
    Ok (mkClaims (Some t) (c_sub c) (c_aud c) (c_exp c) (c_nbf c) (c_iat c) (c_cti c) (c_rest c))
  else if is_claim n C_SUB then do t <- try_as_string x;
    Ok (mkClaims (c_iss c) (Some t) (c_aud c) (c_exp c) (c_nbf c) (c_iat c) (c_cti c) (c_rest c))
  else if is_claim n C_AUD then do t <- try_as_string x;
    Ok (mkClaims (c_iss c) (c_sub c) (Some t) (c_exp c) (c_nbf c) (c_iat c) (c_cti c) (c_rest c))
  else if is_claim n C_EXP then do t <- Timestamp_from_value x;
    Ok (mkClaims (c_iss c) (c_sub c) (c_aud c) (Some t) (c_nbf c) (c_iat c) (c_cti c) (c_rest c))
  else if is_claim n C_NBF then do t <- Timestamp_from_value x;
    Ok (mkClaims (c_iss c) (c_sub c) (c_aud c) (c_exp c) (Some t) (c_iat c) (c_cti c) (c_rest c))
  else if is_claim n C_IAT then do t <- Timestamp_from_value x;
    Ok (mkClaims (c_iss c) (c_sub c) (c_aud c) (c_exp c) (c_nbf c) (Some t) (c_cti c) (c_rest c))
  else if is_claim n C_CTI then do b <- try_as_bytes x;
    Ok (mkClaims (c_iss c) (c_sub c) (c_aud c) (c_exp c) (c_nbf c) (c_iat c) (Some b) (c_rest c))
  else Ok (mkClaims (c_iss c) (c_sub c) (c_aud c) (c_exp c) (c_nbf c) (c_iat c) (c_cti c) (c_rest c ++ [(n, x)])).

Fixpoint claims_loop (m : list (value * value)) (c : claims) (seen : list regp_label) : res claims :=
  match m with
  | [] => Ok c
  | (k, x) :: m' =>
    do n <- regp_from_value "CwtClaimName" k;
    if regp_mem n seen then Err EDup
    else do c' <- claims_step c n x; claims_loop m' c' (n :: seen)
  end.

Definition ClaimsSet_from_value (v : value) : res claims :=
  match v with
  | VMap m => claims_loop m claims_default []
  | _ => Err EUnexpected
  end.

Definition ClaimsSet_to_value (c : claims) : res value :=
  Ok (VMap (opt_entry C_ISS (c_iss c) VText
         ++ opt_entry C_SUB (c_sub c) VText
         ++ opt_entry C_AUD (c_aud c) VText
         ++ opt_entry C_EXP (c_exp c) Timestamp_to_value
         ++ opt_entry C_NBF (c_nbf c) Timestamp_to_value
         ++ opt_entry C_IAT (c_iat c) Timestamp_to_value
         ++ opt_entry C_CTI (c_cti c) VBytes
         ++ map (fun nv => (regp_to_value (fst nv), snd nv)) (c_rest c))).
