(* Case dispatcher: one textual protocol shared with harness/src/main.rs.
   run_case op args = the observation line the implementation is expected to print. *)
From Coset.Model Require Import Prelude Cbor Iana Label Msg Key Cwt Context Api Builders Desc.
From Coset.gen Require Import Generated.
From Coq Require Import HexString.
Open Scope string_scope. Open Scope Z_scope. Open Scope list_scope.

Definition b2s (b : bytes) : string := string_of_list_byte b.

(* ---------- per-type operation tables ---------- *)
Record ty_ops := mkTy {
  carrier : Type;
  fromv : value -> res carrier;
  tov : carrier -> res value;
  dsc : carrier -> value;
  odsc : value -> res carrier;
  tagn : option N }.

Definition ok_value (v : value) : res value := Ok v.
Definition tags (ty : string) : option N := Some (tag_of ty).

Definition reg_ty (reg : string) : ty_ops :=
  mkTy reg_label (reg_from_value (table_of reg)) (fun l => Ok (reg_to_value l)) d_reg o_reg None.
Definition regp_ty (reg : string) : ty_ops :=
  mkTy regp_label (regp_from_value reg) (fun l => Ok (regp_to_value l)) d_regp o_regp None.

Definition prefix_split (p s : string) : option string :=
  if String.prefix p s then Some (String.substring (String.length p) (String.length s - String.length p) s)
  else None.

Definition lookup_ty (ty : string) : option ty_ops :=
  if String.eqb ty "Value" then Some (mkTy value ok_value ok_value (fun v => v) ok_value None)
  else if String.eqb ty "Label" then Some (mkTy label label_from_value Label_to_value d_label o_label None)
  else if String.eqb ty "Header" then Some (mkTy header Header_from_value header_to_value d_header o_header None)
  else if String.eqb ty "ProtectedHeader" then Some (mkTy protected ProtectedHeader_from_value protected_to_value d_protected o_protected None)
  else if String.eqb ty "CoseSignature" then Some (mkTy signature CoseSignature_from_value signature_to_value d_signature o_signature None)
  else if String.eqb ty "CoseSign" then Some (mkTy sign CoseSign_from_value CoseSign_to_value d_sign o_sign (tags ty))
  else if String.eqb ty "CoseSign1" then Some (mkTy sign1 CoseSign1_from_value CoseSign1_to_value d_sign1 o_sign1 (tags ty))
  else if String.eqb ty "CoseMac" then Some (mkTy mac CoseMac_from_value CoseMac_to_value d_mac o_mac (tags ty))
  else if String.eqb ty "CoseMac0" then Some (mkTy mac0 CoseMac0_from_value CoseMac0_to_value d_mac0 o_mac0 (tags ty))
  else if String.eqb ty "CoseRecipient" then Some (mkTy recipient CoseRecipient_from_value CoseRecipient_to_value d_recipient o_recipient None)
  else if String.eqb ty "CoseEncrypt" then Some (mkTy encrypt CoseEncrypt_from_value CoseEncrypt_to_value d_encrypt o_encrypt (tags ty))
  else if String.eqb ty "CoseEncrypt0" then Some (mkTy encrypt0 CoseEncrypt0_from_value CoseEncrypt0_to_value d_encrypt0 o_encrypt0 (tags ty))
  else if String.eqb ty "CoseKey" then Some (mkTy cose_key CoseKey_from_value CoseKey_to_value d_key o_key None)
  else if String.eqb ty "CoseKeySet" then Some (mkTy (list cose_key) CoseKeySet_from_value CoseKeySet_to_value d_keyset (o_list o_key) None)
  else if String.eqb ty "ClaimsSet" then Some (mkTy claims ClaimsSet_from_value ClaimsSet_to_value d_claims o_claims None)
  else if String.eqb ty "PartyInfo" then Some (mkTy party_info PartyInfo_from_value PartyInfo_to_value d_party o_party None)
  else if String.eqb ty "SuppPubInfo" then Some (mkTy supp_pub_info SuppPubInfo_from_value SuppPubInfo_to_value d_supp o_supp None)
  else if String.eqb ty "CoseKdfContext" then Some (mkTy kdf_context CoseKdfContext_from_value CoseKdfContext_to_value d_kdf o_kdf None)
  else match prefix_split "Reg:" ty with
       | Some reg => Some (reg_ty reg)
       | None => match prefix_split "RegP:" ty with
                 | Some reg => Some (regp_ty reg)
                 | None => None
                 end
       end.

Definition badcase : bytes := s2b "badcase".
Definition show_hex (b : bytes) : bytes := hex_of_bytes b.
Definition show_bool (b : bool) : bytes := s2b (if b then "T" else "F").
Definition sp : bytes := s2b " ".

Definition desc_arg (a : bytes) : res value := read_to_value a.

(* description of a decoded value: KDF contexts have private fields, so the harness can only
   observe them through to_vec; do the same here *)
Definition show_decoded (ty : string) (t : ty_ops) (x : carrier t) : bytes :=
  if String.eqb ty "CoseKdfContext" then
    s2b "enc=" ++ match to_vec (tov t) x with Ok b => show_hex b | _ => s2b "?" end
  else show_value (dsc t x).

Definition tagged_from (t : ty_ops) (b : bytes) : res (carrier t) :=
  match tagn t with
  | Some n => from_tagged_slice (fromv t) n b
  | None => Err EEncode
  end.
Definition tagged_to (t : ty_ops) (x : carrier t) : res bytes :=
  match tagn t with
  | Some n => to_tagged_vec (tov t) n x
  | None => Err EEncode
  end.

(* decode; encode; decode; encode *)
Definition roundtrip (ty : string) (t : ty_ops) (dec : bytes -> res (carrier t)) (enc : carrier t -> res bytes)
           (b : bytes) : bytes :=
  match dec b with
  | Ok v =>
    match enc v with
    | Ok b1 =>
      match dec b1 with
      | Ok v2 =>
        match enc v2 with
        | Ok b2 => s2b "ok " ++ show_hex b1 ++ sp
                   ++ show_bool (bytes_eqb (show_decoded ty t v) (show_decoded ty t v2)) ++ sp
                   ++ show_bool (bytes_eqb b1 b2)
        | r => s2b "ok " ++ show_hex b1 ++ s2b " reencode2-failed " ++ show_res show_hex r
        end
      | r => s2b "ok " ++ show_hex b1 ++ s2b " redecode-failed " ++ show_res (fun _ => []) r
      end
    | r => s2b "ok reencode-failed " ++ show_res show_hex r
    end
  | r => s2b "rej " ++ show_res (fun _ => []) r
  end.

(* ---------- contexts ---------- *)
Definition sig_ctx_of (s : string) : option sig_context :=
  if String.eqb s "CoseSignature" then Some SigCoseSignature
  else if String.eqb s "CoseSign1" then Some SigCoseSign1
  else if String.eqb s "CounterSignature" then Some SigCounterSignature else None.
Definition mac_ctx_of (s : string) : option mac_context :=
  if String.eqb s "CoseMac" then Some MacCoseMac
  else if String.eqb s "CoseMac0" then Some MacCoseMac0 else None.
Definition enc_ctx_of (s : string) : option enc_context :=
  if String.eqb s "CoseEncrypt" then Some EncCoseEncrypt
  else if String.eqb s "CoseEncrypt0" then Some EncCoseEncrypt0
  else if String.eqb s "EncRecipient" then Some EncEncRecipient
  else if String.eqb s "MacRecipient" then Some EncMacRecipient
  else if String.eqb s "RecRecipient" then Some EncRecRecipient else None.

Definition show_cmp (c : comparison) : bytes :=
  s2b match c with Lt => "Lt" | Eq => "Eq" | Gt => "Gt" end.

(* ---------- closures used by the cases ---------- *)
(* spec = [mode, k]: mode 0 -> Some (k ++ input), mode 1 -> fails *)
Definition closure1_of (v : value) : res closure1 :=
  match v with
  | VArray [VInt 0; VBytes k] => Ok (fun x => Some (k ++ x))
  | VArray [VInt 1; VBytes _] => Ok (fun _ => None)
  | _ => bad
  end.
Definition len_byte (l : bytes) : byte := n2b (N.of_nat (List.length l)).
Definition closure2_of (v : value) : res closure2 :=
  match v with
  | VArray [VInt 0; VBytes k] => Ok (fun x y => Some (k ++ [len_byte x] ++ x ++ y))
  | VArray [VInt 1; VBytes _] => Ok (fun _ _ => None)
  | _ => bad
  end.
(* verify / decrypt closures record both arguments *)
Definition record2 (a b : bytes) : bytes := show_hex a ++ sp ++ show_hex b.

(* ---------- builder op descriptions ---------- *)
Definition o_enc_ctx (v : value) : res enc_context :=
  match v with VText t => match enc_ctx_of (b2s t) with Some c => Ok c | None => bad end | _ => bad end.

Definition o_header_op (v : value) : res header_op :=
  match v with
  | VArray (VText n :: args) =>
    let n := b2s n in
    match args with
    | [a] =>
      if String.eqb n "key_id" then do b <- o_bytes a; Ok (HO_key_id b)
      else if String.eqb n "algorithm" then do z <- o_int a; Ok (HO_algorithm z)
      else if String.eqb n "add_critical" then do z <- o_int a; Ok (HO_add_critical z)
      else if String.eqb n "add_critical_label" then do l <- o_reg a; Ok (HO_add_critical_label l)
      else if String.eqb n "content_format" then do z <- o_int a; Ok (HO_content_format z)
      else if String.eqb n "content_type" then do t <- o_text a; Ok (HO_content_type t)
      else if String.eqb n "iv" then do b <- o_bytes a; Ok (HO_iv b)
      else if String.eqb n "partial_iv" then do b <- o_bytes a; Ok (HO_partial_iv b)
      else if String.eqb n "add_counter_signature" then do s <- o_signature a; Ok (HO_add_counter_signature s)
      else bad
    | [a; x] =>
      if String.eqb n "value" then do z <- o_int a; Ok (HO_value z x)
      else if String.eqb n "text_value" then do t <- o_text a; Ok (HO_text_value t x)
      else bad
    | _ => bad
    end
  | _ => bad
  end.

Definition o_signature_op (v : value) : res signature_op :=
  match v with
  | VArray [VText n; a] =>
    let n := b2s n in
    if String.eqb n "protected" then do h <- o_header a; Ok (SO_protected h)
    else if String.eqb n "unprotected" then do h <- o_header a; Ok (SO_unprotected h)
    else if String.eqb n "signature" then do b <- o_bytes a; Ok (SO_signature b)
    else bad
  | _ => bad
  end.

Definition o_sign1_op (v : value) : res sign1_op :=
  match v with
  | VArray (VText n :: args) =>
    let n := b2s n in
    match args with
    | [a] =>
      if String.eqb n "protected" then do h <- o_header a; Ok (S1_protected h)
      else if String.eqb n "unprotected" then do h <- o_header a; Ok (S1_unprotected h)
      else if String.eqb n "signature" then do b <- o_bytes a; Ok (S1_signature b)
      else if String.eqb n "payload" then do b <- o_bytes a; Ok (S1_payload b)
      else bad
    | [a; f] =>
      if String.eqb n "create_signature" then do aad <- o_bytes a; do c <- closure1_of f; Ok (S1_create_signature aad c)
      else if String.eqb n "try_create_signature" then do aad <- o_bytes a; do c <- closure1_of f; Ok (S1_try_create_signature aad c)
      else bad
    | [p; a; f] =>
      if String.eqb n "create_detached_signature" then do pl <- o_bytes p; do aad <- o_bytes a; do c <- closure1_of f; Ok (S1_create_detached_signature pl aad c)
      else if String.eqb n "try_create_detached_signature" then do pl <- o_bytes p; do aad <- o_bytes a; do c <- closure1_of f; Ok (S1_try_create_detached_signature pl aad c)
      else bad
    | _ => bad
    end
  | _ => bad
  end.

Definition o_sign_op (v : value) : res sign_op :=
  match v with
  | VArray (VText n :: args) =>
    let n := b2s n in
    match args with
    | [a] =>
      if String.eqb n "protected" then do h <- o_header a; Ok (SN_protected h)
      else if String.eqb n "unprotected" then do h <- o_header a; Ok (SN_unprotected h)
      else if String.eqb n "payload" then do b <- o_bytes a; Ok (SN_payload b)
      else if String.eqb n "add_signature" then do s <- o_signature a; Ok (SN_add_signature s)
      else bad
    | [s; a; f] =>
      if String.eqb n "add_created_signature" then do s' <- o_signature s; do aad <- o_bytes a; do c <- closure1_of f; Ok (SN_add_created_signature s' aad c)
      else if String.eqb n "try_add_created_signature" then do s' <- o_signature s; do aad <- o_bytes a; do c <- closure1_of f; Ok (SN_try_add_created_signature s' aad c)
      else bad
    | [s; p; a; f] =>
      if String.eqb n "add_detached_signature" then do s' <- o_signature s; do pl <- o_bytes p; do aad <- o_bytes a; do c <- closure1_of f; Ok (SN_add_detached_signature s' pl aad c)
      else if String.eqb n "try_add_detached_signature" then do s' <- o_signature s; do pl <- o_bytes p; do aad <- o_bytes a; do c <- closure1_of f; Ok (SN_try_add_detached_signature s' pl aad c)
      else bad
    | _ => bad
    end
  | _ => bad
  end.

Definition o_mac0_op (v : value) : res mac0_op :=
  match v with
  | VArray (VText n :: args) =>
    let n := b2s n in
    match args with
    | [a] =>
      if String.eqb n "protected" then do h <- o_header a; Ok (M0_protected h)
      else if String.eqb n "unprotected" then do h <- o_header a; Ok (M0_unprotected h)
      else if String.eqb n "tag" then do b <- o_bytes a; Ok (M0_tag b)
      else if String.eqb n "payload" then do b <- o_bytes a; Ok (M0_payload b)
      else bad
    | [a; f] =>
      if String.eqb n "create_tag" then do aad <- o_bytes a; do c <- closure1_of f; Ok (M0_create_tag aad c)
      else if String.eqb n "try_create_tag" then do aad <- o_bytes a; do c <- closure1_of f; Ok (M0_try_create_tag aad c)
      else bad
    | _ => bad
    end
  | _ => bad
  end.

Definition o_mac_op (v : value) : res mac_op :=
  match v with
  | VArray (VText n :: args) =>
    let n := b2s n in
    match args with
    | [a] =>
      if String.eqb n "protected" then do h <- o_header a; Ok (MC_protected h)
      else if String.eqb n "unprotected" then do h <- o_header a; Ok (MC_unprotected h)
      else if String.eqb n "tag" then do b <- o_bytes a; Ok (MC_tag b)
      else if String.eqb n "payload" then do b <- o_bytes a; Ok (MC_payload b)
      else if String.eqb n "add_recipient" then do r <- o_recipient a; Ok (MC_add_recipient r)
      else bad
    | [a; f] =>
      if String.eqb n "create_tag" then do aad <- o_bytes a; do c <- closure1_of f; Ok (MC_create_tag aad c)
      else if String.eqb n "try_create_tag" then do aad <- o_bytes a; do c <- closure1_of f; Ok (MC_try_create_tag aad c)
      else bad
    | _ => bad
    end
  | _ => bad
  end.

Definition o_recipient_op (v : value) : res recipient_op :=
  match v with
  | VArray (VText n :: args) =>
    let n := b2s n in
    match args with
    | [a] =>
      if String.eqb n "protected" then do h <- o_header a; Ok (RO_protected h)
      else if String.eqb n "unprotected" then do h <- o_header a; Ok (RO_unprotected h)
      else if String.eqb n "ciphertext" then do b <- o_bytes a; Ok (RO_ciphertext b)
      else if String.eqb n "add_recipient" then do r <- o_recipient a; Ok (RO_add_recipient r)
      else bad
    | [c; p; a; f] =>
      if String.eqb n "create_ciphertext" then do c' <- o_enc_ctx c; do pt <- o_bytes p; do aad <- o_bytes a; do g <- closure2_of f; Ok (RO_create_ciphertext c' pt aad g)
      else if String.eqb n "try_create_ciphertext" then do c' <- o_enc_ctx c; do pt <- o_bytes p; do aad <- o_bytes a; do g <- closure2_of f; Ok (RO_try_create_ciphertext c' pt aad g)
      else bad
    | _ => bad
    end
  | _ => bad
  end.

Definition o_encrypt_op (v : value) : res encrypt_op :=
  match v with
  | VArray (VText n :: args) =>
    let n := b2s n in
    match args with
    | [a] =>
      if String.eqb n "protected" then do h <- o_header a; Ok (EO_protected h)
      else if String.eqb n "unprotected" then do h <- o_header a; Ok (EO_unprotected h)
      else if String.eqb n "ciphertext" then do b <- o_bytes a; Ok (EO_ciphertext b)
      else if String.eqb n "add_recipient" then do r <- o_recipient a; Ok (EO_add_recipient r)
      else bad
    | [p; a; f] =>
      if String.eqb n "create_ciphertext" then do pt <- o_bytes p; do aad <- o_bytes a; do g <- closure2_of f; Ok (EO_create_ciphertext pt aad g)
      else if String.eqb n "try_create_ciphertext" then do pt <- o_bytes p; do aad <- o_bytes a; do g <- closure2_of f; Ok (EO_try_create_ciphertext pt aad g)
      else bad
    | _ => bad
    end
  | _ => bad
  end.

Definition o_encrypt0_op (v : value) : res encrypt0_op :=
  match v with
  | VArray (VText n :: args) =>
    let n := b2s n in
    match args with
    | [a] =>
      if String.eqb n "protected" then do h <- o_header a; Ok (E0_protected h)
      else if String.eqb n "unprotected" then do h <- o_header a; Ok (E0_unprotected h)
      else if String.eqb n "ciphertext" then do b <- o_bytes a; Ok (E0_ciphertext b)
      else bad
    | [p; a; f] =>
      if String.eqb n "create_ciphertext" then do pt <- o_bytes p; do aad <- o_bytes a; do g <- closure2_of f; Ok (E0_create_ciphertext pt aad g)
      else if String.eqb n "try_create_ciphertext" then do pt <- o_bytes p; do aad <- o_bytes a; do g <- closure2_of f; Ok (E0_try_create_ciphertext pt aad g)
      else bad
    | _ => bad
    end
  | _ => bad
  end.

Definition o_bool (v : value) : res bool := match v with VBool b => Ok b | _ => bad end.

Definition o_key_op (v : value) : res key_op :=
  match v with
  | VArray (VText n :: args) =>
    let n := b2s n in
    match args with
    | [] =>
      if String.eqb n "new" then Ok KO_new
      else if String.eqb n "new_okp_key" then Ok KO_new_okp_key
      else bad
    | [a] =>
      if String.eqb n "new_symmetric_key" then do b <- o_bytes a; Ok (KO_new_symmetric_key b)
      else if String.eqb n "kty" then do t <- o_reg a; Ok (KO_kty t)
      else if String.eqb n "key_id" then do b <- o_bytes a; Ok (KO_key_id b)
      else if String.eqb n "base_iv" then do b <- o_bytes a; Ok (KO_base_iv b)
      else if String.eqb n "key_type" then do z <- o_int a; Ok (KO_key_type z)
      else if String.eqb n "algorithm" then do z <- o_int a; Ok (KO_algorithm z)
      else if String.eqb n "add_key_op" then do z <- o_int a; Ok (KO_add_key_op z)
      else bad
    | [a; b] =>
      if String.eqb n "param" then do z <- o_int a; Ok (KO_param z b)
      else bad
    | [c; x; y] =>
      if String.eqb n "new_ec2_pub_key" then do c' <- o_int c; do x' <- o_bytes x; do y' <- o_bytes y; Ok (KO_new_ec2_pub_key c' x' y')
      else if String.eqb n "new_ec2_pub_key_y_sign" then do c' <- o_int c; do x' <- o_bytes x; do y' <- o_bool y; Ok (KO_new_ec2_pub_key_y_sign c' x' y')
      else bad
    | [c; x; y; d] =>
      if String.eqb n "new_ec2_priv_key" then do c' <- o_int c; do x' <- o_bytes x; do y' <- o_bytes y; do d' <- o_bytes d; Ok (KO_new_ec2_priv_key c' x' y' d')
      else bad
    | _ => bad
    end
  | _ => bad
  end.

Definition o_claims_op (v : value) : res claims_op :=
  match v with
  | VArray (VText n :: args) =>
    let n := b2s n in
    match args with
    | [a] =>
      if String.eqb n "issuer" then do t <- o_text a; Ok (CO_issuer t)
      else if String.eqb n "subject" then do t <- o_text a; Ok (CO_subject t)
      else if String.eqb n "audience" then do t <- o_text a; Ok (CO_audience t)
      else if String.eqb n "expiration_time" then do t <- o_timestamp a; Ok (CO_expiration_time t)
      else if String.eqb n "not_before" then do t <- o_timestamp a; Ok (CO_not_before t)
      else if String.eqb n "issued_at" then do t <- o_timestamp a; Ok (CO_issued_at t)
      else if String.eqb n "cwt_id" then do b <- o_bytes a; Ok (CO_cwt_id b)
      else bad
    | [a; x] =>
      if String.eqb n "claim" then do z <- o_int a; Ok (CO_claim z x)
      else if String.eqb n "text_claim" then do t <- o_text a; Ok (CO_text_claim t x)
      else if String.eqb n "private_claim" then do z <- o_int a; Ok (CO_private_claim z x)
      else bad
    | _ => bad
    end
  | _ => bad
  end.

Definition o_party_op (v : value) : res party_op :=
  match v with
  | VArray [VText n; a] =>
    let n := b2s n in
    if String.eqb n "identity" then do b <- o_bytes a; Ok (PO_identity b)
    else if String.eqb n "nonce" then do x <- o_nonce a; Ok (PO_nonce x)
    else if String.eqb n "other" then do b <- o_bytes a; Ok (PO_other b)
    else bad
  | _ => bad
  end.
Definition o_supp_op (v : value) : res supp_op :=
  match v with
  | VArray [VText n; a] =>
    let n := b2s n in
    if String.eqb n "key_data_length" then do z <- o_int a; Ok (UO_key_data_length z)
    else if String.eqb n "protected" then do h <- o_header a; Ok (UO_protected h)
    else if String.eqb n "other" then do b <- o_bytes a; Ok (UO_other b)
    else bad
  | _ => bad
  end.
Definition o_kdf_op (v : value) : res kdf_op :=
  match v with
  | VArray [VText n; a] =>
    let n := b2s n in
    if String.eqb n "party_u_info" then do p <- o_party a; Ok (DO_party_u_info p)
    else if String.eqb n "party_v_info" then do p <- o_party a; Ok (DO_party_v_info p)
    else if String.eqb n "supp_pub_info" then do s <- o_supp a; Ok (DO_supp_pub_info s)
    else if String.eqb n "algorithm" then do z <- o_int a; Ok (DO_algorithm z)
    else if String.eqb n "add_supp_priv_info" then do b <- o_bytes a; Ok (DO_add_supp_priv_info b)
    else bad
  | _ => bad
  end.

(* build: `ok <desc>` | `panic` | `fail` (a fallible call returned its closure's error) *)
Definition show_build {S} (d : S -> bytes) (r : res S) : bytes :=
  match r with
  | Ok s => s2b "ok " ++ d s
  | Err EEncode => s2b "fail"
  | Err e => show_err e
  | Panic => s2b "panic"
  | OutOfFuel => s2b "outoffuel"
  end.

Definition run_build {S O} (oop : value -> res O) (step : S -> O -> res S) (init : S) (opsv : value) : res S :=
  match o_list oop opsv with
  | Ok ops => run_ops step ops init
  | _ => Err EUnexpected
  end.

Definition sv {A} (d : A -> value) (x : A) : bytes := show_value (d x).

(* `to_vec` (tagged = false) or `to_tagged_vec`, then the matching decoder *)
Definition wire {A} (t : ty_ops) (cast : A -> carrier t) (tagged : bool) (x : A) : res (bytes * carrier t) :=
  do b <- (if tagged then tagged_to t (cast x) else to_vec (tov t) (cast x));
  do y <- (if tagged then tagged_from t b else from_slice (fromv t) b);
  Ok (b, y).

Definition build_case (bt : string) (opsv : value) : bytes :=
  if String.eqb bt "Header" then show_build (sv d_header) (run_build o_header_op header_builder_step header_default opsv)
  else if String.eqb bt "CoseSignature" then show_build (sv d_signature) (run_build o_signature_op signature_builder_step signature_default opsv)
  else if String.eqb bt "CoseSign1" then show_build (sv d_sign1) (run_build o_sign1_op sign1_builder_step (mkSign1 protected_default header_default None []) opsv)
  else if String.eqb bt "CoseSign" then show_build (sv d_sign) (run_build o_sign_op sign_builder_step (mkSign protected_default header_default None []) opsv)
  else if String.eqb bt "CoseMac0" then show_build (sv d_mac0) (run_build o_mac0_op mac0_builder_step (mkMac0 protected_default header_default None []) opsv)
  else if String.eqb bt "CoseMac" then show_build (sv d_mac) (run_build o_mac_op mac_builder_step (mkMac protected_default header_default None [] []) opsv)
  else if String.eqb bt "CoseRecipient" then show_build (sv d_recipient) (run_build o_recipient_op recipient_builder_step (mkRecipient protected_default header_default None []) opsv)
  else if String.eqb bt "CoseEncrypt" then show_build (sv d_encrypt) (run_build o_encrypt_op encrypt_builder_step (mkEncrypt protected_default header_default None []) opsv)
  else if String.eqb bt "CoseEncrypt0" then show_build (sv d_encrypt0) (run_build o_encrypt0_op encrypt0_builder_step (mkEncrypt0 protected_default header_default None) opsv)
  else if String.eqb bt "CoseKey" then show_build (sv d_key) (run_build o_key_op key_builder_step key_default opsv)
  else if String.eqb bt "ClaimsSet" then show_build (sv d_claims) (run_build o_claims_op claims_builder_step claims_default opsv)
  else if String.eqb bt "PartyInfo" then show_build (sv d_party) (run_build o_party_op party_builder_step party_default opsv)
  else if String.eqb bt "SuppPubInfo" then show_build (sv d_supp) (run_build o_supp_op supp_builder_step supp_default opsv)
  else if String.eqb bt "CoseKdfContext" then
    show_build (fun k => s2b "enc=" ++ match to_vec CoseKdfContext_to_value k with Ok b => show_hex b | _ => s2b "?" end)
               (run_build o_kdf_op kdf_builder_step kdf_default opsv)
  else badcase.

(* ---------- helper calls on a message (decoded from hex or given as desc) ---------- *)
Definition nat_of_arg (b : bytes) : nat := match b with [x] => N.to_nat (b2n x) | _ => 0%nat end.

Definition show_rec (r : res bytes) : bytes := show_res (fun x => x) r.

Definition helper_case (fn : string) (msg : res value) (src_hex : bool) (raw : bytes) (args : list bytes) : bytes :=
  let get {T} (ty : string) (from : value -> res T) (od : value -> res T) : res T :=
      if src_hex then (do v <- read_to_value raw; from v) else (do d <- msg; od d) in
  if String.eqb fn "sign1.tbs_data" then
    match get "CoseSign1" CoseSign1_from_value o_sign1, args with
    | Ok m, [aad] => show_res show_hex (Sign1_tbs_data m aad)
    | Ok _, _ => badcase | r, _ => s2b "nomsg " ++ show_res (fun _ => []) r end
  else if String.eqb fn "sign1.tbs_detached_data" then
    match get "CoseSign1" CoseSign1_from_value o_sign1, args with
    | Ok m, [pl; aad] => show_res show_hex (Sign1_tbs_detached_data m pl aad)
    | Ok _, _ => badcase | r, _ => s2b "nomsg " ++ show_res (fun _ => []) r end
  else if String.eqb fn "sign1.verify_signature" then
    match get "CoseSign1" CoseSign1_from_value o_sign1, args with
    | Ok m, [aad] => show_rec (Sign1_verify_signature m aad record2)
    | Ok _, _ => badcase | r, _ => s2b "nomsg " ++ show_res (fun _ => []) r end
  else if String.eqb fn "sign1.verify_detached_signature" then
    match get "CoseSign1" CoseSign1_from_value o_sign1, args with
    | Ok m, [pl; aad] => show_rec (Sign1_verify_detached_signature m pl aad record2)
    | Ok _, _ => badcase | r, _ => s2b "nomsg " ++ show_res (fun _ => []) r end
  else if String.eqb fn "sign.tbs_data" then
    match get "CoseSign" CoseSign_from_value o_sign, args with
    | Ok m, [aad; w] => show_res show_hex (do sg <- nth_res (sn_sigs m) (nat_of_arg w); Sign_tbs_data m aad sg)
    | Ok _, _ => badcase | r, _ => s2b "nomsg " ++ show_res (fun _ => []) r end
  else if String.eqb fn "sign.tbs_detached_data" then
    match get "CoseSign" CoseSign_from_value o_sign, args with
    | Ok m, [pl; aad; w] => show_res show_hex (do sg <- nth_res (sn_sigs m) (nat_of_arg w); Sign_tbs_detached_data m pl aad sg)
    | Ok _, _ => badcase | r, _ => s2b "nomsg " ++ show_res (fun _ => []) r end
  else if String.eqb fn "sign.verify_signature" then
    match get "CoseSign" CoseSign_from_value o_sign, args with
    | Ok m, [w; aad] => show_rec (Sign_verify_signature m (nat_of_arg w) aad record2)
    | Ok _, _ => badcase | r, _ => s2b "nomsg " ++ show_res (fun _ => []) r end
  else if String.eqb fn "sign.verify_detached_signature" then
    match get "CoseSign" CoseSign_from_value o_sign, args with
    | Ok m, [w; pl; aad] => show_rec (Sign_verify_detached_signature m (nat_of_arg w) pl aad record2)
    | Ok _, _ => badcase | r, _ => s2b "nomsg " ++ show_res (fun _ => []) r end
  else if String.eqb fn "mac.verify_tag" then
    match get "CoseMac" CoseMac_from_value o_mac, args with
    | Ok m, [aad] => show_rec (Mac_verify_tag m aad record2)
    | Ok _, _ => badcase | r, _ => s2b "nomsg " ++ show_res (fun _ => []) r end
  else if String.eqb fn "mac0.verify_tag" then
    match get "CoseMac0" CoseMac0_from_value o_mac0, args with
    | Ok m, [aad] => show_rec (Mac0_verify_tag m aad record2)
    | Ok _, _ => badcase | r, _ => s2b "nomsg " ++ show_res (fun _ => []) r end
  else if String.eqb fn "encrypt.decrypt" then
    match get "CoseEncrypt" CoseEncrypt_from_value o_encrypt, args with
    | Ok m, [aad] => show_rec (Encrypt_decrypt m aad record2)
    | Ok _, _ => badcase | r, _ => s2b "nomsg " ++ show_res (fun _ => []) r end
  else if String.eqb fn "encrypt0.decrypt" then
    match get "CoseEncrypt0" CoseEncrypt0_from_value o_encrypt0, args with
    | Ok m, [aad] => show_rec (Encrypt0_decrypt m aad record2)
    | Ok _, _ => badcase | r, _ => s2b "nomsg " ++ show_res (fun _ => []) r end
  else if String.eqb fn "recipient.decrypt" then
    match get "CoseRecipient" CoseRecipient_from_value o_recipient, args with
    | Ok m, [c; aad] =>
      match enc_ctx_of (b2s c) with
      | Some c' => show_rec (Recipient_decrypt m c' aad record2)
      | None => badcase
      end
    | Ok _, _ => badcase | r, _ => s2b "nomsg " ++ show_res (fun _ => []) r end
  else badcase.

(* build with the builder, put on the wire, read back, hand to the verify / decrypt helper *)
Definition buildrt_case (bt : string) (opsv : value) (tagged : bool) (args : list bytes) : bytes :=
  let fin {T} (t : ty_ops) (cast : T -> carrier t) (d : carrier t -> value) (r : res T)
          (k : carrier t -> bytes) : bytes :=
      match r with
      | Ok m =>
        match wire t cast tagged m with
        | Ok (b, y) => s2b "ok " ++ show_hex b ++ sp ++ k y
        | e => s2b "wire " ++ show_res (fun _ => []) e
        end
      | e => show_build (fun _ => []) e
      end in
  match lookup_ty bt with
  | None => badcase
  | Some _ =>
    if String.eqb bt "CoseSign1" then
      let r := run_build o_sign1_op sign1_builder_step (mkSign1 protected_default header_default None []) opsv in
      match r with
      | Ok m =>
        match (do b <- (if tagged then to_tagged_vec CoseSign1_to_value (tag_of "CoseSign1") m else to_vec CoseSign1_to_value m);
               do y <- (if tagged then from_tagged_slice CoseSign1_from_value (tag_of "CoseSign1") b else from_slice CoseSign1_from_value b);
               Ok (b, y)) with
        | Ok (b, y) =>
          s2b "ok " ++ show_hex b ++ sp ++
          match args with
          | [aad] => show_rec (Sign1_verify_signature y aad record2)
          | [pl; aad] => show_rec (Sign1_verify_detached_signature y pl aad record2)
          | _ => badcase
          end
        | e => s2b "wire " ++ show_res (fun _ => []) e
        end
      | e => show_build (fun _ => []) e
      end
    else if String.eqb bt "CoseSign" then
      let r := run_build o_sign_op sign_builder_step (mkSign protected_default header_default None []) opsv in
      match r with
      | Ok m =>
        match (do b <- (if tagged then to_tagged_vec CoseSign_to_value (tag_of "CoseSign") m else to_vec CoseSign_to_value m);
               do y <- (if tagged then from_tagged_slice CoseSign_from_value (tag_of "CoseSign") b else from_slice CoseSign_from_value b);
               Ok (b, y)) with
        | Ok (b, y) =>
          s2b "ok " ++ show_hex b ++ sp ++
          match args with
          | [w; aad] => show_rec (Sign_verify_signature y (nat_of_arg w) aad record2)
          | [w; pl; aad] => show_rec (Sign_verify_detached_signature y (nat_of_arg w) pl aad record2)
          | _ => badcase
          end
        | e => s2b "wire " ++ show_res (fun _ => []) e
        end
      | e => show_build (fun _ => []) e
      end
    else if String.eqb bt "CoseMac0" then
      let r := run_build o_mac0_op mac0_builder_step (mkMac0 protected_default header_default None []) opsv in
      match r with
      | Ok m =>
        match (do b <- (if tagged then to_tagged_vec CoseMac0_to_value (tag_of "CoseMac0") m else to_vec CoseMac0_to_value m);
               do y <- (if tagged then from_tagged_slice CoseMac0_from_value (tag_of "CoseMac0") b else from_slice CoseMac0_from_value b);
               Ok (b, y)) with
        | Ok (b, y) =>
          s2b "ok " ++ show_hex b ++ sp ++
          match args with
          | [aad] => show_rec (Mac0_verify_tag y aad record2)
          | _ => badcase
          end
        | e => s2b "wire " ++ show_res (fun _ => []) e
        end
      | e => show_build (fun _ => []) e
      end
    else if String.eqb bt "CoseMac" then
      let r := run_build o_mac_op mac_builder_step (mkMac protected_default header_default None [] []) opsv in
      match r with
      | Ok m =>
        match (do b <- (if tagged then to_tagged_vec CoseMac_to_value (tag_of "CoseMac") m else to_vec CoseMac_to_value m);
               do y <- (if tagged then from_tagged_slice CoseMac_from_value (tag_of "CoseMac") b else from_slice CoseMac_from_value b);
               Ok (b, y)) with
        | Ok (b, y) =>
          s2b "ok " ++ show_hex b ++ sp ++
          match args with
          | [aad] => show_rec (Mac_verify_tag y aad record2)
          | _ => badcase
          end
        | e => s2b "wire " ++ show_res (fun _ => []) e
        end
      | e => show_build (fun _ => []) e
      end
    else if String.eqb bt "CoseEncrypt" then
      let r := run_build o_encrypt_op encrypt_builder_step (mkEncrypt protected_default header_default None []) opsv in
      match r with
      | Ok m =>
        match (do b <- (if tagged then to_tagged_vec CoseEncrypt_to_value (tag_of "CoseEncrypt") m else to_vec CoseEncrypt_to_value m);
               do y <- (if tagged then from_tagged_slice CoseEncrypt_from_value (tag_of "CoseEncrypt") b else from_slice CoseEncrypt_from_value b);
               Ok (b, y)) with
        | Ok (b, y) =>
          s2b "ok " ++ show_hex b ++ sp ++
          match args with
          | [aad] => show_rec (Encrypt_decrypt y aad record2)
          | _ => badcase
          end
        | e => s2b "wire " ++ show_res (fun _ => []) e
        end
      | e => show_build (fun _ => []) e
      end
    else if String.eqb bt "CoseEncrypt0" then
      let r := run_build o_encrypt0_op encrypt0_builder_step (mkEncrypt0 protected_default header_default None) opsv in
      match r with
      | Ok m =>
        match (do b <- (if tagged then to_tagged_vec CoseEncrypt0_to_value (tag_of "CoseEncrypt0") m else to_vec CoseEncrypt0_to_value m);
               do y <- (if tagged then from_tagged_slice CoseEncrypt0_from_value (tag_of "CoseEncrypt0") b else from_slice CoseEncrypt0_from_value b);
               Ok (b, y)) with
        | Ok (b, y) =>
          s2b "ok " ++ show_hex b ++ sp ++
          match args with
          | [aad] => show_rec (Encrypt0_decrypt y aad record2)
          | _ => badcase
          end
        | e => s2b "wire " ++ show_res (fun _ => []) e
        end
      | e => show_build (fun _ => []) e
      end
    else if String.eqb bt "CoseRecipient" then
      let r := run_build o_recipient_op recipient_builder_step (mkRecipient protected_default header_default None []) opsv in
      match r with
      | Ok m =>
        match (do b <- to_vec CoseRecipient_to_value m;
               do y <- from_slice CoseRecipient_from_value b;
               Ok (b, y)) with
        | Ok (b, y) =>
          s2b "ok " ++ show_hex b ++ sp ++
          match args with
          | [c; aad] => match enc_ctx_of (b2s c) with
                        | Some c' => show_rec (Recipient_decrypt y c' aad record2)
                        | None => badcase
                        end
          | _ => badcase
          end
        | e => s2b "wire " ++ show_res (fun _ => []) e
        end
      | e => show_build (fun _ => []) e
      end
    else badcase
  end.

Definition cmp_case (kind : string) (a b : value) : bytes :=
  if String.eqb kind "label" then
    match o_label a, o_label b with
    | Ok x, Ok y => s2b "ok " ++ show_cmp (label_cmp x y) ++ sp ++ show_bool (label_eqb x y)
    | _, _ => badcase end
  else if String.eqb kind "canonical" then
    match o_label a, o_label b with
    | Ok x, Ok y => s2b "ok " ++ show_cmp (cmp_canonical x y) ++ sp ++ show_bool (label_eqb x y)
    | _, _ => badcase end
  else if String.prefix "reg:" kind then
    match o_reg a, o_reg b with
    | Ok x, Ok y => s2b "ok " ++ show_cmp (reg_cmp x y) ++ sp ++ show_bool (reg_eqb x y)
    | _, _ => badcase end
  else if String.prefix "regp:" kind then
    match o_regp a, o_regp b with
    | Ok x, Ok y => s2b "ok " ++ show_cmp (regp_cmp x y) ++ sp ++ show_bool (regp_eqb x y)
    | _, _ => badcase end
  else badcase.

Definition iana_case (reg : string) (i : Z) : bytes :=
  let t := table_of reg in
  s2b "ok " ++
  match from_i64 t i with
  | Some n => s2b n ++ sp ++ s2b (match to_i64 t n with Some z => HexString.of_Z z | None => "?" end)
  | None => s2b "none -"
  end ++ sp ++
  match assoc reg private_ranges with
  | Some _ => show_bool (is_private reg i)
  | None => s2b "-"
  end.

Definition ord_of (s : string) : option cbor_ordering :=
  if String.eqb s "Lexicographic" then Some Lexicographic
  else if String.eqb s "LengthFirstLexicographic" then Some LengthFirstLexicographic else None.

Definition canon_case (o : cbor_ordering) (k : cose_key) : bytes :=
  let k' := canonicalize o k in
  s2b "ok " ++ show_value (d_key k') ++ sp ++ show_res show_hex (to_vec CoseKey_to_value k').

Definition run_case (op : bytes) (args : list bytes) : bytes :=
  let op := b2s op in
  match args with
  | tyb :: rest =>
    let ty := b2s tyb in
    if String.eqb op "dec" || String.eqb op "decval" then
      match lookup_ty ty, rest with
      | Some t, [b] => show_res (show_decoded ty t) (from_slice (fromv t) b)
      | _, _ => badcase end
    else if String.eqb op "dectag" then
      match lookup_ty ty, rest with
      | Some t, [b] => show_res (show_decoded ty t) (tagged_from t b)
      | _, _ => badcase end
    else if String.eqb op "rt" then
      match lookup_ty ty, rest with
      | Some t, [b] => roundtrip ty t (from_slice (fromv t)) (to_vec (tov t)) b
      | _, _ => badcase end
    else if String.eqb op "rttag" then
      match lookup_ty ty, rest with
      | Some t, [b] => roundtrip ty t (tagged_from t) (tagged_to t) b
      | _, _ => badcase end
    else if String.eqb op "encdec" then
      match lookup_ty ty, rest with
      | Some t, [d] => match (do v <- desc_arg d; odsc t v) with
                       | Ok x =>
                         match to_vec (tov t) x with
                         | Ok b => s2b "ok " ++ show_hex b ++ sp ++ show_res (show_decoded ty t) (from_slice (fromv t) b)
                         | r => show_res show_hex r
                         end
                       | _ => badcase end
      | _, _ => badcase end
    else if String.eqb op "enc" || String.eqb op "encval" then
      match lookup_ty ty, rest with
      | Some t, [d] => match (do v <- desc_arg d; odsc t v) with
                       | Ok x => show_res show_hex (to_vec (tov t) x)
                       | _ => badcase end
      | _, _ => badcase end
    else if String.eqb op "enctag" then
      match lookup_ty ty, rest with
      | Some t, [d] => match (do v <- desc_arg d; odsc t v) with
                       | Ok x => show_res show_hex (tagged_to t x)
                       | _ => badcase end
      | _, _ => badcase end
    else if String.eqb op "cmp" then
      match rest with
      | [a; b] => match desc_arg a, desc_arg b with
                  | Ok x, Ok y => cmp_case ty x y
                  | _, _ => badcase end
      | _ => badcase end
    else if String.eqb op "iana" then
      match rest with
      | [i] => match desc_arg i with Ok (VInt z) => iana_case ty z | _ => badcase end
      | _ => badcase end
    else if String.eqb op "sigdata" then
      match sig_ctx_of ty, rest with
      | Some c, [body; sign; aad; pl] =>
        match (do bv <- desc_arg body; o_protected bv), (do sv <- desc_arg sign; o_opt o_protected sv) with
        | Ok bp, Ok so => show_res show_hex (sig_structure_data c bp so aad pl)
        | _, _ => badcase end
      | _, _ => badcase end
    else if String.eqb op "macdata" then
      match mac_ctx_of ty, rest with
      | Some c, [p; aad; pl] =>
        match (do pv <- desc_arg p; o_protected pv) with
        | Ok pp => show_res show_hex (mac_structure_data c pp aad pl)
        | _ => badcase end
      | _, _ => badcase end
    else if String.eqb op "encdata" then
      match enc_ctx_of ty, rest with
      | Some c, [p; aad] =>
        match (do pv <- desc_arg p; o_protected pv) with
        | Ok pp => show_res show_hex (enc_structure_data c pp aad)
        | _ => badcase end
      | _, _ => badcase end
    else if String.eqb op "helperhex" then
      match rest with
      | raw :: args' => helper_case ty (Err EUnexpected) true raw args'
      | _ => badcase end
    else if String.eqb op "helperdesc" then
      match rest with
      | d :: args' => helper_case ty (desc_arg d) false [] args'
      | _ => badcase end
    else if String.eqb op "build" then
      match rest with
      | [ops] => match desc_arg ops with Ok v => build_case ty v | _ => badcase end
      | _ => badcase end
    else if String.eqb op "buildrt" then
      match rest with
      | ops :: tg :: args' =>
        match desc_arg ops with
        | Ok v => buildrt_case ty v (negb (isnil tg)) args'
        | _ => badcase end
      | _ => badcase end
    else if String.eqb op "canon" then
      match ord_of ty, rest with
      | Some o, [d] => match (do v <- desc_arg d; o_key v) with
                       | Ok k => canon_case o k
                       | _ => badcase end
      | _, _ => badcase end
    else badcase
  | [] => badcase
  end.
