(* Label, RegisteredLabel<T>, RegisteredLabelWithPrivate<T> and their hand-written Ord. *)
From Coset.Model Require Import Prelude Cbor Iana.
Open Scope Z_scope.

Inductive label := LInt (z : Z) | LText (t : bytes).
(* Assigned(T) is represented by T's discriminant; the registry is a parameter *)
Inductive reg_label := RAssigned (z : Z) | RText (t : bytes).
Inductive regp_label := PPrivate (z : Z) | PAssigned (z : Z) | PText (t : bytes).

Definition in_i64 (z : Z) : bool := (-9223372036854775808 <=? z) && (z <? 9223372036854775808).
Definition in_u64 (z : Z) : bool := (0 <=? z) && (z <? 18446744073709551616).

(* i64::try_from(Integer) *)
Definition to_i64_res (z : Z) : res Z := if in_i64 z then Ok z else Err ERange.
Definition to_u64_res (z : Z) : res Z := if in_u64 z then Ok z else Err ERange.

Definition label_from_value (v : value) : res label :=
  match v with
  | VInt i => do z <- to_i64_res i; Ok (LInt z)
  | VText t => Ok (LText t)
  | _ => Err EUnexpected
  end.
Definition label_to_value (l : label) : value :=
  match l with LInt z => VInt z | LText t => VText t end.

Definition reg_from_value (tbl : list (string * Z)) (v : value) : res reg_label :=
  match v with
  | VInt i => do z <- to_i64_res i;
              if registered tbl z then Ok (RAssigned z) else Err EUnreg
  | VText t => Ok (RText t)
  | _ => Err EUnexpected
  end.
Definition reg_to_value (l : reg_label) : value :=
  match l with RAssigned z => VInt z | RText t => VText t end.

Definition regp_from_value (reg : string) (v : value) : res regp_label :=
  match v with
  | VInt i => do z <- to_i64_res i;
              if registered (table_of reg) z then Ok (PAssigned z)
              else if is_private reg z then Ok (PPrivate z)
              else Err EUnregNonPriv
  | VText t => Ok (PText t)
  | _ => Err EUnexpected
  end.
Definition regp_to_value (l : regp_label) : value :=
  match l with PPrivate z => VInt z | PAssigned z => VInt z | PText t => VText t end.

(* ---------- orderings ---------- *)
Fixpoint bytes_cmp (a b : bytes) : comparison :=
  match a, b with
  | [], [] => Eq
  | [], _ => Lt
  | _, [] => Gt
  | x :: a', y :: b' =>
    match N.compare (b2n x) (b2n y) with Eq => bytes_cmp a' b' | c => c end
  end.

Definition then_cmp (c d : comparison) : comparison := match c with Eq => d | _ => c end.

(* t1.len().cmp(&t2.len()).then(t1.cmp(t2)) *)
Definition text_cmp (t1 t2 : bytes) : comparison :=
  then_cmp (Nat.compare (length t1) (length t2)) (bytes_cmp t1 t2).

(* (i1.signum(), i2.signum()) dispatch of Label::cmp *)
Definition int_cmp (i1 i2 : Z) : comparison :=
  if i1 <? 0 then (if i2 <? 0 then Z.compare i2 i1 else Gt)
  else if i1 =? 0 then (if i2 <? 0 then Lt else if i2 =? 0 then Eq else Lt)
  else (if i2 <? 0 then Lt else if i2 =? 0 then Gt else Z.compare i1 i2).

Definition label_cmp (a b : label) : comparison :=
  match a, b with
  | LInt i1, LInt i2 => int_cmp i1 i2
  | LInt _, LText _ => Lt
  | LText _, LInt _ => Gt
  | LText t1, LText t2 => text_cmp t1 t2
  end.

Definition reg_cmp (a b : reg_label) : comparison :=
  match a, b with
  | RAssigned i1, RAssigned i2 => label_cmp (LInt i1) (LInt i2)
  | RAssigned _, RText _ => Lt
  | RText _, RAssigned _ => Gt
  | RText t1, RText t2 => text_cmp t1 t2
  end.

Definition regp_cmp (a b : regp_label) : comparison :=
  match a, b with
  | PAssigned i1, PAssigned i2 => label_cmp (LInt i1) (LInt i2)
  | PAssigned i1, PPrivate i2 => label_cmp (LInt i1) (LInt i2)
  | PPrivate i1, PAssigned i2 => label_cmp (LInt i1) (LInt i2)
  | PPrivate i1, PPrivate i2 => label_cmp (LInt i1) (LInt i2)
  | PAssigned _, PText _ => Lt
  | PPrivate _, PText _ => Lt
  | PText _, PAssigned _ => Gt
  | PText _, PPrivate _ => Gt
  | PText t1, PText t2 => text_cmp t1 t2
  end.

(* Label::cmp_canonical: compares the to_vec() encodings, shorter first *)
Definition cmp_canonical (a b : label) : comparison :=
  let ea := ser (label_to_value a) in
  let eb := ser (label_to_value b) in
  if negb (Nat.eqb (length ea) (length eb)) then Nat.compare (length ea) (length eb)
  else bytes_cmp ea eb.

(* derived PartialEq *)
Definition label_eqb (a b : label) : bool :=
  match a, b with
  | LInt x, LInt y => Z.eqb x y
  | LText x, LText y => bytes_eqb x y
  | _, _ => false
  end.
Definition regp_eqb (a b : regp_label) : bool :=
  match a, b with
  | PPrivate x, PPrivate y => Z.eqb x y
  | PAssigned x, PAssigned y => Z.eqb x y
  | PText x, PText y => bytes_eqb x y
  | _, _ => false
  end.
Definition reg_eqb (a b : reg_label) : bool :=
  match a, b with
  | RAssigned x, RAssigned y => Z.eqb x y
  | RText x, RText y => bytes_eqb x y
  | _, _ => false
  end.

Definition is_eq (c : comparison) : bool := match c with Eq => true | _ => false end.

(* BTreeSet<Label> / BTreeSet<ClaimName>::contains goes through Ord *)
Definition label_mem (l : label) (seen : list label) : bool :=
  existsb (fun x => is_eq (label_cmp l x)) seen.
Definition regp_mem (l : regp_label) (seen : list regp_label) : bool :=
  existsb (fun x => is_eq (regp_cmp l x)) seen.

(* BTreeSet<KeyOperation>::insert: sorted by Ord, returns false if already present *)
Fixpoint reg_set_insert (x : reg_label) (s : list reg_label) : bool * list reg_label :=
  match s with
  | [] => (true, [x])
  | y :: r =>
    match reg_cmp x y with
    | Eq => (false, s)
    | Lt => (true, x :: s)
    | Gt => let (ins, r') := reg_set_insert x r in (ins, y :: r')
    end
  end.

(* slice::sort_by (stable): insertion sort *)
Section Sort.
  Context {A : Type} (cmp : A -> A -> comparison).
  Fixpoint insert_sorted (x : A) (l : list A) : list A :=
    match l with
    | [] => [x]
    | y :: r => match cmp x y with Lt => x :: l | _ => y :: insert_sorted x r end
    end.
  (* stable: an element is placed after all earlier elements that are <= it *)
  Definition sort_by (l : list A) : list A :=
    fold_left (fun acc x => insert_sorted x acc) l [].
End Sort.
