(* Registry semantics over the tables regenerated from /repo/src/iana/mod.rs. *)
From Coset.Model Require Import Prelude.
From Coset.gen Require Import Generated.
Open Scope Z_scope.

Fixpoint assoc {A} (k : string) (l : list (string * A)) : option A :=
  match l with
  | [] => None
  | (k', a) :: r => if String.eqb k k' then Some a else assoc k r
  end.

Definition table_of (reg : string) : list (string * Z) :=
  match assoc reg registries with Some t => t | None => [] end.

(* the macro's from_i64: first arm whose discriminant equals i *)
Fixpoint from_i64 (t : list (string * Z)) (i : Z) : option string :=
  match t with
  | [] => None
  | (n, v) :: r => if Z.eqb i v then Some n else from_i64 r i
  end.

Definition to_i64 (t : list (string * Z)) (name : string) : option Z := assoc name t.

Definition registered (t : list (string * Z)) (i : Z) : bool := issome (from_i64 t i).

Definition cmp_op (op : string) (a b : Z) : bool :=
  if String.eqb op "<" then a <? b
  else if String.eqb op "<=" then a <=? b
  else if String.eqb op ">" then b <? a
  else if String.eqb op ">=" then b <=? a
  else if String.eqb op "==" then a =? b
  else negb (a =? b).

Definition is_private (reg : string) (i : Z) : bool :=
  match assoc reg private_ranges with
  | Some (op, bound) => cmp_op op i bound
  | None => false
  end.

(* an enum constant `iana::Reg::Name as i64`; -999999 if the source no longer has it
   (pinned by theorems, so the fallback is never relied upon) *)
Definition enum_const (reg name : string) : Z :=
  match to_i64 (table_of reg) name with Some z => z | None => -999999 end.

Definition label_const (consts : list (string * (string * string))) (c : string) : Z :=
  match assoc c consts with Some (reg, name) => enum_const reg name | None => -999999 end.

(* header labels *)
Definition H_ALG := label_const header_label_consts "ALG".
Definition H_CRIT := label_const header_label_consts "CRIT".
Definition H_CONTENT_TYPE := label_const header_label_consts "CONTENT_TYPE".
Definition H_KID := label_const header_label_consts "KID".
Definition H_IV := label_const header_label_consts "IV".
Definition H_PARTIAL_IV := label_const header_label_consts "PARTIAL_IV".
Definition H_COUNTER_SIG := label_const header_label_consts "COUNTER_SIG".
(* key labels *)
Definition K_KTY := label_const key_label_consts "KTY".
Definition K_KID := label_const key_label_consts "KID".
Definition K_ALG := label_const key_label_consts "ALG".
Definition K_KEY_OPS := label_const key_label_consts "KEY_OPS".
Definition K_BASE_IV := label_const key_label_consts "BASE_IV".
(* claim names *)
Definition C_ISS := label_const claim_consts "ISS".
Definition C_SUB := label_const claim_consts "SUB".
Definition C_AUD := label_const claim_consts "AUD".
Definition C_EXP := label_const claim_consts "EXP".
Definition C_NBF := label_const claim_consts "NBF".
Definition C_IAT := label_const claim_consts "IAT".
Definition C_CTI := label_const claim_consts "CTI".

Definition tag_of (ty : string) : N :=
  match assoc ty tag_of_type with
  | Some (reg, name) =>
      if String.eqb reg "" then 0%N (* literal tags are not used by the source *)
      else Z.to_N (enum_const reg name)
  | None => 0%N
  end.

Definition ctx_text (tbl : list (string * string)) (variant : string) : string :=
  match assoc variant tbl with Some s => s | None => "" end.

Definition arity_ok (ty : string) (n : nat) : bool :=
  match assoc ty arity_of_type with
  | Some (op, ks) =>
      if String.eqb op "in" then existsb (Z.eqb (Z.of_nat n)) ks
      else if String.eqb op "ge" then forallb (fun k => k <=? Z.of_nat n) ks
      else false
  | None => false
  end.

(* nesting budget for protected headers: Some n after the F1 repair *)
Definition nest_limit : nat :=
  match protected_nesting_limit with
  | Some (n, op) => if String.eqb op ">=" then n else if String.eqb op ">" then S n else n
  | None => 1000%nat   (* no budget in the source: model an (effectively) unbounded one *)
  end.

(* registries used by typed positions *)
Definition T_HeaderParameter := table_of "HeaderParameter".
Definition T_Algorithm := table_of "Algorithm".
Definition T_CoapContentFormat := table_of "CoapContentFormat".
Definition T_KeyType := table_of "KeyType".
Definition T_KeyOperation := table_of "KeyOperation".
Definition T_KeyParameter := table_of "KeyParameter".
Definition T_CwtClaimName := table_of "CwtClaimName".
Definition T_EllipticCurve := table_of "EllipticCurve".
