open BinNat
open BinNums
open Byte
open Byte0
open Datatypes

type bytes = byte list

val b2n : byte -> coq_N

val n2b : coq_N -> byte

type err =
| EDecode
| EDup
| EEncode
| EExtra
| ERange
| EUnexpected
| EUnreg
| EUnregNonPriv

type 'a res =
| Ok of 'a
| Err of err
| Panic
| OutOfFuel

val bind : 'a1 res -> ('a1 -> 'a2 res) -> 'a2 res

val map_err : 'a1 res -> err -> 'a1 res

val mapM : ('a1 -> 'a2 res) -> 'a1 list -> 'a2 list res

val isnil : 'a1 list -> bool

val issome : 'a1 option -> bool

val bytes_eqb : bytes -> bytes -> bool

val nth_res : 'a1 list -> nat -> 'a1 res
