open Ascii
open BinInt
open BinNat
open BinNums
open Cbor
open Datatypes
open Generated
open Iana
open Label
open List
open PeanoNat
open Prelude
open String

(** val try_as_bytes : value -> bytes res **)

let try_as_bytes = function
| VBytes b -> Ok b
| _ -> Err EUnexpected

(** val try_as_nonempty_bytes : value -> bytes res **)

let try_as_nonempty_bytes v =
  bind (try_as_bytes v) (fun b -> if isnil b then Err EUnexpected else Ok b)

(** val try_as_array : value -> value list res **)

let try_as_array = function
| VArray a -> Ok a
| _ -> Err EUnexpected

(** val try_as_map : value -> (value * value) list res **)

let try_as_map = function
| VMap m -> Ok m
| _ -> Err EUnexpected

(** val try_as_string : value -> bytes res **)

let try_as_string = function
| VText t -> Ok t
| _ -> Err EUnexpected

(** val try_as_integer : value -> coq_Z res **)

let try_as_integer = function
| VInt z -> Ok z
| _ -> Err EUnexpected

(** val bytes_or_nil : value -> bytes option res **)

let bytes_or_nil = function
| VBytes b -> Ok (Some b)
| VNull -> Ok None
| _ -> Err EUnexpected

(** val read_to_value : bytes -> value res **)

let read_to_value l =
  bind (from_reader l) (fun pat ->
    let (v, r) = pat in if isnil r then Ok v else Err EExtra)

type header =
| Coq_mkHeader of regp_label option * reg_label list * reg_label option
   * bytes * bytes * bytes * signature list * (label * value) list
and signature =
| Coq_mkSignature of protected * header * bytes
and protected =
| Coq_mkProtected of bytes option * header

(** val h_alg : header -> regp_label option **)

let h_alg = function
| Coq_mkHeader (h_alg0, _, _, _, _, _, _, _) -> h_alg0

(** val h_crit : header -> reg_label list **)

let h_crit = function
| Coq_mkHeader (_, h_crit0, _, _, _, _, _, _) -> h_crit0

(** val h_ctype : header -> reg_label option **)

let h_ctype = function
| Coq_mkHeader (_, _, h_ctype0, _, _, _, _, _) -> h_ctype0

(** val h_kid : header -> bytes **)

let h_kid = function
| Coq_mkHeader (_, _, _, h_kid0, _, _, _, _) -> h_kid0

(** val h_iv : header -> bytes **)

let h_iv = function
| Coq_mkHeader (_, _, _, _, h_iv0, _, _, _) -> h_iv0

(** val h_piv : header -> bytes **)

let h_piv = function
| Coq_mkHeader (_, _, _, _, _, h_piv0, _, _) -> h_piv0

(** val h_csigs : header -> signature list **)

let h_csigs = function
| Coq_mkHeader (_, _, _, _, _, _, h_csigs0, _) -> h_csigs0

(** val h_rest : header -> (label * value) list **)

let h_rest = function
| Coq_mkHeader (_, _, _, _, _, _, _, h_rest0) -> h_rest0

(** val s_prot : signature -> protected **)

let s_prot = function
| Coq_mkSignature (s_prot0, _, _) -> s_prot0

(** val s_unprot : signature -> header **)

let s_unprot = function
| Coq_mkSignature (_, s_unprot0, _) -> s_unprot0

(** val s_sig : signature -> bytes **)

let s_sig = function
| Coq_mkSignature (_, _, s_sig0) -> s_sig0

(** val p_orig : protected -> bytes option **)

let p_orig = function
| Coq_mkProtected (p_orig0, _) -> p_orig0

(** val p_hdr : protected -> header **)

let p_hdr = function
| Coq_mkProtected (_, p_hdr0) -> p_hdr0

(** val header_default : header **)

let header_default =
  Coq_mkHeader (None, [], None, [], [], [], [], [])

(** val protected_default : protected **)

let protected_default =
  Coq_mkProtected (None, header_default)

(** val signature_default : signature **)

let signature_default =
  Coq_mkSignature (protected_default, header_default, [])

(** val header_is_empty : header -> bool **)

let header_is_empty h =
  (&&)
    ((&&)
      ((&&)
        ((&&)
          ((&&)
            ((&&) ((&&) (negb (issome (h_alg h))) (isnil (h_crit h)))
              (negb (issome (h_ctype h)))) (isnil (h_kid h)))
          (isnil (h_iv h))) (isnil (h_piv h))) (isnil (h_csigs h)))
    (isnil (h_rest h))

(** val ws_prefix : bytes -> bool **)

let ws_prefix = function
| [] -> false
| b0 :: r0 ->
  let n0 = b2n b0 in
  if (||)
       ((&&) (N.leb (Npos (Coq_xI (Coq_xO (Coq_xO Coq_xH)))) n0)
         (N.leb n0 (Npos (Coq_xI (Coq_xO (Coq_xI Coq_xH))))))
       (N.eqb n0 (Npos (Coq_xO (Coq_xO (Coq_xO (Coq_xO (Coq_xO Coq_xH)))))))
  then true
  else (match r0 with
        | [] -> false
        | b1 :: r1 ->
          let n1 = b2n b1 in
          if N.eqb n0 (Npos (Coq_xO (Coq_xI (Coq_xO (Coq_xO (Coq_xO (Coq_xO
               (Coq_xI Coq_xH))))))))
          then (||)
                 (N.eqb n1 (Npos (Coq_xI (Coq_xO (Coq_xI (Coq_xO (Coq_xO
                   (Coq_xO (Coq_xO Coq_xH)))))))))
                 (N.eqb n1 (Npos (Coq_xO (Coq_xO (Coq_xO (Coq_xO (Coq_xO
                   (Coq_xI (Coq_xO Coq_xH)))))))))
          else (match r1 with
                | [] -> false
                | b2 :: _ ->
                  let n2 = b2n b2 in
                  if N.eqb n0 (Npos (Coq_xI (Coq_xO (Coq_xO (Coq_xO (Coq_xO
                       (Coq_xI (Coq_xI Coq_xH))))))))
                  then (&&)
                         (N.eqb n1 (Npos (Coq_xO (Coq_xI (Coq_xO (Coq_xI
                           (Coq_xI (Coq_xO (Coq_xO Coq_xH)))))))))
                         (N.eqb n2 (Npos (Coq_xO (Coq_xO (Coq_xO (Coq_xO
                           (Coq_xO (Coq_xO (Coq_xO Coq_xH)))))))))
                  else if N.eqb n0 (Npos (Coq_xO (Coq_xI (Coq_xO (Coq_xO
                            (Coq_xO (Coq_xI (Coq_xI Coq_xH))))))))
                       then (||)
                              ((&&)
                                (N.eqb n1 (Npos (Coq_xO (Coq_xO (Coq_xO
                                  (Coq_xO (Coq_xO (Coq_xO (Coq_xO
                                  Coq_xH)))))))))
                                ((||)
                                  ((||)
                                    ((||)
                                      ((&&)
                                        (N.leb (Npos (Coq_xO (Coq_xO (Coq_xO
                                          (Coq_xO (Coq_xO (Coq_xO (Coq_xO
                                          Coq_xH)))))))) n2)
                                        (N.leb n2 (Npos (Coq_xO (Coq_xI
                                          (Coq_xO (Coq_xI (Coq_xO (Coq_xO
                                          (Coq_xO Coq_xH))))))))))
                                      (N.eqb n2 (Npos (Coq_xO (Coq_xO (Coq_xO
                                        (Coq_xI (Coq_xO (Coq_xI (Coq_xO
                                        Coq_xH))))))))))
                                    (N.eqb n2 (Npos (Coq_xI (Coq_xO (Coq_xO
                                      (Coq_xI (Coq_xO (Coq_xI (Coq_xO
                                      Coq_xH))))))))))
                                  (N.eqb n2 (Npos (Coq_xI (Coq_xI (Coq_xI
                                    (Coq_xI (Coq_xO (Coq_xI (Coq_xO
                                    Coq_xH)))))))))))
                              ((&&)
                                (N.eqb n1 (Npos (Coq_xI (Coq_xO (Coq_xO
                                  (Coq_xO (Coq_xO (Coq_xO (Coq_xO
                                  Coq_xH)))))))))
                                (N.eqb n2 (Npos (Coq_xI (Coq_xI (Coq_xI
                                  (Coq_xI (Coq_xI (Coq_xO (Coq_xO
                                  Coq_xH))))))))))
                       else if N.eqb n0 (Npos (Coq_xI (Coq_xI (Coq_xO (Coq_xO
                                 (Coq_xO (Coq_xI (Coq_xI Coq_xH))))))))
                            then (&&)
                                   (N.eqb n1 (Npos (Coq_xO (Coq_xO (Coq_xO
                                     (Coq_xO (Coq_xO (Coq_xO (Coq_xO
                                     Coq_xH)))))))))
                                   (N.eqb n2 (Npos (Coq_xO (Coq_xO (Coq_xO
                                     (Coq_xO (Coq_xO (Coq_xO (Coq_xO
                                     Coq_xH)))))))))
                            else false))

(** val ws_suffix : bytes -> bool **)

let ws_suffix l =
  match rev l with
  | [] -> false
  | c :: r0 ->
    let n = b2n c in
    if N.ltb n (Npos (Coq_xO (Coq_xO (Coq_xO (Coq_xO (Coq_xO (Coq_xO (Coq_xO
         Coq_xH))))))))
    then (||)
           ((&&) (N.leb (Npos (Coq_xI (Coq_xO (Coq_xO Coq_xH)))) n)
             (N.leb n (Npos (Coq_xI (Coq_xO (Coq_xI Coq_xH))))))
           (N.eqb n (Npos (Coq_xO (Coq_xO (Coq_xO (Coq_xO (Coq_xO
             Coq_xH)))))))
    else (match r0 with
          | [] -> false
          | b :: r1 ->
            if N.leb (Npos (Coq_xO (Coq_xO (Coq_xO (Coq_xO (Coq_xO (Coq_xO
                 (Coq_xI Coq_xH)))))))) (b2n b)
            then ws_prefix (b :: (c :: []))
            else (match r1 with
                  | [] -> false
                  | a :: _ -> ws_prefix (a :: (b :: (c :: [])))))

(** val count_slash : bytes -> nat **)

let count_slash l =
  Datatypes.length
    (filter (fun b ->
      N.eqb (b2n b) (Npos (Coq_xI (Coq_xI (Coq_xI (Coq_xI (Coq_xO Coq_xH)))))))
      l)

(** val check_content_type_text : bytes -> unit res **)

let check_content_type_text t =
  if isnil t
  then Err EUnexpected
  else if (||) (ws_prefix t) (ws_suffix t)
       then Err EUnexpected
       else if negb (Nat.eqb (count_slash t) (S O))
            then Err EUnexpected
            else Ok ()

(** val map_loop :
    ('a1 -> label -> value -> 'a1 res) -> (value * value) list -> 'a1 ->
    label list -> 'a1 res **)

let rec map_loop step m s seen =
  match m with
  | [] -> Ok s
  | p :: m' ->
    let (k, x) = p in
    bind (label_from_value k) (fun l ->
      if label_mem l seen
      then Err EDup
      else bind (step s l x) (fun s' -> map_loop step m' s' (l :: seen)))

(** val set_alg : regp_label option -> header -> header **)

let set_alg a h =
  Coq_mkHeader (a, (h_crit h), (h_ctype h), (h_kid h), (h_iv h), (h_piv h),
    (h_csigs h), (h_rest h))

(** val set_crit : reg_label list -> header -> header **)

let set_crit c h =
  Coq_mkHeader ((h_alg h), c, (h_ctype h), (h_kid h), (h_iv h), (h_piv h),
    (h_csigs h), (h_rest h))

(** val set_ctype : reg_label option -> header -> header **)

let set_ctype c h =
  Coq_mkHeader ((h_alg h), (h_crit h), c, (h_kid h), (h_iv h), (h_piv h),
    (h_csigs h), (h_rest h))

(** val set_kid : bytes -> header -> header **)

let set_kid k h =
  Coq_mkHeader ((h_alg h), (h_crit h), (h_ctype h), k, (h_iv h), (h_piv h),
    (h_csigs h), (h_rest h))

(** val set_iv : bytes -> header -> header **)

let set_iv i h =
  Coq_mkHeader ((h_alg h), (h_crit h), (h_ctype h), (h_kid h), i, (h_piv h),
    (h_csigs h), (h_rest h))

(** val set_piv : bytes -> header -> header **)

let set_piv i h =
  Coq_mkHeader ((h_alg h), (h_crit h), (h_ctype h), (h_kid h), (h_iv h), i,
    (h_csigs h), (h_rest h))

(** val set_csigs : signature list -> header -> header **)

let set_csigs c h =
  Coq_mkHeader ((h_alg h), (h_crit h), (h_ctype h), (h_kid h), (h_iv h),
    (h_piv h), c, (h_rest h))

(** val set_rest : (label * value) list -> header -> header **)

let set_rest r h =
  Coq_mkHeader ((h_alg h), (h_crit h), (h_ctype h), (h_kid h), (h_iv h),
    (h_piv h), (h_csigs h), r)

(** val is_lint : label -> coq_Z -> bool **)

let is_lint l z =
  match l with
  | LInt i -> Z.eqb i z
  | LText _ -> false

(** val iv_clash : header -> bool **)

let iv_clash h =
  (&&) (negb (isnil (h_iv h))) (negb (isnil (h_piv h)))

(** val protected_from_bstr :
    (bytes -> header res) -> value -> protected res **)

let protected_from_bstr parse_prot v =
  bind (try_as_bytes v) (fun data ->
    if isnil data
    then Ok (Coq_mkProtected ((Some data), header_default))
    else bind (parse_prot data) (fun h -> Ok (Coq_mkProtected ((Some data),
           h))))

(** val signature_from_value_with :
    (bytes -> header res) -> (value -> header res) -> value -> signature res **)

let signature_from_value_with parse_prot hv = function
| VArray a ->
  if negb
       (arity_ok (String ((Ascii (true, true, false, false, false, false,
         true, false)), (String ((Ascii (true, true, true, true, false, true,
         true, false)), (String ((Ascii (true, true, false, false, true,
         true, true, false)), (String ((Ascii (true, false, true, false,
         false, true, true, false)), (String ((Ascii (true, true, false,
         false, true, false, true, false)), (String ((Ascii (true, false,
         false, true, false, true, true, false)), (String ((Ascii (true,
         true, true, false, false, true, true, false)), (String ((Ascii
         (false, true, true, true, false, true, true, false)), (String
         ((Ascii (true, false, false, false, false, true, true, false)),
         (String ((Ascii (false, false, true, false, true, true, true,
         false)), (String ((Ascii (true, false, true, false, true, true,
         true, false)), (String ((Ascii (false, true, false, false, true,
         true, true, false)), (String ((Ascii (true, false, true, false,
         false, true, true, false)), EmptyString))))))))))))))))))))))))))
         (Datatypes.length a))
  then Err EUnexpected
  else (match a with
        | [] -> Panic
        | x0 :: l ->
          (match l with
           | [] -> Panic
           | x1 :: l0 ->
             (match l0 with
              | [] -> Panic
              | x2 :: _ ->
                bind (try_as_bytes x2) (fun sg ->
                  bind (hv x1) (fun u ->
                    bind (protected_from_bstr parse_prot x0) (fun p -> Ok
                      (Coq_mkSignature (p, u, sg))))))))
| _ -> Err EUnexpected

(** val header_step :
    (bytes -> header res) -> (value -> header res) -> header -> label ->
    value -> header res **)

let header_step parse_prot hv h l x =
  bind
    (if is_lint l coq_H_ALG
     then bind
            (regp_from_value (String ((Ascii (true, false, false, false,
              false, false, true, false)), (String ((Ascii (false, false,
              true, true, false, true, true, false)), (String ((Ascii (true,
              true, true, false, false, true, true, false)), (String ((Ascii
              (true, true, true, true, false, true, true, false)), (String
              ((Ascii (false, true, false, false, true, true, true, false)),
              (String ((Ascii (true, false, false, true, false, true, true,
              false)), (String ((Ascii (false, false, true, false, true,
              true, true, false)), (String ((Ascii (false, false, false,
              true, false, true, true, false)), (String ((Ascii (true, false,
              true, true, false, true, true, false)),
              EmptyString)))))))))))))))))) x) (fun a -> Ok
            (set_alg (Some a) h))
     else if is_lint l coq_H_CRIT
          then (match x with
                | VArray a ->
                  if isnil a
                  then Err EUnexpected
                  else bind (mapM (reg_from_value coq_T_HeaderParameter) a)
                         (fun c -> Ok (set_crit (app (h_crit h) c) h))
                | _ -> Err EUnexpected)
          else if is_lint l coq_H_CONTENT_TYPE
               then bind (reg_from_value coq_T_CoapContentFormat x) (fun c ->
                      match c with
                      | RAssigned _ -> Ok (set_ctype (Some c) h)
                      | RText t ->
                        bind (check_content_type_text t) (fun _ -> Ok
                          (set_ctype (Some c) h)))
               else if is_lint l coq_H_KID
                    then bind (try_as_nonempty_bytes x) (fun b -> Ok
                           (set_kid b h))
                    else if is_lint l coq_H_IV
                         then bind (try_as_nonempty_bytes x) (fun b -> Ok
                                (set_iv b h))
                         else if is_lint l coq_H_PARTIAL_IV
                              then bind (try_as_nonempty_bytes x) (fun b ->
                                     Ok (set_piv b h))
                              else if is_lint l coq_H_COUNTER_SIG
                                   then (match x with
                                         | VArray sig_or_sigs ->
                                           (match sig_or_sigs with
                                            | [] -> Err EUnexpected
                                            | v :: _ ->
                                              (match v with
                                               | VBytes _ ->
                                                 bind
                                                   (signature_from_value_with
                                                     parse_prot hv x)
                                                   (fun s -> Ok
                                                   (set_csigs
                                                     (app (h_csigs h)
                                                       (s :: [])) h))
                                               | VArray _ ->
                                                 bind
                                                   (mapM
                                                     (signature_from_value_with
                                                       parse_prot hv)
                                                     sig_or_sigs) (fun ss ->
                                                   Ok
                                                   (set_csigs
                                                     (app (h_csigs h) ss) h))
                                               | _ -> Err EUnexpected))
                                         | _ -> Err EUnexpected)
                                   else Ok
                                          (set_rest
                                            (app (h_rest h) ((l, x) :: [])) h))
    (fun h' -> if iv_clash h' then Err EUnexpected else Ok h')

(** val header_from_value : (bytes -> header res) -> value -> header res **)

let rec header_from_value parse_prot = function
| VMap m ->
  map_loop (header_step parse_prot (header_from_value parse_prot)) m
    header_default []
| _ -> Err EUnexpected

(** val signature_from_value :
    (bytes -> header res) -> value -> signature res **)

let signature_from_value parse_prot =
  signature_from_value_with parse_prot (header_from_value parse_prot)

(** val header_at : nat -> value -> header res **)

let rec header_at n v =
  header_from_value (fun data ->
    match n with
    | O -> Err EUnexpected
    | S n' -> bind (read_to_value data) (fun v' -> header_at n' v')) v

(** val parse_prot_at : nat -> bytes -> header res **)

let parse_prot_at n data =
  match n with
  | O -> Err EUnexpected
  | S n' -> bind (read_to_value data) (fun v' -> header_at n' v')

(** val coq_Header_from_value : value -> header res **)

let coq_Header_from_value v =
  header_at nest_limit v

(** val coq_ProtectedHeader_from_cbor_bstr : value -> protected res **)

let coq_ProtectedHeader_from_cbor_bstr v =
  protected_from_bstr (parse_prot_at nest_limit) v

(** val coq_CoseSignature_from_value : value -> signature res **)

let coq_CoseSignature_from_value v =
  signature_from_value (parse_prot_at nest_limit) v

(** val coq_ProtectedHeader_from_value : value -> protected res **)

let coq_ProtectedHeader_from_value v =
  bind (coq_Header_from_value v) (fun h -> Ok (Coq_mkProtected (None, h)))

(** val opt_entry :
    coq_Z -> 'a1 option -> ('a1 -> value) -> (value * value) list **)

let opt_entry k o f =
  match o with
  | Some a -> ((VInt k), (f a)) :: []
  | None -> []

(** val bytes_entry : coq_Z -> bytes -> (value * value) list **)

let bytes_entry k b =
  if isnil b then [] else ((VInt k), (VBytes b)) :: []

(** val emit_rest :
    (label * value) list -> label list -> (value * value) list ->
    (value * value) list res **)

let rec emit_rest rest seen acc =
  match rest with
  | [] -> Ok acc
  | p :: r ->
    let (l, x) = p in
    if label_mem l seen
    then Err EDup
    else emit_rest r (l :: seen) (app acc (((label_to_value l), x) :: []))

(** val seed_seen : (value * value) list -> label list res **)

let seed_seen m =
  mapM (fun kv -> label_from_value (fst kv)) m

(** val header_to_value : header -> value res **)

let rec header_to_value h =
  let m1 =
    app (opt_entry coq_H_ALG (h_alg h) regp_to_value)
      (app
        (if isnil (h_crit h)
         then []
         else ((VInt coq_H_CRIT), (VArray
                (map reg_to_value (h_crit h)))) :: [])
        (app (opt_entry coq_H_CONTENT_TYPE (h_ctype h) reg_to_value)
          (app (bytes_entry coq_H_KID (h_kid h))
            (app (bytes_entry coq_H_IV (h_iv h))
              (bytes_entry coq_H_PARTIAL_IV (h_piv h))))))
  in
  bind
    (match h_csigs h with
     | [] -> Ok m1
     | s :: l ->
       (match l with
        | [] ->
          bind (signature_to_value s) (fun sv -> Ok
            (app m1 (((VInt coq_H_COUNTER_SIG), sv) :: [])))
        | s0 :: l0 ->
          bind (mapM signature_to_value (s :: (s0 :: l0))) (fun svs -> Ok
            (app m1 (((VInt coq_H_COUNTER_SIG), (VArray svs)) :: [])))))
    (fun m2 ->
    bind (seed_seen m2) (fun seen ->
      bind (emit_rest (h_rest h) seen m2) (fun m -> Ok (VMap m))))

(** val signature_to_value : signature -> value res **)

and signature_to_value s =
  bind (protected_cbor_bstr (s_prot s)) (fun p ->
    bind (header_to_value (s_unprot s)) (fun u -> Ok (VArray
      (p :: (u :: ((VBytes (s_sig s)) :: []))))))

(** val protected_cbor_bstr : protected -> value res **)

and protected_cbor_bstr p =
  match p_orig p with
  | Some d -> Ok (VBytes d)
  | None ->
    if header_is_empty (p_hdr p)
    then Ok (VBytes [])
    else bind (header_to_value (p_hdr p)) (fun v -> Ok (VBytes (ser v)))

(** val protected_to_value : protected -> value res **)

let protected_to_value p =
  header_to_value (p_hdr p)

(** val s2b : string -> bytes **)

let s2b =
  list_byte_of_string

type sig_context =
| SigCoseSignature
| SigCoseSign1
| SigCounterSignature

type mac_context =
| MacCoseMac
| MacCoseMac0

type enc_context =
| EncCoseEncrypt
| EncCoseEncrypt0
| EncEncRecipient
| EncMacRecipient
| EncRecRecipient

(** val sig_context_text : sig_context -> bytes **)

let sig_context_text c =
  s2b
    (ctx_text sig_ctx_text
      (match c with
       | SigCoseSignature ->
         String ((Ascii (true, true, false, false, false, false, true,
           false)), (String ((Ascii (true, true, true, true, false, true,
           true, false)), (String ((Ascii (true, true, false, false, true,
           true, true, false)), (String ((Ascii (true, false, true, false,
           false, true, true, false)), (String ((Ascii (true, true, false,
           false, true, false, true, false)), (String ((Ascii (true, false,
           false, true, false, true, true, false)), (String ((Ascii (true,
           true, true, false, false, true, true, false)), (String ((Ascii
           (false, true, true, true, false, true, true, false)), (String
           ((Ascii (true, false, false, false, false, true, true, false)),
           (String ((Ascii (false, false, true, false, true, true, true,
           false)), (String ((Ascii (true, false, true, false, true, true,
           true, false)), (String ((Ascii (false, true, false, false, true,
           true, true, false)), (String ((Ascii (true, false, true, false,
           false, true, true, false)), EmptyString)))))))))))))))))))))))))
       | SigCoseSign1 ->
         String ((Ascii (true, true, false, false, false, false, true,
           false)), (String ((Ascii (true, true, true, true, false, true,
           true, false)), (String ((Ascii (true, true, false, false, true,
           true, true, false)), (String ((Ascii (true, false, true, false,
           false, true, true, false)), (String ((Ascii (true, true, false,
           false, true, false, true, false)), (String ((Ascii (true, false,
           false, true, false, true, true, false)), (String ((Ascii (true,
           true, true, false, false, true, true, false)), (String ((Ascii
           (false, true, true, true, false, true, true, false)), (String
           ((Ascii (true, false, false, false, true, true, false, false)),
           EmptyString)))))))))))))))))
       | SigCounterSignature ->
         String ((Ascii (true, true, false, false, false, false, true,
           false)), (String ((Ascii (true, true, true, true, false, true,
           true, false)), (String ((Ascii (true, false, true, false, true,
           true, true, false)), (String ((Ascii (false, true, true, true,
           false, true, true, false)), (String ((Ascii (false, false, true,
           false, true, true, true, false)), (String ((Ascii (true, false,
           true, false, false, true, true, false)), (String ((Ascii (false,
           true, false, false, true, true, true, false)), (String ((Ascii
           (true, true, false, false, true, false, true, false)), (String
           ((Ascii (true, false, false, true, false, true, true, false)),
           (String ((Ascii (true, true, true, false, false, true, true,
           false)), (String ((Ascii (false, true, true, true, false, true,
           true, false)), (String ((Ascii (true, false, false, false, false,
           true, true, false)), (String ((Ascii (false, false, true, false,
           true, true, true, false)), (String ((Ascii (true, false, true,
           false, true, true, true, false)), (String ((Ascii (false, true,
           false, false, true, true, true, false)), (String ((Ascii (true,
           false, true, false, false, true, true, false)),
           EmptyString)))))))))))))))))))))))))))))))))

(** val mac_context_text : mac_context -> bytes **)

let mac_context_text c =
  s2b
    (ctx_text mac_ctx_text
      (match c with
       | MacCoseMac ->
         String ((Ascii (true, true, false, false, false, false, true,
           false)), (String ((Ascii (true, true, true, true, false, true,
           true, false)), (String ((Ascii (true, true, false, false, true,
           true, true, false)), (String ((Ascii (true, false, true, false,
           false, true, true, false)), (String ((Ascii (true, false, true,
           true, false, false, true, false)), (String ((Ascii (true, false,
           false, false, false, true, true, false)), (String ((Ascii (true,
           true, false, false, false, true, true, false)),
           EmptyString)))))))))))))
       | MacCoseMac0 ->
         String ((Ascii (true, true, false, false, false, false, true,
           false)), (String ((Ascii (true, true, true, true, false, true,
           true, false)), (String ((Ascii (true, true, false, false, true,
           true, true, false)), (String ((Ascii (true, false, true, false,
           false, true, true, false)), (String ((Ascii (true, false, true,
           true, false, false, true, false)), (String ((Ascii (true, false,
           false, false, false, true, true, false)), (String ((Ascii (true,
           true, false, false, false, true, true, false)), (String ((Ascii
           (false, false, false, false, true, true, false, false)),
           EmptyString)))))))))))))))))

(** val enc_context_text : enc_context -> bytes **)

let enc_context_text c =
  s2b
    (ctx_text enc_ctx_text
      (match c with
       | EncCoseEncrypt ->
         String ((Ascii (true, true, false, false, false, false, true,
           false)), (String ((Ascii (true, true, true, true, false, true,
           true, false)), (String ((Ascii (true, true, false, false, true,
           true, true, false)), (String ((Ascii (true, false, true, false,
           false, true, true, false)), (String ((Ascii (true, false, true,
           false, false, false, true, false)), (String ((Ascii (false, true,
           true, true, false, true, true, false)), (String ((Ascii (true,
           true, false, false, false, true, true, false)), (String ((Ascii
           (false, true, false, false, true, true, true, false)), (String
           ((Ascii (true, false, false, true, true, true, true, false)),
           (String ((Ascii (false, false, false, false, true, true, true,
           false)), (String ((Ascii (false, false, true, false, true, true,
           true, false)), EmptyString)))))))))))))))))))))
       | EncCoseEncrypt0 ->
         String ((Ascii (true, true, false, false, false, false, true,
           false)), (String ((Ascii (true, true, true, true, false, true,
           true, false)), (String ((Ascii (true, true, false, false, true,
           true, true, false)), (String ((Ascii (true, false, true, false,
           false, true, true, false)), (String ((Ascii (true, false, true,
           false, false, false, true, false)), (String ((Ascii (false, true,
           true, true, false, true, true, false)), (String ((Ascii (true,
           true, false, false, false, true, true, false)), (String ((Ascii
           (false, true, false, false, true, true, true, false)), (String
           ((Ascii (true, false, false, true, true, true, true, false)),
           (String ((Ascii (false, false, false, false, true, true, true,
           false)), (String ((Ascii (false, false, true, false, true, true,
           true, false)), (String ((Ascii (false, false, false, false, true,
           true, false, false)), EmptyString)))))))))))))))))))))))
       | EncEncRecipient ->
         String ((Ascii (true, false, true, false, false, false, true,
           false)), (String ((Ascii (false, true, true, true, false, true,
           true, false)), (String ((Ascii (true, true, false, false, false,
           true, true, false)), (String ((Ascii (false, true, false, false,
           true, false, true, false)), (String ((Ascii (true, false, true,
           false, false, true, true, false)), (String ((Ascii (true, true,
           false, false, false, true, true, false)), (String ((Ascii (true,
           false, false, true, false, true, true, false)), (String ((Ascii
           (false, false, false, false, true, true, true, false)), (String
           ((Ascii (true, false, false, true, false, true, true, false)),
           (String ((Ascii (true, false, true, false, false, true, true,
           false)), (String ((Ascii (false, true, true, true, false, true,
           true, false)), (String ((Ascii (false, false, true, false, true,
           true, true, false)), EmptyString)))))))))))))))))))))))
       | EncMacRecipient ->
         String ((Ascii (true, false, true, true, false, false, true,
           false)), (String ((Ascii (true, false, false, false, false, true,
           true, false)), (String ((Ascii (true, true, false, false, false,
           true, true, false)), (String ((Ascii (false, true, false, false,
           true, false, true, false)), (String ((Ascii (true, false, true,
           false, false, true, true, false)), (String ((Ascii (true, true,
           false, false, false, true, true, false)), (String ((Ascii (true,
           false, false, true, false, true, true, false)), (String ((Ascii
           (false, false, false, false, true, true, true, false)), (String
           ((Ascii (true, false, false, true, false, true, true, false)),
           (String ((Ascii (true, false, true, false, false, true, true,
           false)), (String ((Ascii (false, true, true, true, false, true,
           true, false)), (String ((Ascii (false, false, true, false, true,
           true, true, false)), EmptyString)))))))))))))))))))))))
       | EncRecRecipient ->
         String ((Ascii (false, true, false, false, true, false, true,
           false)), (String ((Ascii (true, false, true, false, false, true,
           true, false)), (String ((Ascii (true, true, false, false, false,
           true, true, false)), (String ((Ascii (false, true, false, false,
           true, false, true, false)), (String ((Ascii (true, false, true,
           false, false, true, true, false)), (String ((Ascii (true, true,
           false, false, false, true, true, false)), (String ((Ascii (true,
           false, false, true, false, true, true, false)), (String ((Ascii
           (false, false, false, false, true, true, true, false)), (String
           ((Ascii (true, false, false, true, false, true, true, false)),
           (String ((Ascii (true, false, true, false, false, true, true,
           false)), (String ((Ascii (false, true, true, true, false, true,
           true, false)), (String ((Ascii (false, false, true, false, true,
           true, true, false)), EmptyString)))))))))))))))))))))))))

(** val expect : 'a1 res -> 'a1 res **)

let expect r = match r with
| Err _ -> Panic
| _ -> r

(** val sig_structure_data :
    sig_context -> protected -> protected option -> bytes -> bytes -> bytes
    res **)

let sig_structure_data c body sign0 aad payload =
  bind (expect (protected_cbor_bstr body)) (fun b ->
    bind
      (match sign0 with
       | Some sp ->
         bind (expect (protected_cbor_bstr sp)) (fun x -> Ok (x :: []))
       | None -> Ok []) (fun s -> Ok
      (ser (VArray
        (app ((VText (sig_context_text c)) :: (b :: []))
          (app s ((VBytes aad) :: ((VBytes payload) :: []))))))))

(** val mac_structure_data :
    mac_context -> protected -> bytes -> bytes -> bytes res **)

let mac_structure_data c p aad payload =
  bind (expect (protected_cbor_bstr p)) (fun b -> Ok
    (ser (VArray ((VText (mac_context_text c)) :: (b :: ((VBytes
      aad) :: ((VBytes payload) :: [])))))))

(** val enc_structure_data :
    enc_context -> protected -> bytes -> bytes res **)

let enc_structure_data c p aad =
  bind (expect (protected_cbor_bstr p)) (fun b -> Ok
    (ser (VArray ((VText (enc_context_text c)) :: (b :: ((VBytes
      aad) :: []))))))

type sign1 = { s1_prot : protected; s1_unprot : header;
               s1_payload : bytes option; s1_sig : bytes }

type sign = { sn_prot : protected; sn_unprot : header;
              sn_payload : bytes option; sn_sigs : signature list }

type mac0 = { m0_prot : protected; m0_unprot : header;
              m0_payload : bytes option; m0_tag : bytes }

type recipient = { r_prot : protected; r_unprot : header;
                   r_ct : bytes option; r_recipients : recipient list }

type mac = { mc_prot : protected; mc_unprot : header;
             mc_payload : bytes option; mc_tag : bytes;
             mc_recipients : recipient list }

type encrypt = { en_prot : protected; en_unprot : header;
                 en_ct : bytes option; en_recipients : recipient list }

type encrypt0 = { e0_prot : protected; e0_unprot : header;
                  e0_ct : bytes option }

(** val opt_bytes_value : bytes option -> value **)

let opt_bytes_value = function
| Some b -> VBytes b
| None -> VNull

(** val coq_CoseSign1_from_value : value -> sign1 res **)

let coq_CoseSign1_from_value v =
  bind (try_as_array v) (fun a ->
    if negb
         (arity_ok (String ((Ascii (true, true, false, false, false, false,
           true, false)), (String ((Ascii (true, true, true, true, false,
           true, true, false)), (String ((Ascii (true, true, false, false,
           true, true, true, false)), (String ((Ascii (true, false, true,
           false, false, true, true, false)), (String ((Ascii (true, true,
           false, false, true, false, true, false)), (String ((Ascii (true,
           false, false, true, false, true, true, false)), (String ((Ascii
           (true, true, true, false, false, true, true, false)), (String
           ((Ascii (false, true, true, true, false, true, true, false)),
           (String ((Ascii (true, false, false, false, true, true, false,
           false)), EmptyString)))))))))))))))))) (Datatypes.length a))
    then Err EUnexpected
    else (match a with
          | [] -> Panic
          | x0 :: l ->
            (match l with
             | [] -> Panic
             | x1 :: l0 ->
               (match l0 with
                | [] -> Panic
                | x2 :: l1 ->
                  (match l1 with
                   | [] -> Panic
                   | x3 :: _ ->
                     bind (try_as_bytes x3) (fun sg ->
                       bind (bytes_or_nil x2) (fun pl ->
                         bind (coq_Header_from_value x1) (fun u ->
                           bind (coq_ProtectedHeader_from_cbor_bstr x0)
                             (fun p -> Ok { s1_prot = p; s1_unprot = u;
                             s1_payload = pl; s1_sig = sg })))))))))

(** val coq_CoseSign1_to_value : sign1 -> value res **)

let coq_CoseSign1_to_value m =
  bind (protected_cbor_bstr m.s1_prot) (fun p ->
    bind (header_to_value m.s1_unprot) (fun u -> Ok (VArray
      (p :: (u :: ((opt_bytes_value m.s1_payload) :: ((VBytes
      m.s1_sig) :: [])))))))

(** val coq_CoseSign_from_value : value -> sign res **)

let coq_CoseSign_from_value v =
  bind (try_as_array v) (fun a ->
    if negb
         (arity_ok (String ((Ascii (true, true, false, false, false, false,
           true, false)), (String ((Ascii (true, true, true, true, false,
           true, true, false)), (String ((Ascii (true, true, false, false,
           true, true, true, false)), (String ((Ascii (true, false, true,
           false, false, true, true, false)), (String ((Ascii (true, true,
           false, false, true, false, true, false)), (String ((Ascii (true,
           false, false, true, false, true, true, false)), (String ((Ascii
           (true, true, true, false, false, true, true, false)), (String
           ((Ascii (false, true, true, true, false, true, true, false)),
           EmptyString)))))))))))))))) (Datatypes.length a))
    then Err EUnexpected
    else (match a with
          | [] -> Panic
          | x0 :: l ->
            (match l with
             | [] -> Panic
             | x1 :: l0 ->
               (match l0 with
                | [] -> Panic
                | x2 :: l1 ->
                  (match l1 with
                   | [] -> Panic
                   | x3 :: _ ->
                     bind (try_as_array x3) (fun sa ->
                       bind
                         (mapM (fun s ->
                           map_err (coq_CoseSignature_from_value s)
                             EUnexpected) sa) (fun sigs ->
                         bind (bytes_or_nil x2) (fun pl ->
                           bind (coq_Header_from_value x1) (fun u ->
                             bind (coq_ProtectedHeader_from_cbor_bstr x0)
                               (fun p -> Ok { sn_prot = p; sn_unprot = u;
                               sn_payload = pl; sn_sigs = sigs }))))))))))

(** val coq_CoseSign_to_value : sign -> value res **)

let coq_CoseSign_to_value m =
  bind (protected_cbor_bstr m.sn_prot) (fun p ->
    bind (header_to_value m.sn_unprot) (fun u ->
      bind (mapM signature_to_value m.sn_sigs) (fun ss -> Ok (VArray
        (p :: (u :: ((opt_bytes_value m.sn_payload) :: ((VArray
        ss) :: []))))))))

(** val coq_CoseMac0_from_value : value -> mac0 res **)

let coq_CoseMac0_from_value v =
  bind (try_as_array v) (fun a ->
    if negb
         (arity_ok (String ((Ascii (true, true, false, false, false, false,
           true, false)), (String ((Ascii (true, true, true, true, false,
           true, true, false)), (String ((Ascii (true, true, false, false,
           true, true, true, false)), (String ((Ascii (true, false, true,
           false, false, true, true, false)), (String ((Ascii (true, false,
           true, true, false, false, true, false)), (String ((Ascii (true,
           false, false, false, false, true, true, false)), (String ((Ascii
           (true, true, false, false, false, true, true, false)), (String
           ((Ascii (false, false, false, false, true, true, false, false)),
           EmptyString)))))))))))))))) (Datatypes.length a))
    then Err EUnexpected
    else (match a with
          | [] -> Panic
          | x0 :: l ->
            (match l with
             | [] -> Panic
             | x1 :: l0 ->
               (match l0 with
                | [] -> Panic
                | x2 :: l1 ->
                  (match l1 with
                   | [] -> Panic
                   | x3 :: _ ->
                     bind (try_as_bytes x3) (fun tg ->
                       bind (bytes_or_nil x2) (fun pl ->
                         bind (coq_Header_from_value x1) (fun u ->
                           bind (coq_ProtectedHeader_from_cbor_bstr x0)
                             (fun p -> Ok { m0_prot = p; m0_unprot = u;
                             m0_payload = pl; m0_tag = tg })))))))))

(** val coq_CoseMac0_to_value : mac0 -> value res **)

let coq_CoseMac0_to_value m =
  bind (protected_cbor_bstr m.m0_prot) (fun p ->
    bind (header_to_value m.m0_unprot) (fun u -> Ok (VArray
      (p :: (u :: ((opt_bytes_value m.m0_payload) :: ((VBytes
      m.m0_tag) :: [])))))))

(** val coq_CoseRecipient_from_value : value -> recipient res **)

let rec coq_CoseRecipient_from_value = function
| VArray a ->
  if negb
       (arity_ok (String ((Ascii (true, true, false, false, false, false,
         true, false)), (String ((Ascii (true, true, true, true, false, true,
         true, false)), (String ((Ascii (true, true, false, false, true,
         true, true, false)), (String ((Ascii (true, false, true, false,
         false, true, true, false)), (String ((Ascii (false, true, false,
         false, true, false, true, false)), (String ((Ascii (true, false,
         true, false, false, true, true, false)), (String ((Ascii (true,
         true, false, false, false, true, true, false)), (String ((Ascii
         (true, false, false, true, false, true, true, false)), (String
         ((Ascii (false, false, false, false, true, true, true, false)),
         (String ((Ascii (true, false, false, true, false, true, true,
         false)), (String ((Ascii (true, false, true, false, false, true,
         true, false)), (String ((Ascii (false, true, true, true, false,
         true, true, false)), (String ((Ascii (false, false, true, false,
         true, true, true, false)), EmptyString))))))))))))))))))))))))))
         (Datatypes.length a))
  then Err EUnexpected
  else (match a with
        | [] -> Panic
        | x0 :: l ->
          (match l with
           | [] -> Panic
           | x1 :: l0 ->
             (match l0 with
              | [] -> Panic
              | x2 :: rest ->
                bind
                  (if Nat.eqb (Datatypes.length a) (S (S (S (S O))))
                   then (match rest with
                         | [] -> Panic
                         | x3 :: _ ->
                           (match x3 with
                            | VArray ra ->
                              mapM coq_CoseRecipient_from_value ra
                            | _ -> Err EUnexpected))
                   else Ok []) (fun rs ->
                  bind (bytes_or_nil x2) (fun ct ->
                    bind (coq_Header_from_value x1) (fun u ->
                      bind (coq_ProtectedHeader_from_cbor_bstr x0) (fun p ->
                        Ok { r_prot = p; r_unprot = u; r_ct = ct;
                        r_recipients = rs })))))))
| _ -> Err EUnexpected

(** val coq_CoseRecipient_to_value : recipient -> value res **)

let rec coq_CoseRecipient_to_value r =
  bind (protected_cbor_bstr r.r_prot) (fun p ->
    bind (header_to_value r.r_unprot) (fun u ->
      bind
        (if isnil r.r_recipients
         then Ok []
         else bind (mapM coq_CoseRecipient_to_value r.r_recipients)
                (fun rs -> Ok ((VArray rs) :: []))) (fun tail -> Ok (VArray
        (app (p :: (u :: ((opt_bytes_value r.r_ct) :: []))) tail)))))

(** val recipients_from_value : value -> recipient list res **)

let recipients_from_value v =
  bind (try_as_array v) (fun ra -> mapM coq_CoseRecipient_from_value ra)

(** val coq_CoseMac_from_value : value -> mac res **)

let coq_CoseMac_from_value v =
  bind (try_as_array v) (fun a ->
    if negb
         (arity_ok (String ((Ascii (true, true, false, false, false, false,
           true, false)), (String ((Ascii (true, true, true, true, false,
           true, true, false)), (String ((Ascii (true, true, false, false,
           true, true, true, false)), (String ((Ascii (true, false, true,
           false, false, true, true, false)), (String ((Ascii (true, false,
           true, true, false, false, true, false)), (String ((Ascii (true,
           false, false, false, false, true, true, false)), (String ((Ascii
           (true, true, false, false, false, true, true, false)),
           EmptyString)))))))))))))) (Datatypes.length a))
    then Err EUnexpected
    else (match a with
          | [] -> Panic
          | x0 :: l ->
            (match l with
             | [] -> Panic
             | x1 :: l0 ->
               (match l0 with
                | [] -> Panic
                | x2 :: l1 ->
                  (match l1 with
                   | [] -> Panic
                   | x3 :: l2 ->
                     (match l2 with
                      | [] -> Panic
                      | x4 :: _ ->
                        bind (recipients_from_value x4) (fun rs ->
                          bind (try_as_bytes x3) (fun tg ->
                            bind (bytes_or_nil x2) (fun pl ->
                              bind (coq_Header_from_value x1) (fun u ->
                                bind (coq_ProtectedHeader_from_cbor_bstr x0)
                                  (fun p -> Ok { mc_prot = p; mc_unprot = u;
                                  mc_payload = pl; mc_tag = tg;
                                  mc_recipients = rs })))))))))))

(** val coq_CoseMac_to_value : mac -> value res **)

let coq_CoseMac_to_value m =
  bind (protected_cbor_bstr m.mc_prot) (fun p ->
    bind (header_to_value m.mc_unprot) (fun u ->
      bind (mapM coq_CoseRecipient_to_value m.mc_recipients) (fun rs -> Ok
        (VArray (p :: (u :: ((opt_bytes_value m.mc_payload) :: ((VBytes
        m.mc_tag) :: ((VArray rs) :: [])))))))))

(** val coq_CoseEncrypt_from_value : value -> encrypt res **)

let coq_CoseEncrypt_from_value v =
  bind (try_as_array v) (fun a ->
    if negb
         (arity_ok (String ((Ascii (true, true, false, false, false, false,
           true, false)), (String ((Ascii (true, true, true, true, false,
           true, true, false)), (String ((Ascii (true, true, false, false,
           true, true, true, false)), (String ((Ascii (true, false, true,
           false, false, true, true, false)), (String ((Ascii (true, false,
           true, false, false, false, true, false)), (String ((Ascii (false,
           true, true, true, false, true, true, false)), (String ((Ascii
           (true, true, false, false, false, true, true, false)), (String
           ((Ascii (false, true, false, false, true, true, true, false)),
           (String ((Ascii (true, false, false, true, true, true, true,
           false)), (String ((Ascii (false, false, false, false, true, true,
           true, false)), (String ((Ascii (false, false, true, false, true,
           true, true, false)), EmptyString))))))))))))))))))))))
           (Datatypes.length a))
    then Err EUnexpected
    else (match a with
          | [] -> Panic
          | x0 :: l ->
            (match l with
             | [] -> Panic
             | x1 :: l0 ->
               (match l0 with
                | [] -> Panic
                | x2 :: l1 ->
                  (match l1 with
                   | [] -> Panic
                   | x3 :: _ ->
                     bind (recipients_from_value x3) (fun rs ->
                       bind (bytes_or_nil x2) (fun ct ->
                         bind (coq_Header_from_value x1) (fun u ->
                           bind (coq_ProtectedHeader_from_cbor_bstr x0)
                             (fun p -> Ok { en_prot = p; en_unprot = u;
                             en_ct = ct; en_recipients = rs })))))))))

(** val coq_CoseEncrypt_to_value : encrypt -> value res **)

let coq_CoseEncrypt_to_value m =
  bind (protected_cbor_bstr m.en_prot) (fun p ->
    bind (header_to_value m.en_unprot) (fun u ->
      bind (mapM coq_CoseRecipient_to_value m.en_recipients) (fun rs -> Ok
        (VArray (p :: (u :: ((opt_bytes_value m.en_ct) :: ((VArray
        rs) :: []))))))))

(** val coq_CoseEncrypt0_from_value : value -> encrypt0 res **)

let coq_CoseEncrypt0_from_value v =
  bind (try_as_array v) (fun a ->
    if negb
         (arity_ok (String ((Ascii (true, true, false, false, false, false,
           true, false)), (String ((Ascii (true, true, true, true, false,
           true, true, false)), (String ((Ascii (true, true, false, false,
           true, true, true, false)), (String ((Ascii (true, false, true,
           false, false, true, true, false)), (String ((Ascii (true, false,
           true, false, false, false, true, false)), (String ((Ascii (false,
           true, true, true, false, true, true, false)), (String ((Ascii
           (true, true, false, false, false, true, true, false)), (String
           ((Ascii (false, true, false, false, true, true, true, false)),
           (String ((Ascii (true, false, false, true, true, true, true,
           false)), (String ((Ascii (false, false, false, false, true, true,
           true, false)), (String ((Ascii (false, false, true, false, true,
           true, true, false)), (String ((Ascii (false, false, false, false,
           true, true, false, false)), EmptyString))))))))))))))))))))))))
           (Datatypes.length a))
    then Err EUnexpected
    else (match a with
          | [] -> Panic
          | x0 :: l ->
            (match l with
             | [] -> Panic
             | x1 :: l0 ->
               (match l0 with
                | [] -> Panic
                | x2 :: _ ->
                  bind (bytes_or_nil x2) (fun ct ->
                    bind (coq_Header_from_value x1) (fun u ->
                      bind (coq_ProtectedHeader_from_cbor_bstr x0) (fun p ->
                        Ok { e0_prot = p; e0_unprot = u; e0_ct = ct })))))))

(** val coq_CoseEncrypt0_to_value : encrypt0 -> value res **)

let coq_CoseEncrypt0_to_value m =
  bind (protected_cbor_bstr m.e0_prot) (fun p ->
    bind (header_to_value m.e0_unprot) (fun u -> Ok (VArray
      (p :: (u :: ((opt_bytes_value m.e0_ct) :: []))))))

(** val unwrap_or_empty : bytes option -> bytes **)

let unwrap_or_empty = function
| Some b -> b
| None -> []

(** val coq_Sign1_tbs_data : sign1 -> bytes -> bytes res **)

let coq_Sign1_tbs_data m aad =
  sig_structure_data SigCoseSign1 m.s1_prot None aad
    (unwrap_or_empty m.s1_payload)

(** val coq_Sign1_tbs_detached_data : sign1 -> bytes -> bytes -> bytes res **)

let coq_Sign1_tbs_detached_data m payload aad =
  if issome m.s1_payload
  then Panic
  else sig_structure_data SigCoseSign1 m.s1_prot None aad payload

(** val coq_Sign_tbs_data : sign -> bytes -> signature -> bytes res **)

let coq_Sign_tbs_data m aad sg =
  sig_structure_data SigCoseSignature m.sn_prot (Some (s_prot sg)) aad
    (unwrap_or_empty m.sn_payload)

(** val coq_Sign_tbs_detached_data :
    sign -> bytes -> bytes -> signature -> bytes res **)

let coq_Sign_tbs_detached_data m payload aad sg =
  if issome m.sn_payload
  then Panic
  else sig_structure_data SigCoseSignature m.sn_prot (Some (s_prot sg)) aad
         payload

(** val coq_Mac_tbm : mac -> bytes -> bytes res **)

let coq_Mac_tbm m aad =
  match m.mc_payload with
  | Some pl -> mac_structure_data MacCoseMac m.mc_prot aad pl
  | None -> Panic

(** val coq_Mac0_tbm : mac0 -> bytes -> bytes res **)

let coq_Mac0_tbm m aad =
  match m.m0_payload with
  | Some pl -> mac_structure_data MacCoseMac0 m.m0_prot aad pl
  | None -> Panic

(** val is_recipient_context : enc_context -> bool **)

let is_recipient_context = function
| EncCoseEncrypt -> false
| EncCoseEncrypt0 -> false
| _ -> true

(** val coq_Sign1_verify_signature :
    sign1 -> bytes -> (bytes -> bytes -> 'a1) -> 'a1 res **)

let coq_Sign1_verify_signature m aad verifier =
  bind (coq_Sign1_tbs_data m aad) (fun tbs -> Ok (verifier m.s1_sig tbs))

(** val coq_Sign1_verify_detached_signature :
    sign1 -> bytes -> bytes -> (bytes -> bytes -> 'a1) -> 'a1 res **)

let coq_Sign1_verify_detached_signature m payload aad verifier =
  bind (coq_Sign1_tbs_detached_data m payload aad) (fun tbs -> Ok
    (verifier m.s1_sig tbs))

(** val coq_Sign_verify_signature :
    sign -> nat -> bytes -> (bytes -> bytes -> 'a1) -> 'a1 res **)

let coq_Sign_verify_signature m which aad verifier =
  bind (nth_res m.sn_sigs which) (fun sg ->
    bind (coq_Sign_tbs_data m aad sg) (fun tbs -> Ok
      (verifier (s_sig sg) tbs)))

(** val coq_Sign_verify_detached_signature :
    sign -> nat -> bytes -> bytes -> (bytes -> bytes -> 'a1) -> 'a1 res **)

let coq_Sign_verify_detached_signature m which payload aad verifier =
  bind (nth_res m.sn_sigs which) (fun sg ->
    bind (coq_Sign_tbs_detached_data m payload aad sg) (fun tbs -> Ok
      (verifier (s_sig sg) tbs)))

(** val coq_Mac_verify_tag :
    mac -> bytes -> (bytes -> bytes -> 'a1) -> 'a1 res **)

let coq_Mac_verify_tag m aad verify =
  bind (coq_Mac_tbm m aad) (fun tbm -> Ok (verify m.mc_tag tbm))

(** val coq_Mac0_verify_tag :
    mac0 -> bytes -> (bytes -> bytes -> 'a1) -> 'a1 res **)

let coq_Mac0_verify_tag m aad verify =
  bind (coq_Mac0_tbm m aad) (fun tbm -> Ok (verify m.m0_tag tbm))

(** val coq_Encrypt_decrypt :
    encrypt -> bytes -> (bytes -> bytes -> 'a1) -> 'a1 res **)

let coq_Encrypt_decrypt m aad cipher =
  match m.en_ct with
  | Some ct ->
    bind (enc_structure_data EncCoseEncrypt m.en_prot aad) (fun a -> Ok
      (cipher ct a))
  | None -> Panic

(** val coq_Encrypt0_decrypt :
    encrypt0 -> bytes -> (bytes -> bytes -> 'a1) -> 'a1 res **)

let coq_Encrypt0_decrypt m aad cipher =
  match m.e0_ct with
  | Some ct ->
    bind (enc_structure_data EncCoseEncrypt0 m.e0_prot aad) (fun a -> Ok
      (cipher ct a))
  | None -> Panic

(** val coq_Recipient_decrypt :
    recipient -> enc_context -> bytes -> (bytes -> bytes -> 'a1) -> 'a1 res **)

let coq_Recipient_decrypt m c aad cipher =
  match m.r_ct with
  | Some ct ->
    if negb (is_recipient_context c)
    then Panic
    else bind (enc_structure_data c m.r_prot aad) (fun a -> Ok (cipher ct a))
  | None -> Panic
