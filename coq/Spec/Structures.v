(* RFC 8152 Sig_structure (4.4), MAC_structure (6.3), Enc_structure (5.3), written from the RFC
   over the deterministic encoder of Spec/DetCbor.v.  Context strings typed in by hand. *)
From Coq Require Import List ZArith NArith Bool String.
From Coq.Strings Require Import Byte.
From Coset.Spec Require Import DetCbor.
Import ListNotations.
Open Scope string_scope.

Definition ascii_bytes (s : string) : list byte := list_byte_of_string s.

Inductive sig_ctx := Signature | Signature1 | CounterSignature.
Definition sig_ctx_string (c : sig_ctx) : string :=
  match c with Signature => "Signature" | Signature1 => "Signature1" | CounterSignature => "CounterSignature" end.

Inductive mac_ctx := MAC | MAC0.
Definition mac_ctx_string (c : mac_ctx) : string := match c with MAC => "MAC" | MAC0 => "MAC0" end.

Inductive enc_ctx := Encrypt | Encrypt0 | Enc_Recipient | Mac_Recipient | Rec_Recipient.
Definition enc_ctx_string (c : enc_ctx) : string :=
  match c with
  | Encrypt => "Encrypt" | Encrypt0 => "Encrypt0" | Enc_Recipient => "Enc_Recipient"
  | Mac_Recipient => "Mac_Recipient" | Rec_Recipient => "Rec_Recipient"
  end.

(* Sig_structure = [ context, body_protected, ? sign_protected, external_aad, payload ] *)
Definition sig_structure (c : sig_ctx) (body_protected : list byte) (sign_protected : option (list byte))
           (external_aad payload : list byte) : list byte :=
  det_array ([det_tstr (ascii_bytes (sig_ctx_string c)); det_bstr body_protected]
             ++ match sign_protected with Some s => [det_bstr s] | None => [] end
             ++ [det_bstr external_aad; det_bstr payload]).

(* MAC_structure = [ context, protected, external_aad, payload ] *)
Definition mac_structure (c : mac_ctx) (protected external_aad payload : list byte) : list byte :=
  det_array [det_tstr (ascii_bytes (mac_ctx_string c)); det_bstr protected; det_bstr external_aad; det_bstr payload].

(* Enc_structure = [ context, protected, external_aad ] *)
Definition enc_structure (c : enc_ctx) (protected external_aad : list byte) : list byte :=
  det_array [det_tstr (ascii_bytes (enc_ctx_string c)); det_bstr protected; det_bstr external_aad].
