(* CDDL-shaped acceptors for the eight message structures (RFC 8152 sections 4.1, 4.2, 5.1, 5.2,
   6.1, 6.2) and for COSE_KDF_Context (section 11.2).  Parameters: the acceptor of a header map
   and the parser of a non-empty protected byte string (both specified in Spec/Accept.v). *)
From Coq Require Import List ZArith NArith Bool String.
From Coq.Strings Require Import Byte.
From Coset.Model Require Import Prelude Cbor Label Msg Cwt Context.
From Coset.Spec Require Import Accept.
Import ListNotations.
Open Scope Z_scope.

Section Msg.
  Variable hdr_acc : value -> option header.          (* header_map *)
  Variable prot_parse : bytes -> option header.       (* bstr .cbor header_map, non-empty *)

  (* empty_or_serialized_map *)
  Definition protected_spec (v : value) : option protected :=
    match v with
    | VBytes [] => Some (mkProtected (Some []) header_default)
    | VBytes p => option_map (mkProtected (Some p)) (prot_parse p)
    | _ => None
    end.
  (* bstr / nil *)
  Definition bstr_or_nil (v : value) : option (option bytes) :=
    match v with VBytes b => Some (Some b) | VNull => Some None | _ => None end.
  Definition bstr (v : value) : option bytes := match v with VBytes b => Some b | _ => None end.

  (* COSE_Signature = [ Headers, signature : bstr ] *)
  Definition signature_spec (v : value) : option signature :=
    match v with
    | VArray [p; u; sg] =>
      match protected_spec p, hdr_acc u, bstr sg with
      | Some p', Some u', Some sg' => Some (mkSignature p' u' sg')
      | _, _, _ => None
      end
    | _ => None
    end.
  (* COSE_Sign1 = [ Headers, payload : bstr / nil, signature : bstr ] *)
  Definition sign1_spec (v : value) : option sign1 :=
    match v with
    | VArray [p; u; pl; sg] =>
      match protected_spec p, hdr_acc u, bstr_or_nil pl, bstr sg with
      | Some p', Some u', Some pl', Some sg' => Some (mkSign1 p' u' pl' sg')
      | _, _, _, _ => None
      end
    | _ => None
    end.
  (* COSE_Sign = [ Headers, payload : bstr / nil, signatures : [* COSE_Signature] ]
     (whether the array may be empty is left open by the property; the code accepts it) *)
  Definition sign_spec (v : value) : option sign :=
    match v with
    | VArray [p; u; pl; VArray sigs] =>
      match protected_spec p, hdr_acc u, bstr_or_nil pl, all_some (map signature_spec sigs) with
      | Some p', Some u', Some pl', Some ss => Some (mkSign p' u' pl' ss)
      | _, _, _, _ => None
      end
    | _ => None
    end.
  Definition mac0_spec (v : value) : option mac0 :=
    match v with
    | VArray [p; u; pl; tg] =>
      match protected_spec p, hdr_acc u, bstr_or_nil pl, bstr tg with
      | Some p', Some u', Some pl', Some tg' => Some (mkMac0 p' u' pl' tg')
      | _, _, _, _ => None
      end
    | _ => None
    end.
  Definition encrypt0_spec (v : value) : option encrypt0 :=
    match v with
    | VArray [p; u; ct] =>
      match protected_spec p, hdr_acc u, bstr_or_nil ct with
      | Some p', Some u', Some ct' => Some (mkEncrypt0 p' u' ct')
      | _, _, _ => None
      end
    | _ => None
    end.
  (* COSE_recipient = [ Headers, ciphertext : bstr / nil, ? recipients : [* COSE_recipient] ] *)
  Fixpoint recipient_spec (v : value) {struct v} : option recipient :=
    match v with
    | VArray [p; u; ct] =>
      match protected_spec p, hdr_acc u, bstr_or_nil ct with
      | Some p', Some u', Some ct' => Some (mkRecipient p' u' ct' [])
      | _, _, _ => None
      end
    | VArray [p; u; ct; VArray rs] =>
      match protected_spec p, hdr_acc u, bstr_or_nil ct,
            (fix go (l : list value) : option (list recipient) :=
               match l with
               | [] => Some []
               | x :: r => match recipient_spec x, go r with Some a, Some ar => Some (a :: ar) | _, _ => None end
               end) rs with
      | Some p', Some u', Some ct', Some rs' => Some (mkRecipient p' u' ct' rs')
      | _, _, _, _ => None
      end
    | _ => None
    end.
  Definition recipients_spec (v : value) : option (list recipient) :=
    match v with VArray rs => all_some (map recipient_spec rs) | _ => None end.
  Definition encrypt_spec (v : value) : option encrypt :=
    match v with
    | VArray [p; u; ct; rs] =>
      match protected_spec p, hdr_acc u, bstr_or_nil ct, recipients_spec rs with
      | Some p', Some u', Some ct', Some rs' => Some (mkEncrypt p' u' ct' rs')
      | _, _, _, _ => None
      end
    | _ => None
    end.
  Definition mac_spec (v : value) : option mac :=
    match v with
    | VArray [p; u; pl; tg; rs] =>
      match protected_spec p, hdr_acc u, bstr_or_nil pl, bstr tg, recipients_spec rs with
      | Some p', Some u', Some pl', Some tg', Some rs' => Some (mkMac p' u' pl' tg' rs')
      | _, _, _, _, _ => None
      end
    | _ => None
    end.

  (* ---------- COSE_KDF_Context ---------- *)
  Variable alg_acc : value -> option regp_label.      (* AlgorithmID : int / tstr *)
  (* PartyInfo = ( identity : bstr / nil, nonce : bstr / int / nil, other : bstr / nil ) *)
  Definition nonce_spec (v : value) : option (option nonce) :=
    match v with
    | VNull => Some None
    | VBytes b => Some (Some (NonceBytes b))
    | VInt z => if is_i64 z then Some (Some (NonceInteger z)) else None
    | _ => None
    end.
  Definition party_spec (v : value) : option party_info :=
    match v with
    | VArray [i; n; o] =>
      match bstr_or_nil i, nonce_spec n, bstr_or_nil o with
      | Some i', Some n', Some o' => Some (mkParty i' n' o')
      | _, _, _ => None
      end
    | _ => None
    end.
  (* SuppPubInfo : [ keyDataLength : uint, protected : empty_or_serialized_map, ? other : bstr ] *)
  Definition is_u64 (z : Z) : bool := (0 <=? z) && (z <? 2 ^ 64).
  Definition uint_spec (v : value) : option Z := match v with VInt z => if is_u64 z then Some z else None | _ => None end.
  Definition supp_spec (v : value) : option supp_pub_info :=
    match v with
    | VArray [l; p] =>
      match uint_spec l, protected_spec p with Some l', Some p' => Some (mkSupp l' p' None) | _, _ => None end
    | VArray [l; p; o] =>
      match uint_spec l, protected_spec p, bstr o with
      | Some l', Some p', Some o' => Some (mkSupp l' p' (Some o'))
      | _, _, _ => None
      end
    | _ => None
    end.
  (* COSE_KDF_Context = [ AlgorithmID, PartyUInfo, PartyVInfo, SuppPubInfo, * SuppPrivInfo : bstr ] *)
  Definition kdf_spec (v : value) : option kdf_context :=
    match v with
    | VArray (a :: u :: w :: s :: priv) =>
      match alg_acc a, party_spec u, party_spec w, supp_spec s, all_some (map bstr priv) with
      | Some a', Some u', Some w', Some s', Some pr => Some (mkKdf a' u' w' s' pr)
      | _, _, _, _, _ => None
      end
    | _ => None
    end.
End Msg.
