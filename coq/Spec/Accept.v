(* Declarative "accept iff" specifications in the shape of RFC 8152 section 3.1 / 7 and
   RFC 8392 section 3: order-insensitive, by lookup under each label.
   Only the *data types* of the model are shared (header, cose_key, claims ...); label numbers
   are typed in from the RFCs; "registered" is relative to registry tables passed as parameters
   (the theorems instantiate them with the tables found in the source; C17 ties those to IANA). *)
From Coq Require Import List ZArith NArith Bool String.
From Coq.Strings Require Import Byte.
From Coset.Model Require Import Prelude Cbor Label Msg Key Cwt.
Import ListNotations.
Open Scope Z_scope.

Definition is_i64 (z : Z) : bool := (- 2 ^ 63 <=? z) && (z <? 2 ^ 63).
Definition private_use (z : Z) : bool := z <? -65536.

(* map keys: integers in the i64 range, or text *)
Definition key_label (k : value) : option label :=
  match k with
  | VInt z => if is_i64 z then Some (LInt z) else None
  | VText t => Some (LText t)
  | _ => None
  end.
Fixpoint key_labels (m : list (value * value)) : option (list (label * value)) :=
  match m with
  | [] => Some []
  | (k, v) :: r =>
    match key_label k, key_labels r with
    | Some l, Some lr => Some ((l, v) :: lr)
    | _, _ => None
    end
  end.

Fixpoint label_in (l : label) (ls : list label) : bool :=
  match ls with [] => false | x :: r => label_eqb l x || label_in l r end.
Fixpoint distinct (ls : list label) : bool :=
  match ls with [] => true | x :: r => negb (label_in x r) && distinct r end.

Fixpoint find (l : label) (lm : list (label * value)) : option value :=
  match lm with
  | [] => None
  | (l', v) :: r => if label_eqb l l' then Some v else find l r
  end.

Fixpoint all_some {A} (l : list (option A)) : option (list A) :=
  match l with
  | [] => Some []
  | Some a :: r => match all_some r with Some ar => Some (a :: ar) | None => None end
  | None :: _ => None
  end.

(* an absent parameter is fine (default d); a present one must have its shape *)
Definition field {A} (o : option value) (shape : value -> option A) (d : A) : option A :=
  match o with None => Some d | Some v => shape v end.

Section Registries.
  (* the integers each registry assigns *)
  Variable alg_reg : Z -> bool.
  Variable header_param_reg : Z -> bool.
  Variable content_format_reg : Z -> bool.
  Variable key_type_reg : Z -> bool.
  Variable key_op_reg : Z -> bool.
  Variable claim_reg : Z -> bool.

  (* "int / tstr", registered or private use *)
  Definition alg_shape (v : value) : option regp_label :=
    match v with
    | VInt z => if is_i64 z then (if alg_reg z then Some (PAssigned z) else if private_use z then Some (PPrivate z) else None) else None
    | VText t => Some (PText t)
    | _ => None
    end.
  Definition reg_shape (registered : Z -> bool) (v : value) : option reg_label :=
    match v with
    | VInt z => if is_i64 z && registered z then Some (RAssigned z) else None
    | VText t => Some (RText t)
    | _ => None
    end.
  Definition nonempty_bstr (v : value) : option bytes :=
    match v with VBytes (b :: r) => Some (b :: r) | _ => None end.

  (* content type: registered CoAP content format, or "type/subtype" text *)
  Definition media_type_text (t : bytes) : bool :=
    negb (isnil t) && negb (ws_prefix t) && negb (ws_suffix t) && Nat.eqb (count_slash t) 1.
  Definition content_type_shape (v : value) : option reg_label :=
    match v with
    | VText t => if media_type_text t then Some (RText t) else None
    | _ => reg_shape content_format_reg v
    end.
  (* crit: [+ label] *)
  Definition crit_shape (v : value) : option (list reg_label) :=
    match v with
    | VArray (x :: r) => all_some (map (reg_shape header_param_reg) (x :: r))
    | _ => None
    end.

  Section Header.
    (* acceptor for one COSE_Signature (defined together with the message structures) *)
    Variable sig_acc : value -> option signature.

    (* COSE_Signature / [+ COSE_Signature] *)
    Definition countersig_shape (v : value) : option (list signature) :=
      match v with
      | VArray (VBytes b :: r) => match sig_acc v with Some s => Some [s] | None => None end
      | VArray (VArray a :: r) => all_some (map sig_acc (VArray a :: r))
      | _ => None
      end.

    Definition std_header_label (l : label) : bool :=
      match l with LInt z => (1 <=? z) && (z <=? 7) | LText _ => false end.

    Definition header_spec (v : value) : option header :=
      match v with
      | VMap m =>
        match key_labels m with
        | None => None
        | Some lm =>
          if negb (distinct (map fst lm)) then None else
          match field (find (LInt 1) lm) (fun x => option_map Some (alg_shape x)) None,
                field (find (LInt 2) lm) crit_shape [],
                field (find (LInt 3) lm) (fun x => option_map Some (content_type_shape x)) None,
                field (find (LInt 4) lm) nonempty_bstr [],
                field (find (LInt 5) lm) nonempty_bstr [],
                field (find (LInt 6) lm) nonempty_bstr [],
                field (find (LInt 7) lm) countersig_shape [] with
          | Some a, Some c, Some ct, Some kid, Some iv, Some piv, Some cs =>
            if negb (isnil iv) && negb (isnil piv) then None
            else Some (mkHeader a c ct kid iv piv cs (filter (fun e => negb (std_header_label (fst e))) lm))
          | _, _, _, _, _, _, _ => None
          end
        end
      | _ => None
      end.
  End Header.

  (* ---------- COSE_Key (RFC 8152 section 7) ---------- *)
  Definition std_key_label (l : label) : bool :=
    match l with LInt z => (1 <=? z) && (z <=? 5) | LText _ => false end.

  (* key_ops: [+ (tstr / int)], pairwise distinct, collected as a set (sorted by the label order) *)
  Fixpoint reg_in (x : reg_label) (s : list reg_label) : bool :=
    match s with [] => false | y :: r => reg_eqb x y || reg_in x r end.
  Fixpoint reg_distinct (s : list reg_label) : bool :=
    match s with [] => true | x :: r => negb (reg_in x r) && reg_distinct r end.
  Definition key_ops_shape (v : value) : option (list reg_label) :=
    match v with
    | VArray (x :: r) =>
      match all_some (map (reg_shape key_op_reg) (x :: r)) with
      | Some ops => if reg_distinct ops then Some (sort_by reg_cmp ops) else None
      | None => None
      end
    | _ => None
    end.

  Definition key_spec (v : value) : option cose_key :=
    match v with
    | VMap m =>
      match key_labels m with
      | None => None
      | Some lm =>
        if negb (distinct (map fst lm)) then None else
        match find (LInt 1) lm with
        | None => None                          (* kty is mandatory *)
        | Some kv =>
          match reg_shape key_type_reg kv,
                field (find (LInt 2) lm) nonempty_bstr [],
                field (find (LInt 3) lm) (fun x => option_map Some (alg_shape x)) None,
                field (find (LInt 4) lm) key_ops_shape [],
                field (find (LInt 5) lm) nonempty_bstr [] with
          | Some kty, Some kid, Some a, Some ops, Some biv =>
            if reg_eqb kty (RAssigned 0) then None  (* Reserved *)
            else Some (mkKey kty kid a ops biv (filter (fun e => negb (std_key_label (fst e))) lm))
          | _, _, _, _, _ => None
          end
        end
      end
    | _ => None
    end.

  Definition keyset_spec (v : value) : option (list cose_key) :=
    match v with VArray l => all_some (map key_spec l) | _ => None end.

  (* ---------- CWT claims set (RFC 8392 section 3) ---------- *)
  Definition claim_name (k : value) : option regp_label :=
    match k with
    | VInt z => if is_i64 z then (if claim_reg z then Some (PAssigned z) else if private_use z then Some (PPrivate z) else None) else None
    | VText t => Some (PText t)
    | _ => None
    end.
  Fixpoint claim_names (m : list (value * value)) : option (list (regp_label * value)) :=
    match m with
    | [] => Some []
    | (k, v) :: r =>
      match claim_name k, claim_names r with
      | Some l, Some lr => Some ((l, v) :: lr)
      | _, _ => None
      end
    end.
  Fixpoint regp_in (x : regp_label) (s : list regp_label) : bool :=
    match s with [] => false | y :: r => regp_eqb x y || regp_in x r end.
  Fixpoint regp_distinct (s : list regp_label) : bool :=
    match s with [] => true | x :: r => negb (regp_in x r) && regp_distinct r end.
  Fixpoint find_claim (l : regp_label) (lm : list (regp_label * value)) : option value :=
    match lm with
    | [] => None
    | (l', v) :: r => if regp_eqb l l' then Some v else find_claim l r
    end.
  Definition text_shape (v : value) : option (option bytes) := match v with VText t => Some (Some t) | _ => None end.
  Definition bstr_shape (v : value) : option (option bytes) := match v with VBytes b => Some (Some b) | _ => None end.
  Definition time_shape (v : value) : option (option timestamp) :=
    match v with
    | VInt z => if is_i64 z then Some (Some (WholeSeconds z)) else None
    | VFloat f => Some (Some (FractionalSeconds f))
    | _ => None
    end.
  Definition std_claim (l : regp_label) : bool :=
    match l with PAssigned z => (1 <=? z) && (z <=? 7) | _ => false end.

  Definition claims_spec (v : value) : option claims :=
    match v with
    | VMap m =>
      match claim_names m with
      | None => None
      | Some lm =>
        if negb (regp_distinct (map fst lm)) then None else
        match field (find_claim (PAssigned 1) lm) text_shape None,
              field (find_claim (PAssigned 2) lm) text_shape None,
              field (find_claim (PAssigned 3) lm) text_shape None,
              field (find_claim (PAssigned 4) lm) time_shape None,
              field (find_claim (PAssigned 5) lm) time_shape None,
              field (find_claim (PAssigned 6) lm) time_shape None,
              field (find_claim (PAssigned 7) lm) bstr_shape None with
        | Some i, Some s, Some a, Some e, Some n, Some t, Some c =>
          Some (mkClaims i s a e n t c (filter (fun x => negb (std_claim (fst x))) lm))
        | _, _, _, _, _, _, _ => None
        end
      end
    | _ => None
    end.
End Registries.
