(* RFC 8949 section 4.2.1 core deterministic encoding, written from the RFC (independent of
   the model's serialiser), and the two map-key orders. *)
From Coq Require Import List ZArith NArith Bool.
From Coq.Strings Require Import Byte.
Import ListNotations.
Open Scope N_scope.

Definition octet (n : N) : byte := match Byte.of_N (n mod 256) with Some b => b | None => x00 end.

(* n as k big-endian octets *)
Fixpoint big_endian (k : nat) (n : N) : list byte :=
  match k with O => [] | S k' => octet (n / 256 ^ N.of_nat k') :: big_endian k' n end.

(* "the shortest form": argument in the initial byte up to 23, else 1, 2, 4, 8 following octets *)
Definition det_head (major arg : N) : list byte :=
  if arg <? 24 then [octet (32 * major + arg)]
  else if arg <? 2 ^ 8 then octet (32 * major + 24) :: big_endian 1 arg
  else if arg <? 2 ^ 16 then octet (32 * major + 25) :: big_endian 2 arg
  else if arg <? 2 ^ 32 then octet (32 * major + 26) :: big_endian 4 arg
  else octet (32 * major + 27) :: big_endian 8 arg.

Definition det_int (z : Z) : list byte :=
  if (0 <=? z)%Z then det_head 0 (Z.to_N z) else det_head 1 (Z.to_N (- z - 1)).
Definition det_bstr (b : list byte) : list byte := det_head 2 (N.of_nat (length b)) ++ b.
Definition det_tstr (t : list byte) : list byte := det_head 3 (N.of_nat (length t)) ++ t.
Definition det_array (items : list (list byte)) : list byte :=
  det_head 4 (N.of_nat (length items)) ++ concat items.

(* bytewise lexicographic order (RFC 8949 4.2.1) *)
Fixpoint lex (a b : list byte) : comparison :=
  match a, b with
  | [], [] => Eq
  | [], _ :: _ => Lt
  | _ :: _, [] => Gt
  | x :: a', y :: b' =>
    match N.compare (Byte.to_N x) (Byte.to_N y) with Eq => lex a' b' | c => c end
  end.
(* length first, then bytewise (RFC 7049 3.9 / RFC 8949 4.2.3) *)
Definition length_first (a b : list byte) : comparison :=
  match Nat.compare (length a) (length b) with Eq => lex a b | c => c end.
