(* Reference copy of the IANA registries (COSE, CBOR tags, CoAP content formats, CWT claims) as
   published: RFC 8152 / RFC 9053 (algorithms, header and key parameters, key types, curves,
   key operations), RFC 8230 (RSA), RFC 8778 (HSS-LMS), RFC 8812 (secp256k1 and the RS algorithms), RFC 9360
   (x5 parameters), RFC 8613 / 9338 (kid context, countersignature v2), RFC 7252 and the CoRE parameters
   registry (content formats), RFC 8392 / 8747 / 9200 / 9334-drafts (CWT claims), RFC 8949 (tags).
   Frozen snapshot reviewed by hand on 2026-09-30; it is NOT regenerated from /repo and the
   spec side never imports Generated.v.  A name the source adds that is missing here makes the
   inclusion theorem of C17 fail (reported, not silently accepted). *)
From Coq Require Import List ZArith String.
Import ListNotations.
Open Scope Z_scope. Open Scope string_scope.

Definition ref_HeaderParameter : list (string * Z) :=
  [("Reserved", 0);
   ("Alg", 1);
   ("Crit", 2);
   ("ContentType", 3);
   ("Kid", 4);
   ("Iv", 5);
   ("PartialIv", 6);
   ("CounterSignature", 7);
   ("CounterSignature0", 9);
   ("KidContext", 10);
   ("X5Bag", 32);
   ("X5Chain", 33);
   ("X5T", 34);
   ("X5U", 35);
   ("CuphNonce", 256);
   ("CuphOwnerPubKey", 257)].
Definition ref_HeaderAlgorithmParameter : list (string * Z) :=
  [("PartyVOther", (-26));
   ("PartyVNonce", (-25));
   ("PartyVIdentity", (-24));
   ("PartyUOther", (-23));
   ("PartyUNonce", (-22));
   ("PartyUIdentity", (-21));
   ("Salt", (-20));
   ("StaticKeyId", (-3));
   ("StaticKey", (-2));
   ("EphemeralKey", (-1))].
Definition ref_Algorithm : list (string * Z) :=
  [("RS1", (-65535));
   ("WalnutDSA", (-260));
   ("RS512", (-259));
   ("RS384", (-258));
   ("RS256", (-257));
   ("ES256K", (-47));
   ("HSS_LMS", (-46));
   ("SHAKE256", (-45));
   ("SHA_512", (-44));
   ("SHA_384", (-43));
   ("RSAES_OAEP_SHA_512", (-42));
   ("RSAES_OAEP_SHA_256", (-41));
   ("RSAES_OAEP_RFC_8017_default", (-40));
   ("PS512", (-39));
   ("PS384", (-38));
   ("PS256", (-37));
   ("ES512", (-36));
   ("ES384", (-35));
   ("ECDH_SS_A256KW", (-34));
   ("ECDH_SS_A192KW", (-33));
   ("ECDH_SS_A128KW", (-32));
   ("ECDH_ES_A256KW", (-31));
   ("ECDH_ES_A192KW", (-30));
   ("ECDH_ES_A128KW", (-29));
   ("ECDH_SS_HKDF_512", (-28));
   ("ECDH_SS_HKDF_256", (-27));
   ("ECDH_ES_HKDF_512", (-26));
   ("ECDH_ES_HKDF_256", (-25));
   ("SHAKE128", (-18));
   ("SHA_512_256", (-17));
   ("SHA_256", (-16));
   ("SHA_256_64", (-15));
   ("SHA_1", (-14));
   ("Direct_HKDF_AES_256", (-13));
   ("Direct_HKDF_AES_128", (-12));
   ("Direct_HKDF_SHA_512", (-11));
   ("Direct_HKDF_SHA_256", (-10));
   ("EdDSA", (-8));
   ("ES256", (-7));
   ("Direct", (-6));
   ("A256KW", (-5));
   ("A192KW", (-4));
   ("A128KW", (-3));
   ("Reserved", 0);
   ("A128GCM", 1);
   ("A192GCM", 2);
   ("A256GCM", 3);
   ("HMAC_256_64", 4);
   ("HMAC_256_256", 5);
   ("HMAC_384_384", 6);
   ("HMAC_512_512", 7);
   ("AES_CCM_16_64_128", 10);
   ("AES_CCM_16_64_256", 11);
   ("AES_CCM_64_64_128", 12);
   ("AES_CCM_64_64_256", 13);
   ("AES_MAC_128_64", 14);
   ("AES_MAC_256_64", 15);
   ("ChaCha20Poly1305", 24);
   ("AES_MAC_128_128", 25);
   ("AES_MAC_256_128", 26);
   ("AES_CCM_16_128_128", 30);
   ("AES_CCM_16_128_256", 31);
   ("AES_CCM_64_128_128", 32);
   ("AES_CCM_64_128_256", 33);
   ("IV_GENERATION", 34)].
Definition ref_KeyParameter : list (string * Z) :=
  [("Reserved", 0);
   ("Kty", 1);
   ("Kid", 2);
   ("Alg", 3);
   ("KeyOps", 4);
   ("BaseIv", 5)].
Definition ref_OkpKeyParameter : list (string * Z) :=
  [("Crv", (-1));
   ("X", (-2));
   ("D", (-4))].
Definition ref_Ec2KeyParameter : list (string * Z) :=
  [("Crv", (-1));
   ("X", (-2));
   ("Y", (-3));
   ("D", (-4))].
Definition ref_RsaKeyParameter : list (string * Z) :=
  [("N", (-1));
   ("E", (-2));
   ("D", (-3));
   ("P", (-4));
   ("Q", (-5));
   ("DP", (-6));
   ("DQ", (-7));
   ("QInv", (-8));
   ("Other", (-9));
   ("RI", (-10));
   ("DI", (-11));
   ("TI", (-12))].
Definition ref_SymmetricKeyParameter : list (string * Z) :=
  [("K", (-1))].
Definition ref_HssLmsKeyParameter : list (string * Z) :=
  [("Pub", (-1))].
Definition ref_WalnutDsaKeyParameter : list (string * Z) :=
  [("N", (-1));
   ("Q", (-2));
   ("TValues", (-3));
   ("Matrix1", (-4));
   ("Permutation1", (-5));
   ("Matrix2", (-6))].
Definition ref_KeyType : list (string * Z) :=
  [("Reserved", 0);
   ("OKP", 1);
   ("EC2", 2);
   ("RSA", 3);
   ("Symmetric", 4);
   ("HSS_LMS", 5);
   ("WalnutDSA", 6)].
Definition ref_EllipticCurve : list (string * Z) :=
  [("Reserved", 0);
   ("P_256", 1);
   ("P_384", 2);
   ("P_521", 3);
   ("X25519", 4);
   ("X448", 5);
   ("Ed25519", 6);
   ("Ed448", 7);
   ("Secp256k1", 8)].
Definition ref_KeyOperation : list (string * Z) :=
  [("Sign", 1);
   ("Verify", 2);
   ("Encrypt", 3);
   ("Decrypt", 4);
   ("WrapKey", 5);
   ("UnwrapKey", 6);
   ("DeriveKey", 7);
   ("DeriveBits", 8);
   ("MacCreate", 9);
   ("MacVerify", 10)].
Definition ref_CborTag : list (string * Z) :=
  [("CoseEncrypt0", 16);
   ("CoseMac0", 17);
   ("CoseSign1", 18);
   ("Cwt", 61);
   ("CoseEncrypt", 96);
   ("CoseMac", 97);
   ("CoseSign", 98)].
Definition ref_CoapContentFormat : list (string * Z) :=
  [("TextPlainUtf8", 0);
   ("CoseEncrypt0", 16);
   ("CoseMac0", 17);
   ("CoseSign1", 18);
   ("LinkFormat", 40);
   ("Xml", 41);
   ("OctetStream", 42);
   ("Exi", 47);
   ("Json", 50);
   ("JsonPatchJson", 51);
   ("MergePatchJson", 52);
   ("Cbor", 60);
   ("Cwt", 61);
   ("MultipartCore", 62);
   ("CborSeq", 63);
   ("CoseEncrypt", 96);
   ("CoseMac", 97);
   ("CoseSign", 98);
   ("CoseKey", 101);
   ("CoseKeySet", 102);
   ("SenmlJson", 110);
   ("SensmlJson", 111);
   ("SenmlCbor", 112);
   ("SensmlCbor", 113);
   ("SenmlExi", 114);
   ("SensmlExi", 115);
   ("CoapGroupJson", 256);
   ("DotsCbor", 271);
   ("Pkcs7MimeSmimeTypeServerGeneratedKey", 280);
   ("Pkcs7MimeSmimeTypeCertsOnly", 281);
   ("Pkcs7MimeSmimeTypeCmcRequest", 282);
   ("Pkcs7MimeSmimeTypeCmcResponse", 283);
   ("Pkcs8", 284);
   ("Csrattrs", 285);
   ("Pkcs10", 286);
   ("PkixCert", 287);
   ("SenmlXml", 310);
   ("SensmlXml", 311);
   ("SenmlEtchJson", 320);
   ("SenmlEtchCbor", 322);
   ("TdJson", 432);
   ("VndOcfCbor", 10000);
   ("Oscore", 10001);
   ("JsonDeflate", 11050);
   ("CborDeflate", 11060);
   ("VndOmaLwm2mTlv", 11542);
   ("VndOmaLwm2mJson", 11543);
   ("VndOmaLwm2mCbor", 11544)].
Definition ref_CwtClaimName : list (string * Z) :=
  [("Hcert", (-260));
   ("EuphNonce", (-259));
   ("EatMaroePrefix", (-258));
   ("EatFido", (-257));
   ("Reserved", 0);
   ("Iss", 1);
   ("Sub", 2);
   ("Aud", 3);
   ("Exp", 4);
   ("Nbf", 5);
   ("Iat", 6);
   ("Cti", 7);
   ("Cnf", 8);
   ("Scope", 9);
   ("AceProfile", 38);
   ("CNonce", 39);
   ("Exi", 40)].
Definition ref_registries : list (string * list (string * Z)) :=
  [("HeaderParameter", ref_HeaderParameter);
   ("HeaderAlgorithmParameter", ref_HeaderAlgorithmParameter);
   ("Algorithm", ref_Algorithm);
   ("KeyParameter", ref_KeyParameter);
   ("OkpKeyParameter", ref_OkpKeyParameter);
   ("Ec2KeyParameter", ref_Ec2KeyParameter);
   ("RsaKeyParameter", ref_RsaKeyParameter);
   ("SymmetricKeyParameter", ref_SymmetricKeyParameter);
   ("HssLmsKeyParameter", ref_HssLmsKeyParameter);
   ("WalnutDsaKeyParameter", ref_WalnutDsaKeyParameter);
   ("KeyType", ref_KeyType);
   ("EllipticCurve", ref_EllipticCurve);
   ("KeyOperation", ref_KeyOperation);
   ("CborTag", ref_CborTag);
   ("CoapContentFormat", ref_CoapContentFormat);
   ("CwtClaimName", ref_CwtClaimName)].
Definition ref_private_bound : Z := -65536.  (* 'less than -65536: reserved for private use' *)
Definition ref_private_registries : list string := ["HeaderParameter"; "Algorithm"; "EllipticCurve"; "CwtClaimName"].
