open Ascii
open BinNums
open Cbor
open Datatypes
open Iana
open Label
open List
open Msg
open Prelude
open String

type timestamp =
| WholeSeconds of coq_Z
| FractionalSeconds of coq_N

val coq_Timestamp_from_value : value -> timestamp res

val coq_Timestamp_to_value : timestamp -> value

type claims = { c_iss : bytes option; c_sub : bytes option;
                c_aud : bytes option; c_exp : timestamp option;
                c_nbf : timestamp option; c_iat : timestamp option;
                c_cti : bytes option; c_rest : (regp_label * value) list }

val claims_default : claims

val is_claim : regp_label -> coq_Z -> bool

val claims_step : claims -> regp_label -> value -> claims res

val claims_loop :
  (value * value) list -> claims -> regp_label list -> claims res

val coq_ClaimsSet_from_value : value -> claims res

val coq_ClaimsSet_to_value : claims -> value res
