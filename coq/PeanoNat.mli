open Datatypes

module Nat :
 sig
  val eqb : nat -> nat -> bool

  val compare : nat -> nat -> comparison
 end
