open Ascii
open BinNums
open Cbor
open Datatypes
open Iana
open Label
open List
open Msg
open PeanoNat
open Prelude
open String

type nonce =
| NonceBytes of bytes
| NonceInteger of coq_Z

type party_info = { pi_identity : bytes option; pi_nonce : nonce option;
                    pi_other : bytes option }

(** val party_default : party_info **)

let party_default =
  { pi_identity = None; pi_nonce = None; pi_other = None }

(** val coq_PartyInfo_from_value : value -> party_info res **)

let coq_PartyInfo_from_value v =
  bind (try_as_array v) (fun a ->
    if negb
         (arity_ok (String ((Ascii (false, false, false, false, true, false,
           true, false)), (String ((Ascii (true, false, false, false, false,
           true, true, false)), (String ((Ascii (false, true, false, false,
           true, true, true, false)), (String ((Ascii (false, false, true,
           false, true, true, true, false)), (String ((Ascii (true, false,
           false, true, true, true, true, false)), (String ((Ascii (true,
           false, false, true, false, false, true, false)), (String ((Ascii
           (false, true, true, true, false, true, true, false)), (String
           ((Ascii (false, true, true, false, false, true, true, false)),
           (String ((Ascii (true, true, true, true, false, true, true,
           false)), EmptyString)))))))))))))))))) (Datatypes.length a))
    then Err EUnexpected
    else (match a with
          | [] -> Panic
          | x0 :: l ->
            (match l with
             | [] -> Panic
             | x1 :: l0 ->
               (match l0 with
                | [] -> Panic
                | x2 :: _ ->
                  bind (bytes_or_nil x2) (fun other ->
                    bind
                      (match x1 with
                       | VInt u ->
                         bind (to_i64_res u) (fun z -> Ok (Some (NonceInteger
                           z)))
                       | VBytes b -> Ok (Some (NonceBytes b))
                       | VNull -> Ok None
                       | _ -> Err EUnexpected) (fun nn ->
                      bind (bytes_or_nil x0) (fun id -> Ok { pi_identity =
                        id; pi_nonce = nn; pi_other = other })))))))

(** val coq_PartyInfo_to_value : party_info -> value res **)

let coq_PartyInfo_to_value p =
  Ok (VArray
    ((opt_bytes_value p.pi_identity) :: ((match p.pi_nonce with
                                          | Some n ->
                                            (match n with
                                             | NonceBytes b -> VBytes b
                                             | NonceInteger i -> VInt i)
                                          | None -> VNull) :: ((opt_bytes_value
                                                                 p.pi_other) :: []))))

type supp_pub_info = { sp_len : coq_Z; sp_prot : protected;
                       sp_other : bytes option }

(** val supp_default : supp_pub_info **)

let supp_default =
  { sp_len = Z0; sp_prot = protected_default; sp_other = None }

(** val coq_SuppPubInfo_from_value : value -> supp_pub_info res **)

let coq_SuppPubInfo_from_value v =
  bind (try_as_array v) (fun a ->
    if negb
         (arity_ok (String ((Ascii (true, true, false, false, true, false,
           true, false)), (String ((Ascii (true, false, true, false, true,
           true, true, false)), (String ((Ascii (false, false, false, false,
           true, true, true, false)), (String ((Ascii (false, false, false,
           false, true, true, true, false)), (String ((Ascii (false, false,
           false, false, true, false, true, false)), (String ((Ascii (true,
           false, true, false, true, true, true, false)), (String ((Ascii
           (false, true, false, false, false, true, true, false)), (String
           ((Ascii (true, false, false, true, false, false, true, false)),
           (String ((Ascii (false, true, true, true, false, true, true,
           false)), (String ((Ascii (false, true, true, false, false, true,
           true, false)), (String ((Ascii (true, true, true, true, false,
           true, true, false)), EmptyString))))))))))))))))))))))
           (Datatypes.length a))
    then Err EUnexpected
    else (match a with
          | [] -> Panic
          | x0 :: l ->
            (match l with
             | [] -> Panic
             | x1 :: rest ->
               bind
                 (if Nat.eqb (Datatypes.length a) (S (S (S O)))
                  then (match rest with
                        | [] -> Panic
                        | x2 :: _ ->
                          bind (try_as_bytes x2) (fun b -> Ok (Some b)))
                  else Ok None) (fun other ->
                 bind (coq_ProtectedHeader_from_cbor_bstr x1) (fun p ->
                   bind (try_as_integer x0) (fun i ->
                     bind (to_u64_res i) (fun n -> Ok { sp_len = n; sp_prot =
                       p; sp_other = other })))))))

(** val coq_SuppPubInfo_to_value : supp_pub_info -> value res **)

let coq_SuppPubInfo_to_value s =
  bind (protected_cbor_bstr s.sp_prot) (fun p -> Ok (VArray
    (app ((VInt s.sp_len) :: (p :: []))
      (match s.sp_other with
       | Some o -> (VBytes o) :: []
       | None -> []))))

type kdf_context = { kc_alg : regp_label; kc_u : party_info;
                     kc_v : party_info; kc_pub : supp_pub_info;
                     kc_priv : bytes list }

(** val coq_ALG_RESERVED : regp_label **)

let coq_ALG_RESERVED =
  PAssigned
    (enum_const (String ((Ascii (true, false, false, false, false, false,
      true, false)), (String ((Ascii (false, false, true, true, false, true,
      true, false)), (String ((Ascii (true, true, true, false, false, true,
      true, false)), (String ((Ascii (true, true, true, true, false, true,
      true, false)), (String ((Ascii (false, true, false, false, true, true,
      true, false)), (String ((Ascii (true, false, false, true, false, true,
      true, false)), (String ((Ascii (false, false, true, false, true, true,
      true, false)), (String ((Ascii (false, false, false, true, false, true,
      true, false)), (String ((Ascii (true, false, true, true, false, true,
      true, false)), EmptyString)))))))))))))))))) (String ((Ascii (false,
      true, false, false, true, false, true, false)), (String ((Ascii (true,
      false, true, false, false, true, true, false)), (String ((Ascii (true,
      true, false, false, true, true, true, false)), (String ((Ascii (true,
      false, true, false, false, true, true, false)), (String ((Ascii (false,
      true, false, false, true, true, true, false)), (String ((Ascii (false,
      true, true, false, true, true, true, false)), (String ((Ascii (true,
      false, true, false, false, true, true, false)), (String ((Ascii (false,
      false, true, false, false, true, true, false)),
      EmptyString)))))))))))))))))

(** val kdf_default : kdf_context **)

let kdf_default =
  { kc_alg = coq_ALG_RESERVED; kc_u = party_default; kc_v = party_default;
    kc_pub = supp_default; kc_priv = [] }

(** val coq_CoseKdfContext_from_value : value -> kdf_context res **)

let coq_CoseKdfContext_from_value v =
  bind (try_as_array v) (fun a ->
    if negb
         (arity_ok (String ((Ascii (true, true, false, false, false, false,
           true, false)), (String ((Ascii (true, true, true, true, false,
           true, true, false)), (String ((Ascii (true, true, false, false,
           true, true, true, false)), (String ((Ascii (true, false, true,
           false, false, true, true, false)), (String ((Ascii (true, true,
           false, true, false, false, true, false)), (String ((Ascii (false,
           false, true, false, false, true, true, false)), (String ((Ascii
           (false, true, true, false, false, true, true, false)), (String
           ((Ascii (true, true, false, false, false, false, true, false)),
           (String ((Ascii (true, true, true, true, false, true, true,
           false)), (String ((Ascii (false, true, true, true, false, true,
           true, false)), (String ((Ascii (false, false, true, false, true,
           true, true, false)), (String ((Ascii (true, false, true, false,
           false, true, true, false)), (String ((Ascii (false, false, false,
           true, true, true, true, false)), (String ((Ascii (false, false,
           true, false, true, true, true, false)),
           EmptyString)))))))))))))))))))))))))))) (Datatypes.length a))
    then Err EUnexpected
    else (match a with
          | [] -> Panic
          | x0 :: l ->
            (match l with
             | [] -> Panic
             | x1 :: l0 ->
               (match l0 with
                | [] -> Panic
                | x2 :: l1 ->
                  (match l1 with
                   | [] -> Panic
                   | x3 :: rest ->
                     bind (mapM try_as_bytes rest) (fun priv ->
                       bind (coq_SuppPubInfo_from_value x3) (fun pub ->
                         bind (coq_PartyInfo_from_value x2) (fun pv ->
                           bind (coq_PartyInfo_from_value x1) (fun pu ->
                             bind
                               (regp_from_value (String ((Ascii (true, false,
                                 false, false, false, false, true, false)),
                                 (String ((Ascii (false, false, true, true,
                                 false, true, true, false)), (String ((Ascii
                                 (true, true, true, false, false, true, true,
                                 false)), (String ((Ascii (true, true, true,
                                 true, false, true, true, false)), (String
                                 ((Ascii (false, true, false, false, true,
                                 true, true, false)), (String ((Ascii (true,
                                 false, false, true, false, true, true,
                                 false)), (String ((Ascii (false, false,
                                 true, false, true, true, true, false)),
                                 (String ((Ascii (false, false, false, true,
                                 false, true, true, false)), (String ((Ascii
                                 (true, false, true, true, false, true, true,
                                 false)), EmptyString)))))))))))))))))) x0)
                               (fun alg -> Ok { kc_alg = alg; kc_u = pu;
                               kc_v = pv; kc_pub = pub; kc_priv = priv }))))))))))

(** val coq_CoseKdfContext_to_value : kdf_context -> value res **)

let coq_CoseKdfContext_to_value k =
  bind (coq_PartyInfo_to_value k.kc_u) (fun u ->
    bind (coq_PartyInfo_to_value k.kc_v) (fun v ->
      bind (coq_SuppPubInfo_to_value k.kc_pub) (fun p -> Ok (VArray
        (app ((regp_to_value k.kc_alg) :: (u :: (v :: (p :: []))))
          (map (fun x -> VBytes x) k.kc_priv))))))
