open Ascii
open BinNat
open BinNums
open Byte
open Cbor
open Context
open Cwt
open Datatypes
open HexString
open Key
open Label
open List
open Msg
open Prelude
open String

val hexdigit : coq_N -> byte

val hex_of_bytes : bytes -> bytes

val is_nan : coq_N -> bool

val sep_concat : bytes -> bytes list -> bytes

val show_value : value -> bytes

val show_err : err -> bytes

val show_res : ('a1 -> bytes) -> 'a1 res -> bytes

val d_opt : ('a1 -> value) -> 'a1 option -> value

val d_reg : reg_label -> value

val d_regp : regp_label -> value

val d_label : label -> value

val d_pairs : (label * value) list -> value

val d_header : header -> value

val d_signature : signature -> value

val d_protected : protected -> value

val d_sign1 : sign1 -> value

val d_sign : sign -> value

val d_mac0 : mac0 -> value

val d_recipient : recipient -> value

val d_mac : mac -> value

val d_encrypt : encrypt -> value

val d_encrypt0 : encrypt0 -> value

val d_key : cose_key -> value

val d_keyset : cose_key list -> value

val d_timestamp : timestamp -> value

val d_claims : claims -> value

val d_nonce : nonce -> value

val d_party : party_info -> value

val d_supp : supp_pub_info -> value

val d_kdf : kdf_context -> value

val bad : 'a1 res

val o_opt : (value -> 'a1 res) -> value -> 'a1 option res

val o_bytes : value -> bytes res

val o_text : value -> bytes res

val o_int : value -> coq_Z res

val o_reg : value -> reg_label res

val o_regp : value -> regp_label res

val o_label : value -> label res

val o_list : (value -> 'a1 res) -> value -> 'a1 list res

val o_pair : value -> (label * value) res

val o_header : value -> header res

val o_protected : value -> protected res

val o_signature : value -> signature res

val o_sign1 : value -> sign1 res

val o_sign : value -> sign res

val o_mac0 : value -> mac0 res

val o_recipient : value -> recipient res

val o_mac : value -> mac res

val o_encrypt : value -> encrypt res

val o_encrypt0 : value -> encrypt0 res

val o_key : value -> cose_key res

val o_timestamp : value -> timestamp res

val o_claim_pair : value -> (regp_label * value) res

val o_claims : value -> claims res

val o_nonce : value -> nonce res

val o_party : value -> party_info res

val o_supp : value -> supp_pub_info res

val o_kdf : value -> kdf_context res
