open BinNat
open BinNums
open Cbor
open Label
open Msg
open Prelude

(** val from_slice : (value -> 'a1 res) -> bytes -> 'a1 res **)

let from_slice from_value b =
  bind (read_to_value b) from_value

(** val to_vec : ('a1 -> value res) -> 'a1 -> bytes res **)

let to_vec to_value x =
  bind (to_value x) (fun v -> Ok (ser v))

(** val from_tagged_slice :
    (value -> 'a1 res) -> coq_N -> bytes -> 'a1 res **)

let from_tagged_slice from_value tAG b =
  bind (read_to_value b) (fun v ->
    match v with
    | VTag (t, inner) ->
      if N.eqb t tAG then from_value inner else Err EUnexpected
    | _ -> Err EUnexpected)

(** val to_tagged_vec : ('a1 -> value res) -> coq_N -> 'a1 -> bytes res **)

let to_tagged_vec to_value tAG x =
  bind (to_value x) (fun v -> Ok (ser (VTag (tAG, v))))

(** val coq_Label_to_value : label -> value res **)

let coq_Label_to_value l =
  Ok (label_to_value l)
