open Ascii
open BinNat
open BinNums
open Byte
open Cbor
open Context
open Cwt
open Datatypes
open HexString
open Key
open Label
open List
open Msg
open Prelude
open String

(** val hexdigit : coq_N -> byte **)

let hexdigit n =
  n2b
    (if N.ltb n (Npos (Coq_xO (Coq_xI (Coq_xO Coq_xH))))
     then N.add (Npos (Coq_xO (Coq_xO (Coq_xO (Coq_xO (Coq_xI Coq_xH)))))) n
     else N.add (Npos (Coq_xI (Coq_xI (Coq_xI (Coq_xO (Coq_xI (Coq_xO
            Coq_xH))))))) n)

(** val hex_of_bytes : bytes -> bytes **)

let rec hex_of_bytes = function
| [] -> []
| b :: r ->
  (hexdigit (N.div (b2n b) (Npos (Coq_xO (Coq_xO (Coq_xO (Coq_xO Coq_xH))))))) :: (
    (hexdigit
      (N.modulo (b2n b) (Npos (Coq_xO (Coq_xO (Coq_xO (Coq_xO Coq_xH))))))) :: 
    (hex_of_bytes r))

(** val is_nan : coq_N -> bool **)

let is_nan x =
  (&&)
    (N.eqb
      (N.modulo
        (N.div x (Npos (Coq_xO (Coq_xO (Coq_xO (Coq_xO (Coq_xO (Coq_xO
          (Coq_xO (Coq_xO (Coq_xO (Coq_xO (Coq_xO (Coq_xO (Coq_xO (Coq_xO
          (Coq_xO (Coq_xO (Coq_xO (Coq_xO (Coq_xO (Coq_xO (Coq_xO (Coq_xO
          (Coq_xO (Coq_xO (Coq_xO (Coq_xO (Coq_xO (Coq_xO (Coq_xO (Coq_xO
          (Coq_xO (Coq_xO (Coq_xO (Coq_xO (Coq_xO (Coq_xO (Coq_xO (Coq_xO
          (Coq_xO (Coq_xO (Coq_xO (Coq_xO (Coq_xO (Coq_xO (Coq_xO (Coq_xO
          (Coq_xO (Coq_xO (Coq_xO (Coq_xO (Coq_xO (Coq_xO
          Coq_xH)))))))))))))))))))))))))))))))))))))))))))))))))))))) (Npos
        (Coq_xO (Coq_xO (Coq_xO (Coq_xO (Coq_xO (Coq_xO (Coq_xO (Coq_xO
        (Coq_xO (Coq_xO (Coq_xO Coq_xH))))))))))))) (Npos (Coq_xI (Coq_xI
      (Coq_xI (Coq_xI (Coq_xI (Coq_xI (Coq_xI (Coq_xI (Coq_xI (Coq_xI
      Coq_xH))))))))))))
    (negb
      (N.eqb
        (N.modulo x (Npos (Coq_xO (Coq_xO (Coq_xO (Coq_xO (Coq_xO (Coq_xO
          (Coq_xO (Coq_xO (Coq_xO (Coq_xO (Coq_xO (Coq_xO (Coq_xO (Coq_xO
          (Coq_xO (Coq_xO (Coq_xO (Coq_xO (Coq_xO (Coq_xO (Coq_xO (Coq_xO
          (Coq_xO (Coq_xO (Coq_xO (Coq_xO (Coq_xO (Coq_xO (Coq_xO (Coq_xO
          (Coq_xO (Coq_xO (Coq_xO (Coq_xO (Coq_xO (Coq_xO (Coq_xO (Coq_xO
          (Coq_xO (Coq_xO (Coq_xO (Coq_xO (Coq_xO (Coq_xO (Coq_xO (Coq_xO
          (Coq_xO (Coq_xO (Coq_xO (Coq_xO (Coq_xO (Coq_xO
          Coq_xH)))))))))))))))))))))))))))))))))))))))))))))))))))))) N0))

(** val sep_concat : bytes -> bytes list -> bytes **)

let rec sep_concat sep = function
| [] -> []
| x :: r ->
  (match r with
   | [] -> x
   | _ :: _ -> app x (app sep (sep_concat sep r)))

(** val show_value : value -> bytes **)

let rec show_value = function
| VInt z ->
  app
    (s2b (String ((Ascii (true, false, false, true, false, true, true,
      false)), EmptyString))) (s2b (of_Z z))
| VBytes b ->
  app
    (s2b (String ((Ascii (false, false, false, true, false, true, true,
      false)), EmptyString))) (hex_of_bytes b)
| VFloat x ->
  if is_nan x
  then s2b (String ((Ascii (false, true, true, false, false, true, true,
         false)), (String ((Ascii (false, true, true, true, false, false,
         true, false)), (String ((Ascii (true, false, false, false, false,
         true, true, false)), (String ((Ascii (false, true, true, true,
         false, false, true, false)), EmptyString))))))))
  else app
         (s2b (String ((Ascii (false, true, true, false, false, true, true,
           false)), EmptyString))) (s2b (of_N x))
| VText t ->
  app
    (s2b (String ((Ascii (false, false, true, false, true, true, true,
      false)), EmptyString))) (hex_of_bytes t)
| VBool b ->
  if b
  then s2b (String ((Ascii (false, false, true, false, true, false, true,
         false)), EmptyString))
  else s2b (String ((Ascii (false, true, true, false, false, false, true,
         false)), EmptyString))
| VNull ->
  s2b (String ((Ascii (false, true, true, true, false, false, true, false)),
    EmptyString))
| VTag (t, v0) ->
  app
    (s2b (String ((Ascii (true, true, true, false, false, true, true,
      false)), EmptyString)))
    (app (s2b (of_N t))
      (app
        (s2b (String ((Ascii (false, false, false, true, false, true, false,
          false)), EmptyString)))
        (app (show_value v0)
          (s2b (String ((Ascii (true, false, false, true, false, true, false,
            false)), EmptyString))))))
| VArray l ->
  app
    (s2b (String ((Ascii (true, true, false, true, true, false, true,
      false)), EmptyString)))
    (app
      (sep_concat
        (s2b (String ((Ascii (false, false, true, true, false, true, false,
          false)), EmptyString))) (map show_value l))
      (s2b (String ((Ascii (true, false, true, true, true, false, true,
        false)), EmptyString))))
| VMap m ->
  app
    (s2b (String ((Ascii (true, true, false, true, true, true, true, false)),
      EmptyString)))
    (app
      (sep_concat
        (s2b (String ((Ascii (false, false, true, true, false, true, false,
          false)), EmptyString)))
        (map (fun kv ->
          app (show_value (fst kv))
            (app
              (s2b (String ((Ascii (false, true, false, true, true, true,
                false, false)), EmptyString))) (show_value (snd kv)))) m))
      (s2b (String ((Ascii (true, false, true, true, true, true, true,
        false)), EmptyString))))

(** val show_err : err -> bytes **)

let show_err e =
  s2b
    (match e with
     | EDecode ->
       String ((Ascii (true, false, true, false, false, true, true, false)),
         (String ((Ascii (false, true, false, false, true, true, true,
         false)), (String ((Ascii (false, true, false, false, true, true,
         true, false)), (String ((Ascii (false, true, false, true, true,
         true, false, false)), (String ((Ascii (false, false, true, false,
         false, false, true, false)), (String ((Ascii (true, false, true,
         false, false, true, true, false)), (String ((Ascii (true, true,
         false, false, false, true, true, false)), (String ((Ascii (true,
         true, true, true, false, true, true, false)), (String ((Ascii
         (false, false, true, false, false, true, true, false)), (String
         ((Ascii (true, false, true, false, false, true, true, false)),
         EmptyString)))))))))))))))))))
     | EDup ->
       String ((Ascii (true, false, true, false, false, true, true, false)),
         (String ((Ascii (false, true, false, false, true, true, true,
         false)), (String ((Ascii (false, true, false, false, true, true,
         true, false)), (String ((Ascii (false, true, false, true, true,
         true, false, false)), (String ((Ascii (false, false, true, false,
         false, false, true, false)), (String ((Ascii (true, false, true,
         false, true, true, true, false)), (String ((Ascii (false, false,
         false, false, true, true, true, false)), EmptyString)))))))))))))
     | EEncode ->
       String ((Ascii (true, false, true, false, false, true, true, false)),
         (String ((Ascii (false, true, false, false, true, true, true,
         false)), (String ((Ascii (false, true, false, false, true, true,
         true, false)), (String ((Ascii (false, true, false, true, true,
         true, false, false)), (String ((Ascii (true, false, true, false,
         false, false, true, false)), (String ((Ascii (false, true, true,
         true, false, true, true, false)), (String ((Ascii (true, true,
         false, false, false, true, true, false)), (String ((Ascii (true,
         true, true, true, false, true, true, false)), (String ((Ascii
         (false, false, true, false, false, true, true, false)), (String
         ((Ascii (true, false, true, false, false, true, true, false)),
         EmptyString)))))))))))))))))))
     | EExtra ->
       String ((Ascii (true, false, true, false, false, true, true, false)),
         (String ((Ascii (false, true, false, false, true, true, true,
         false)), (String ((Ascii (false, true, false, false, true, true,
         true, false)), (String ((Ascii (false, true, false, true, true,
         true, false, false)), (String ((Ascii (true, false, true, false,
         false, false, true, false)), (String ((Ascii (false, false, false,
         true, true, true, true, false)), (String ((Ascii (false, false,
         true, false, true, true, true, false)), (String ((Ascii (false,
         true, false, false, true, true, true, false)), (String ((Ascii
         (true, false, false, false, false, true, true, false)),
         EmptyString)))))))))))))))))
     | ERange ->
       String ((Ascii (true, false, true, false, false, true, true, false)),
         (String ((Ascii (false, true, false, false, true, true, true,
         false)), (String ((Ascii (false, true, false, false, true, true,
         true, false)), (String ((Ascii (false, true, false, true, true,
         true, false, false)), (String ((Ascii (false, true, false, false,
         true, false, true, false)), (String ((Ascii (true, false, false,
         false, false, true, true, false)), (String ((Ascii (false, true,
         true, true, false, true, true, false)), (String ((Ascii (true, true,
         true, false, false, true, true, false)), (String ((Ascii (true,
         false, true, false, false, true, true, false)),
         EmptyString)))))))))))))))))
     | EUnexpected ->
       String ((Ascii (true, false, true, false, false, true, true, false)),
         (String ((Ascii (false, true, false, false, true, true, true,
         false)), (String ((Ascii (false, true, false, false, true, true,
         true, false)), (String ((Ascii (false, true, false, true, true,
         true, false, false)), (String ((Ascii (true, false, true, false,
         true, false, true, false)), (String ((Ascii (false, true, true,
         true, false, true, true, false)), (String ((Ascii (true, false,
         true, false, false, true, true, false)), (String ((Ascii (false,
         false, false, true, true, true, true, false)), (String ((Ascii
         (false, false, false, false, true, true, true, false)), (String
         ((Ascii (true, false, true, false, false, true, true, false)),
         (String ((Ascii (true, true, false, false, false, true, true,
         false)), (String ((Ascii (false, false, true, false, true, true,
         true, false)), (String ((Ascii (true, false, true, false, false,
         true, true, false)), (String ((Ascii (false, false, true, false,
         false, true, true, false)), EmptyString)))))))))))))))))))))))))))
     | EUnreg ->
       String ((Ascii (true, false, true, false, false, true, true, false)),
         (String ((Ascii (false, true, false, false, true, true, true,
         false)), (String ((Ascii (false, true, false, false, true, true,
         true, false)), (String ((Ascii (false, true, false, true, true,
         true, false, false)), (String ((Ascii (true, false, true, false,
         true, false, true, false)), (String ((Ascii (false, true, true,
         true, false, true, true, false)), (String ((Ascii (false, true,
         false, false, true, true, true, false)), (String ((Ascii (true,
         false, true, false, false, true, true, false)), (String ((Ascii
         (true, true, true, false, false, true, true, false)),
         EmptyString)))))))))))))))))
     | EUnregNonPriv ->
       String ((Ascii (true, false, true, false, false, true, true, false)),
         (String ((Ascii (false, true, false, false, true, true, true,
         false)), (String ((Ascii (false, true, false, false, true, true,
         true, false)), (String ((Ascii (false, true, false, true, true,
         true, false, false)), (String ((Ascii (true, false, true, false,
         true, false, true, false)), (String ((Ascii (false, true, true,
         true, false, true, true, false)), (String ((Ascii (false, true,
         false, false, true, true, true, false)), (String ((Ascii (true,
         false, true, false, false, true, true, false)), (String ((Ascii
         (true, true, true, false, false, true, true, false)), (String
         ((Ascii (false, true, true, true, false, false, true, false)),
         (String ((Ascii (true, true, true, true, false, true, true, false)),
         (String ((Ascii (false, true, true, true, false, true, true,
         false)), (String ((Ascii (false, false, false, false, true, false,
         true, false)), (String ((Ascii (false, true, false, false, true,
         true, true, false)), (String ((Ascii (true, false, false, true,
         false, true, true, false)), (String ((Ascii (false, true, true,
         false, true, true, true, false)),
         EmptyString))))))))))))))))))))))))))))))))

(** val show_res : ('a1 -> bytes) -> 'a1 res -> bytes **)

let show_res f = function
| Ok a ->
  app
    (s2b (String ((Ascii (true, true, true, true, false, true, true, false)),
      (String ((Ascii (true, true, false, true, false, true, true, false)),
      (String ((Ascii (false, false, false, false, false, true, false,
      false)), EmptyString))))))) (f a)
| Err e -> show_err e
| Panic ->
  s2b (String ((Ascii (false, false, false, false, true, true, true, false)),
    (String ((Ascii (true, false, false, false, false, true, true, false)),
    (String ((Ascii (false, true, true, true, false, true, true, false)),
    (String ((Ascii (true, false, false, true, false, true, true, false)),
    (String ((Ascii (true, true, false, false, false, true, true, false)),
    EmptyString))))))))))
| OutOfFuel ->
  s2b (String ((Ascii (true, true, true, true, false, true, true, false)),
    (String ((Ascii (true, false, true, false, true, true, true, false)),
    (String ((Ascii (false, false, true, false, true, true, true, false)),
    (String ((Ascii (true, true, true, true, false, true, true, false)),
    (String ((Ascii (false, true, true, false, false, true, true, false)),
    (String ((Ascii (false, true, true, false, false, true, true, false)),
    (String ((Ascii (true, false, true, false, true, true, true, false)),
    (String ((Ascii (true, false, true, false, false, true, true, false)),
    (String ((Ascii (false, false, true, true, false, true, true, false)),
    EmptyString))))))))))))))))))

(** val d_opt : ('a1 -> value) -> 'a1 option -> value **)

let d_opt f = function
| Some a -> f a
| None -> VNull

(** val d_reg : reg_label -> value **)

let d_reg = function
| RAssigned z -> VArray ((VInt (Zpos Coq_xH)) :: ((VInt z) :: []))
| RText t -> VArray ((VInt (Zpos (Coq_xO Coq_xH))) :: ((VText t) :: []))

(** val d_regp : regp_label -> value **)

let d_regp = function
| PPrivate z -> VArray ((VInt Z0) :: ((VInt z) :: []))
| PAssigned z -> VArray ((VInt (Zpos Coq_xH)) :: ((VInt z) :: []))
| PText t -> VArray ((VInt (Zpos (Coq_xO Coq_xH))) :: ((VText t) :: []))

(** val d_label : label -> value **)

let d_label =
  label_to_value

(** val d_pairs : (label * value) list -> value **)

let d_pairs l =
  VArray (map (fun p -> VArray ((d_label (fst p)) :: ((snd p) :: []))) l)

(** val d_header : header -> value **)

let rec d_header h =
  VArray ((d_opt d_regp (h_alg h)) :: ((VArray
    (map d_reg (h_crit h))) :: ((d_opt d_reg (h_ctype h)) :: ((VBytes
    (h_kid h)) :: ((VBytes (h_iv h)) :: ((VBytes (h_piv h)) :: ((VArray
    (map d_signature (h_csigs h))) :: ((d_pairs (h_rest h)) :: []))))))))

(** val d_signature : signature -> value **)

and d_signature s =
  VArray ((d_protected (s_prot s)) :: ((d_header (s_unprot s)) :: ((VBytes
    (s_sig s)) :: [])))

(** val d_protected : protected -> value **)

and d_protected p =
  VArray
    ((d_opt (fun x -> VBytes x) (p_orig p)) :: ((d_header (p_hdr p)) :: []))

(** val d_sign1 : sign1 -> value **)

let d_sign1 m =
  VArray
    ((d_protected m.s1_prot) :: ((d_header m.s1_unprot) :: ((d_opt (fun x ->
                                                              VBytes x)
                                                              m.s1_payload) :: ((VBytes
    m.s1_sig) :: []))))

(** val d_sign : sign -> value **)

let d_sign m =
  VArray
    ((d_protected m.sn_prot) :: ((d_header m.sn_unprot) :: ((d_opt (fun x ->
                                                              VBytes x)
                                                              m.sn_payload) :: ((VArray
    (map d_signature m.sn_sigs)) :: []))))

(** val d_mac0 : mac0 -> value **)

let d_mac0 m =
  VArray
    ((d_protected m.m0_prot) :: ((d_header m.m0_unprot) :: ((d_opt (fun x ->
                                                              VBytes x)
                                                              m.m0_payload) :: ((VBytes
    m.m0_tag) :: []))))

(** val d_recipient : recipient -> value **)

let rec d_recipient r =
  VArray
    ((d_protected r.r_prot) :: ((d_header r.r_unprot) :: ((d_opt (fun x ->
                                                            VBytes x) r.r_ct) :: ((VArray
    (map d_recipient r.r_recipients)) :: []))))

(** val d_mac : mac -> value **)

let d_mac m =
  VArray
    ((d_protected m.mc_prot) :: ((d_header m.mc_unprot) :: ((d_opt (fun x ->
                                                              VBytes x)
                                                              m.mc_payload) :: ((VBytes
    m.mc_tag) :: ((VArray (map d_recipient m.mc_recipients)) :: [])))))

(** val d_encrypt : encrypt -> value **)

let d_encrypt m =
  VArray
    ((d_protected m.en_prot) :: ((d_header m.en_unprot) :: ((d_opt (fun x ->
                                                              VBytes x)
                                                              m.en_ct) :: ((VArray
    (map d_recipient m.en_recipients)) :: []))))

(** val d_encrypt0 : encrypt0 -> value **)

let d_encrypt0 m =
  VArray
    ((d_protected m.e0_prot) :: ((d_header m.e0_unprot) :: ((d_opt (fun x ->
                                                              VBytes x)
                                                              m.e0_ct) :: [])))

(** val d_key : cose_key -> value **)

let d_key k =
  VArray ((d_reg k.k_kty) :: ((VBytes
    k.k_kid) :: ((d_opt d_regp k.k_alg) :: ((VArray
    (map d_reg k.k_ops)) :: ((VBytes
    k.k_base_iv) :: ((d_pairs k.k_params) :: []))))))

(** val d_keyset : cose_key list -> value **)

let d_keyset ks =
  VArray (map d_key ks)

(** val d_timestamp : timestamp -> value **)

let d_timestamp = function
| WholeSeconds z -> VArray ((VInt Z0) :: ((VInt z) :: []))
| FractionalSeconds f -> VArray ((VInt (Zpos Coq_xH)) :: ((VFloat f) :: []))

(** val d_claims : claims -> value **)

let d_claims c =
  VArray
    ((d_opt (fun x -> VText x) c.c_iss) :: ((d_opt (fun x -> VText x) c.c_sub) :: (
    (d_opt (fun x -> VText x) c.c_aud) :: ((d_opt d_timestamp c.c_exp) :: (
    (d_opt d_timestamp c.c_nbf) :: ((d_opt d_timestamp c.c_iat) :: ((d_opt
                                                                    (fun x ->
                                                                    VBytes x)
                                                                    c.c_cti) :: ((VArray
    (map (fun p -> VArray ((d_regp (fst p)) :: ((snd p) :: []))) c.c_rest)) :: []))))))))

(** val d_nonce : nonce -> value **)

let d_nonce = function
| NonceBytes b -> VBytes b
| NonceInteger z -> VInt z

(** val d_party : party_info -> value **)

let d_party p =
  VArray
    ((d_opt (fun x -> VBytes x) p.pi_identity) :: ((d_opt d_nonce p.pi_nonce) :: (
    (d_opt (fun x -> VBytes x) p.pi_other) :: [])))

(** val d_supp : supp_pub_info -> value **)

let d_supp s =
  VArray ((VInt
    s.sp_len) :: ((d_protected s.sp_prot) :: ((d_opt (fun x -> VBytes x)
                                                s.sp_other) :: [])))

(** val d_kdf : kdf_context -> value **)

let d_kdf k =
  VArray
    ((d_regp k.kc_alg) :: ((d_party k.kc_u) :: ((d_party k.kc_v) :: (
    (d_supp k.kc_pub) :: ((VArray
    (map (fun x -> VBytes x) k.kc_priv)) :: [])))))

(** val bad : 'a1 res **)

let bad =
  Err EUnexpected

(** val o_opt : (value -> 'a1 res) -> value -> 'a1 option res **)

let o_opt f v = match v with
| VNull -> Ok None
| _ -> bind (f v) (fun a -> Ok (Some a))

(** val o_bytes : value -> bytes res **)

let o_bytes = function
| VBytes b -> Ok b
| _ -> bad

(** val o_text : value -> bytes res **)

let o_text = function
| VText b -> Ok b
| _ -> bad

(** val o_int : value -> coq_Z res **)

let o_int = function
| VInt z -> Ok z
| _ -> bad

(** val o_reg : value -> reg_label res **)

let o_reg = function
| VArray l ->
  (match l with
   | [] -> bad
   | v0 :: l0 ->
     (match v0 with
      | VInt z0 ->
        (match z0 with
         | Zpos p ->
           (match p with
            | Coq_xI _ -> bad
            | Coq_xO p0 ->
              (match p0 with
               | Coq_xH ->
                 (match l0 with
                  | [] -> bad
                  | v1 :: l1 ->
                    (match v1 with
                     | VText t ->
                       (match l1 with
                        | [] -> Ok (RText t)
                        | _ :: _ -> bad)
                     | _ -> bad))
               | _ -> bad)
            | Coq_xH ->
              (match l0 with
               | [] -> bad
               | v1 :: l1 ->
                 (match v1 with
                  | VInt z ->
                    (match l1 with
                     | [] -> Ok (RAssigned z)
                     | _ :: _ -> bad)
                  | _ -> bad)))
         | _ -> bad)
      | _ -> bad))
| _ -> bad

(** val o_regp : value -> regp_label res **)

let o_regp = function
| VArray l ->
  (match l with
   | [] -> bad
   | v0 :: l0 ->
     (match v0 with
      | VInt z0 ->
        (match z0 with
         | Z0 ->
           (match l0 with
            | [] -> bad
            | v1 :: l1 ->
              (match v1 with
               | VInt z ->
                 (match l1 with
                  | [] -> Ok (PPrivate z)
                  | _ :: _ -> bad)
               | _ -> bad))
         | Zpos p ->
           (match p with
            | Coq_xI _ -> bad
            | Coq_xO p0 ->
              (match p0 with
               | Coq_xH ->
                 (match l0 with
                  | [] -> bad
                  | v1 :: l1 ->
                    (match v1 with
                     | VText t ->
                       (match l1 with
                        | [] -> Ok (PText t)
                        | _ :: _ -> bad)
                     | _ -> bad))
               | _ -> bad)
            | Coq_xH ->
              (match l0 with
               | [] -> bad
               | v1 :: l1 ->
                 (match v1 with
                  | VInt z ->
                    (match l1 with
                     | [] -> Ok (PAssigned z)
                     | _ :: _ -> bad)
                  | _ -> bad)))
         | Zneg _ -> bad)
      | _ -> bad))
| _ -> bad

(** val o_label : value -> label res **)

let o_label = function
| VInt z -> Ok (LInt z)
| VText t -> Ok (LText t)
| _ -> bad

(** val o_list : (value -> 'a1 res) -> value -> 'a1 list res **)

let o_list f = function
| VArray l -> mapM f l
| _ -> bad

(** val o_pair : value -> (label * value) res **)

let o_pair = function
| VArray l ->
  (match l with
   | [] -> bad
   | k :: l0 ->
     (match l0 with
      | [] -> bad
      | x :: l1 ->
        (match l1 with
         | [] -> bind (o_label k) (fun l2 -> Ok (l2, x))
         | _ :: _ -> bad)))
| _ -> bad

(** val o_header : value -> header res **)

let rec o_header = function
| VArray l ->
  (match l with
   | [] -> bad
   | a :: l0 ->
     (match l0 with
      | [] -> bad
      | c :: l1 ->
        (match l1 with
         | [] -> bad
         | ct :: l2 ->
           (match l2 with
            | [] -> bad
            | kid :: l3 ->
              (match l3 with
               | [] -> bad
               | iv :: l4 ->
                 (match l4 with
                  | [] -> bad
                  | piv :: l5 ->
                    (match l5 with
                     | [] -> bad
                     | cs :: l6 ->
                       (match l6 with
                        | [] -> bad
                        | rest :: l7 ->
                          (match l7 with
                           | [] ->
                             bind (o_opt o_regp a) (fun a' ->
                               bind (o_list o_reg c) (fun c' ->
                                 bind (o_opt o_reg ct) (fun ct' ->
                                   bind (o_bytes kid) (fun kid' ->
                                     bind (o_bytes iv) (fun iv' ->
                                       bind (o_bytes piv) (fun piv' ->
                                         bind
                                           (match cs with
                                            | VArray l8 ->
                                              mapM (fun s ->
                                                match s with
                                                | VArray l9 ->
                                                  (match l9 with
                                                   | [] -> bad
                                                   | p :: l10 ->
                                                     (match l10 with
                                                      | [] -> bad
                                                      | u :: l11 ->
                                                        (match l11 with
                                                         | [] -> bad
                                                         | sg :: l12 ->
                                                           (match l12 with
                                                            | [] ->
                                                              bind
                                                                (match p with
                                                                 | VArray l13 ->
                                                                   (match l13 with
                                                                    | [] ->
                                                                    bad
                                                                    | od :: l14 ->
                                                                    (match l14 with
                                                                    | [] ->
                                                                    bad
                                                                    | h :: l15 ->
                                                                    (match l15 with
                                                                    | [] ->
                                                                    bind
                                                                    (o_opt
                                                                    o_bytes
                                                                    od)
                                                                    (fun od' ->
                                                                    bind
                                                                    (o_header
                                                                    h)
                                                                    (fun h' ->
                                                                    Ok
                                                                    (Coq_mkProtected
                                                                    (od',
                                                                    h'))))
                                                                    | _ :: _ ->
                                                                    bad)))
                                                                 | _ -> bad)
                                                                (fun p' ->
                                                                bind
                                                                  (o_header u)
                                                                  (fun u' ->
                                                                  bind
                                                                    (o_bytes
                                                                    sg)
                                                                    (fun sg' ->
                                                                    Ok
                                                                    (Coq_mkSignature
                                                                    (p', u',
                                                                    sg')))))
                                                            | _ :: _ -> bad))))
                                                | _ -> bad) l8
                                            | _ -> bad) (fun cs' ->
                                           bind (o_list o_pair rest)
                                             (fun rest' -> Ok (Coq_mkHeader
                                             (a', c', ct', kid', iv', piv',
                                             cs', rest'))))))))))
                           | _ :: _ -> bad)))))))))
| _ -> bad

(** val o_protected : value -> protected res **)

let o_protected = function
| VArray l ->
  (match l with
   | [] -> bad
   | od :: l0 ->
     (match l0 with
      | [] -> bad
      | h :: l1 ->
        (match l1 with
         | [] ->
           bind (o_opt o_bytes od) (fun od' ->
             bind (o_header h) (fun h' -> Ok (Coq_mkProtected (od', h'))))
         | _ :: _ -> bad)))
| _ -> bad

(** val o_signature : value -> signature res **)

let o_signature = function
| VArray l ->
  (match l with
   | [] -> bad
   | p :: l0 ->
     (match l0 with
      | [] -> bad
      | u :: l1 ->
        (match l1 with
         | [] -> bad
         | sg :: l2 ->
           (match l2 with
            | [] ->
              bind (o_protected p) (fun p' ->
                bind (o_header u) (fun u' ->
                  bind (o_bytes sg) (fun sg' -> Ok (Coq_mkSignature (p', u',
                    sg')))))
            | _ :: _ -> bad))))
| _ -> bad

(** val o_sign1 : value -> sign1 res **)

let o_sign1 = function
| VArray l ->
  (match l with
   | [] -> bad
   | p :: l0 ->
     (match l0 with
      | [] -> bad
      | u :: l1 ->
        (match l1 with
         | [] -> bad
         | pl :: l2 ->
           (match l2 with
            | [] -> bad
            | sg :: l3 ->
              (match l3 with
               | [] ->
                 bind (o_protected p) (fun p' ->
                   bind (o_header u) (fun u' ->
                     bind (o_opt o_bytes pl) (fun pl' ->
                       bind (o_bytes sg) (fun sg' -> Ok { s1_prot = p';
                         s1_unprot = u'; s1_payload = pl'; s1_sig = sg' }))))
               | _ :: _ -> bad)))))
| _ -> bad

(** val o_sign : value -> sign res **)

let o_sign = function
| VArray l ->
  (match l with
   | [] -> bad
   | p :: l0 ->
     (match l0 with
      | [] -> bad
      | u :: l1 ->
        (match l1 with
         | [] -> bad
         | pl :: l2 ->
           (match l2 with
            | [] -> bad
            | sg :: l3 ->
              (match l3 with
               | [] ->
                 bind (o_protected p) (fun p' ->
                   bind (o_header u) (fun u' ->
                     bind (o_opt o_bytes pl) (fun pl' ->
                       bind (o_list o_signature sg) (fun sg' -> Ok
                         { sn_prot = p'; sn_unprot = u'; sn_payload = pl';
                         sn_sigs = sg' }))))
               | _ :: _ -> bad)))))
| _ -> bad

(** val o_mac0 : value -> mac0 res **)

let o_mac0 = function
| VArray l ->
  (match l with
   | [] -> bad
   | p :: l0 ->
     (match l0 with
      | [] -> bad
      | u :: l1 ->
        (match l1 with
         | [] -> bad
         | pl :: l2 ->
           (match l2 with
            | [] -> bad
            | sg :: l3 ->
              (match l3 with
               | [] ->
                 bind (o_protected p) (fun p' ->
                   bind (o_header u) (fun u' ->
                     bind (o_opt o_bytes pl) (fun pl' ->
                       bind (o_bytes sg) (fun sg' -> Ok { m0_prot = p';
                         m0_unprot = u'; m0_payload = pl'; m0_tag = sg' }))))
               | _ :: _ -> bad)))))
| _ -> bad

(** val o_recipient : value -> recipient res **)

let rec o_recipient = function
| VArray l ->
  (match l with
   | [] -> bad
   | p :: l0 ->
     (match l0 with
      | [] -> bad
      | u :: l1 ->
        (match l1 with
         | [] -> bad
         | ct :: l2 ->
           (match l2 with
            | [] -> bad
            | rs :: l3 ->
              (match l3 with
               | [] ->
                 bind (o_protected p) (fun p' ->
                   bind (o_header u) (fun u' ->
                     bind (o_opt o_bytes ct) (fun ct' ->
                       bind
                         (match rs with
                          | VArray l4 -> mapM o_recipient l4
                          | _ -> bad) (fun rs' -> Ok { r_prot = p';
                         r_unprot = u'; r_ct = ct'; r_recipients = rs' }))))
               | _ :: _ -> bad)))))
| _ -> bad

(** val o_mac : value -> mac res **)

let o_mac = function
| VArray l ->
  (match l with
   | [] -> bad
   | p :: l0 ->
     (match l0 with
      | [] -> bad
      | u :: l1 ->
        (match l1 with
         | [] -> bad
         | pl :: l2 ->
           (match l2 with
            | [] -> bad
            | tg :: l3 ->
              (match l3 with
               | [] -> bad
               | rs :: l4 ->
                 (match l4 with
                  | [] ->
                    bind (o_protected p) (fun p' ->
                      bind (o_header u) (fun u' ->
                        bind (o_opt o_bytes pl) (fun pl' ->
                          bind (o_bytes tg) (fun tg' ->
                            bind (o_list o_recipient rs) (fun rs' -> Ok
                              { mc_prot = p'; mc_unprot = u'; mc_payload =
                              pl'; mc_tag = tg'; mc_recipients = rs' })))))
                  | _ :: _ -> bad))))))
| _ -> bad

(** val o_encrypt : value -> encrypt res **)

let o_encrypt = function
| VArray l ->
  (match l with
   | [] -> bad
   | p :: l0 ->
     (match l0 with
      | [] -> bad
      | u :: l1 ->
        (match l1 with
         | [] -> bad
         | ct :: l2 ->
           (match l2 with
            | [] -> bad
            | rs :: l3 ->
              (match l3 with
               | [] ->
                 bind (o_protected p) (fun p' ->
                   bind (o_header u) (fun u' ->
                     bind (o_opt o_bytes ct) (fun ct' ->
                       bind (o_list o_recipient rs) (fun rs' -> Ok
                         { en_prot = p'; en_unprot = u'; en_ct = ct';
                         en_recipients = rs' }))))
               | _ :: _ -> bad)))))
| _ -> bad

(** val o_encrypt0 : value -> encrypt0 res **)

let o_encrypt0 = function
| VArray l ->
  (match l with
   | [] -> bad
   | p :: l0 ->
     (match l0 with
      | [] -> bad
      | u :: l1 ->
        (match l1 with
         | [] -> bad
         | ct :: l2 ->
           (match l2 with
            | [] ->
              bind (o_protected p) (fun p' ->
                bind (o_header u) (fun u' ->
                  bind (o_opt o_bytes ct) (fun ct' -> Ok { e0_prot = p';
                    e0_unprot = u'; e0_ct = ct' })))
            | _ :: _ -> bad))))
| _ -> bad

(** val o_key : value -> cose_key res **)

let o_key = function
| VArray l ->
  (match l with
   | [] -> bad
   | kty :: l0 ->
     (match l0 with
      | [] -> bad
      | kid :: l1 ->
        (match l1 with
         | [] -> bad
         | alg :: l2 ->
           (match l2 with
            | [] -> bad
            | ops :: l3 ->
              (match l3 with
               | [] -> bad
               | biv :: l4 ->
                 (match l4 with
                  | [] -> bad
                  | params :: l5 ->
                    (match l5 with
                     | [] ->
                       bind (o_reg kty) (fun kty' ->
                         bind (o_bytes kid) (fun kid' ->
                           bind (o_opt o_regp alg) (fun alg' ->
                             bind (o_list o_reg ops) (fun ops' ->
                               bind (o_bytes biv) (fun biv' ->
                                 bind (o_list o_pair params) (fun params' ->
                                   Ok { k_kty = kty'; k_kid = kid'; k_alg =
                                   alg'; k_ops =
                                   (fold_left (fun s x ->
                                     snd (reg_set_insert x s)) ops' []);
                                   k_base_iv = biv'; k_params = params' }))))))
                     | _ :: _ -> bad)))))))
| _ -> bad

(** val o_timestamp : value -> timestamp res **)

let o_timestamp = function
| VArray l ->
  (match l with
   | [] -> bad
   | v0 :: l0 ->
     (match v0 with
      | VInt z0 ->
        (match z0 with
         | Z0 ->
           (match l0 with
            | [] -> bad
            | v1 :: l1 ->
              (match v1 with
               | VInt z ->
                 (match l1 with
                  | [] -> Ok (WholeSeconds z)
                  | _ :: _ -> bad)
               | _ -> bad))
         | Zpos p ->
           (match p with
            | Coq_xH ->
              (match l0 with
               | [] -> bad
               | v1 :: l1 ->
                 (match v1 with
                  | VFloat f ->
                    (match l1 with
                     | [] -> Ok (FractionalSeconds f)
                     | _ :: _ -> bad)
                  | _ -> bad))
            | _ -> bad)
         | Zneg _ -> bad)
      | _ -> bad))
| _ -> bad

(** val o_claim_pair : value -> (regp_label * value) res **)

let o_claim_pair = function
| VArray l ->
  (match l with
   | [] -> bad
   | k :: l0 ->
     (match l0 with
      | [] -> bad
      | x :: l1 ->
        (match l1 with
         | [] -> bind (o_regp k) (fun l2 -> Ok (l2, x))
         | _ :: _ -> bad)))
| _ -> bad

(** val o_claims : value -> claims res **)

let o_claims = function
| VArray l ->
  (match l with
   | [] -> bad
   | i :: l0 ->
     (match l0 with
      | [] -> bad
      | s :: l1 ->
        (match l1 with
         | [] -> bad
         | a :: l2 ->
           (match l2 with
            | [] -> bad
            | e :: l3 ->
              (match l3 with
               | [] -> bad
               | n :: l4 ->
                 (match l4 with
                  | [] -> bad
                  | t :: l5 ->
                    (match l5 with
                     | [] -> bad
                     | c :: l6 ->
                       (match l6 with
                        | [] -> bad
                        | r :: l7 ->
                          (match l7 with
                           | [] ->
                             bind (o_opt o_text i) (fun i' ->
                               bind (o_opt o_text s) (fun s' ->
                                 bind (o_opt o_text a) (fun a' ->
                                   bind (o_opt o_timestamp e) (fun e' ->
                                     bind (o_opt o_timestamp n) (fun n' ->
                                       bind (o_opt o_timestamp t) (fun t' ->
                                         bind (o_opt o_bytes c) (fun c' ->
                                           bind (o_list o_claim_pair r)
                                             (fun r' -> Ok { c_iss = i';
                                             c_sub = s'; c_aud = a'; c_exp =
                                             e'; c_nbf = n'; c_iat = t';
                                             c_cti = c'; c_rest = r' }))))))))
                           | _ :: _ -> bad)))))))))
| _ -> bad

(** val o_nonce : value -> nonce res **)

let o_nonce = function
| VInt z -> Ok (NonceInteger z)
| VBytes b -> Ok (NonceBytes b)
| _ -> bad

(** val o_party : value -> party_info res **)

let o_party = function
| VArray l ->
  (match l with
   | [] -> bad
   | i :: l0 ->
     (match l0 with
      | [] -> bad
      | n :: l1 ->
        (match l1 with
         | [] -> bad
         | o :: l2 ->
           (match l2 with
            | [] ->
              bind (o_opt o_bytes i) (fun i' ->
                bind (o_opt o_nonce n) (fun n' ->
                  bind (o_opt o_bytes o) (fun o' -> Ok { pi_identity = i';
                    pi_nonce = n'; pi_other = o' })))
            | _ :: _ -> bad))))
| _ -> bad

(** val o_supp : value -> supp_pub_info res **)

let o_supp = function
| VArray l0 ->
  (match l0 with
   | [] -> bad
   | l :: l1 ->
     (match l1 with
      | [] -> bad
      | p :: l2 ->
        (match l2 with
         | [] -> bad
         | o :: l3 ->
           (match l3 with
            | [] ->
              bind (o_int l) (fun l' ->
                bind (o_protected p) (fun p' ->
                  bind (o_opt o_bytes o) (fun o' -> Ok { sp_len = l';
                    sp_prot = p'; sp_other = o' })))
            | _ :: _ -> bad))))
| _ -> bad

(** val o_kdf : value -> kdf_context res **)

let o_kdf = function
| VArray l ->
  (match l with
   | [] -> bad
   | a :: l0 ->
     (match l0 with
      | [] -> bad
      | u :: l1 ->
        (match l1 with
         | [] -> bad
         | w :: l2 ->
           (match l2 with
            | [] -> bad
            | s :: l3 ->
              (match l3 with
               | [] -> bad
               | pr :: l4 ->
                 (match l4 with
                  | [] ->
                    bind (o_regp a) (fun a' ->
                      bind (o_party u) (fun u' ->
                        bind (o_party w) (fun w' ->
                          bind (o_supp s) (fun s' ->
                            bind (o_list o_bytes pr) (fun pr' -> Ok
                              { kc_alg = a'; kc_u = u'; kc_v = w'; kc_pub =
                              s'; kc_priv = pr' })))))
                  | _ :: _ -> bad))))))
| _ -> bad
