open Datatypes

module Nat =
 struct
  (** val eqb : nat -> nat -> bool **)

  let rec eqb n m =
    match n with
    | O -> (match m with
            | O -> true
            | S _ -> false)
    | S n' -> (match m with
               | O -> false
               | S m' -> eqb n' m')

  (** val compare : nat -> nat -> comparison **)

  let rec compare n m =
    match n with
    | O -> (match m with
            | O -> Eq
            | S _ -> Lt)
    | S n' -> (match m with
               | O -> Gt
               | S m' -> compare n' m')
 end
