open Ascii
open Cbor
open Datatypes
open Iana
open Label
open List
open Msg
open Prelude
open String

type cose_key = { k_kty : reg_label; k_kid : bytes;
                  k_alg : regp_label option; k_ops : reg_label list;
                  k_base_iv : bytes; k_params : (label * value) list }

(** val coq_KTY_RESERVED : reg_label **)

let coq_KTY_RESERVED =
  RAssigned
    (enum_const (String ((Ascii (true, true, false, true, false, false, true,
      false)), (String ((Ascii (true, false, true, false, false, true, true,
      false)), (String ((Ascii (true, false, false, true, true, true, true,
      false)), (String ((Ascii (false, false, true, false, true, false, true,
      false)), (String ((Ascii (true, false, false, true, true, true, true,
      false)), (String ((Ascii (false, false, false, false, true, true, true,
      false)), (String ((Ascii (true, false, true, false, false, true, true,
      false)), EmptyString)))))))))))))) (String ((Ascii (false, true, false,
      false, true, false, true, false)), (String ((Ascii (true, false, true,
      false, false, true, true, false)), (String ((Ascii (true, true, false,
      false, true, true, true, false)), (String ((Ascii (true, false, true,
      false, false, true, true, false)), (String ((Ascii (false, true, false,
      false, true, true, true, false)), (String ((Ascii (false, true, true,
      false, true, true, true, false)), (String ((Ascii (true, false, true,
      false, false, true, true, false)), (String ((Ascii (false, false, true,
      false, false, true, true, false)), EmptyString)))))))))))))))))

(** val key_default : cose_key **)

let key_default =
  { k_kty = coq_KTY_RESERVED; k_kid = []; k_alg = None; k_ops = [];
    k_base_iv = []; k_params = [] }

(** val set_kty : reg_label -> cose_key -> cose_key **)

let set_kty x k =
  { k_kty = x; k_kid = k.k_kid; k_alg = k.k_alg; k_ops = k.k_ops; k_base_iv =
    k.k_base_iv; k_params = k.k_params }

(** val set_kkid : bytes -> cose_key -> cose_key **)

let set_kkid x k =
  { k_kty = k.k_kty; k_kid = x; k_alg = k.k_alg; k_ops = k.k_ops; k_base_iv =
    k.k_base_iv; k_params = k.k_params }

(** val set_kalg : regp_label option -> cose_key -> cose_key **)

let set_kalg x k =
  { k_kty = k.k_kty; k_kid = k.k_kid; k_alg = x; k_ops = k.k_ops; k_base_iv =
    k.k_base_iv; k_params = k.k_params }

(** val set_kops : reg_label list -> cose_key -> cose_key **)

let set_kops x k =
  { k_kty = k.k_kty; k_kid = k.k_kid; k_alg = k.k_alg; k_ops = x; k_base_iv =
    k.k_base_iv; k_params = k.k_params }

(** val set_kbase_iv : bytes -> cose_key -> cose_key **)

let set_kbase_iv x k =
  { k_kty = k.k_kty; k_kid = k.k_kid; k_alg = k.k_alg; k_ops = k.k_ops;
    k_base_iv = x; k_params = k.k_params }

(** val set_kparams : (label * value) list -> cose_key -> cose_key **)

let set_kparams x k =
  { k_kty = k.k_kty; k_kid = k.k_kid; k_alg = k.k_alg; k_ops = k.k_ops;
    k_base_iv = k.k_base_iv; k_params = x }

(** val key_ops_loop : value list -> reg_label list -> reg_label list res **)

let rec key_ops_loop a s =
  match a with
  | [] -> Ok s
  | x :: r ->
    bind (reg_from_value coq_T_KeyOperation x) (fun op ->
      let (ins, s') = reg_set_insert op s in
      if ins then key_ops_loop r s' else Err EUnexpected)

(** val key_step : cose_key -> label -> value -> cose_key res **)

let key_step k l x =
  if is_lint l coq_K_KTY
  then bind (reg_from_value coq_T_KeyType x) (fun t -> Ok (set_kty t k))
  else if is_lint l coq_K_KID
       then bind (try_as_nonempty_bytes x) (fun b -> Ok (set_kkid b k))
       else if is_lint l coq_K_ALG
            then bind
                   (regp_from_value (String ((Ascii (true, false, false,
                     false, false, false, true, false)), (String ((Ascii
                     (false, false, true, true, false, true, true, false)),
                     (String ((Ascii (true, true, true, false, false, true,
                     true, false)), (String ((Ascii (true, true, true, true,
                     false, true, true, false)), (String ((Ascii (false,
                     true, false, false, true, true, true, false)), (String
                     ((Ascii (true, false, false, true, false, true, true,
                     false)), (String ((Ascii (false, false, true, false,
                     true, true, true, false)), (String ((Ascii (false,
                     false, false, true, false, true, true, false)), (String
                     ((Ascii (true, false, true, true, false, true, true,
                     false)), EmptyString)))))))))))))))))) x) (fun a -> Ok
                   (set_kalg (Some a) k))
            else if is_lint l coq_K_KEY_OPS
                 then bind (try_as_array x) (fun a ->
                        bind (key_ops_loop a k.k_ops) (fun s ->
                          if isnil s
                          then Err EUnexpected
                          else Ok (set_kops s k)))
                 else if is_lint l coq_K_BASE_IV
                      then bind (try_as_nonempty_bytes x) (fun b -> Ok
                             (set_kbase_iv b k))
                      else Ok (set_kparams (app k.k_params ((l, x) :: [])) k)

(** val coq_CoseKey_from_value : value -> cose_key res **)

let coq_CoseKey_from_value v =
  bind (try_as_map v) (fun m ->
    bind (map_loop key_step m key_default []) (fun k ->
      if reg_eqb k.k_kty coq_KTY_RESERVED then Err EUnexpected else Ok k))

(** val coq_CoseKey_to_value : cose_key -> value res **)

let coq_CoseKey_to_value k =
  let m1 =
    app (((VInt coq_K_KTY), (reg_to_value k.k_kty)) :: [])
      (app (bytes_entry coq_K_KID k.k_kid)
        (app (opt_entry coq_K_ALG k.k_alg regp_to_value)
          (app
            (if isnil k.k_ops
             then []
             else ((VInt coq_K_KEY_OPS), (VArray
                    (map reg_to_value k.k_ops))) :: [])
            (bytes_entry coq_K_BASE_IV k.k_base_iv))))
  in
  bind (seed_seen m1) (fun seen ->
    bind (emit_rest k.k_params seen m1) (fun m -> Ok (VMap m)))

(** val coq_CoseKeySet_from_value : value -> cose_key list res **)

let coq_CoseKeySet_from_value v =
  bind (try_as_array v) (fun a -> mapM coq_CoseKey_from_value a)

(** val coq_CoseKeySet_to_value : cose_key list -> value res **)

let coq_CoseKeySet_to_value ks =
  bind (mapM coq_CoseKey_to_value ks) (fun vs -> Ok (VArray vs))

type cbor_ordering =
| Lexicographic
| LengthFirstLexicographic

(** val canonicalize : cbor_ordering -> cose_key -> cose_key **)

let canonicalize o k =
  match o with
  | Lexicographic ->
    set_kparams (sort_by (fun l r -> label_cmp (fst l) (fst r)) k.k_params) k
  | LengthFirstLexicographic ->
    set_kparams
      (sort_by (fun l r -> cmp_canonical (fst l) (fst r)) k.k_params) k
