open Ascii
open BinInt
open BinNums
open Datatypes
open Generated
open List
open Prelude
open String

(** val assoc : string -> (string * 'a1) list -> 'a1 option **)

let rec assoc k = function
| [] -> None
| p :: r -> let (k', a) = p in if eqb k k' then Some a else assoc k r

(** val table_of : string -> (string * coq_Z) list **)

let table_of reg =
  match assoc reg registries with
  | Some t -> t
  | None -> []

(** val from_i64 : (string * coq_Z) list -> coq_Z -> string option **)

let rec from_i64 t i =
  match t with
  | [] -> None
  | p :: r -> let (n, v) = p in if Z.eqb i v then Some n else from_i64 r i

(** val to_i64 : (string * coq_Z) list -> string -> coq_Z option **)

let to_i64 t name =
  assoc name t

(** val registered : (string * coq_Z) list -> coq_Z -> bool **)

let registered t i =
  issome (from_i64 t i)

(** val cmp_op : string -> coq_Z -> coq_Z -> bool **)

let cmp_op op a b =
  if eqb op (String ((Ascii (false, false, true, true, true, true, false,
       false)), EmptyString))
  then Z.ltb a b
  else if eqb op (String ((Ascii (false, false, true, true, true, true,
            false, false)), (String ((Ascii (true, false, true, true, true,
            true, false, false)), EmptyString))))
       then Z.leb a b
       else if eqb op (String ((Ascii (false, true, true, true, true, true,
                 false, false)), EmptyString))
            then Z.ltb b a
            else if eqb op (String ((Ascii (false, true, true, true, true,
                      true, false, false)), (String ((Ascii (true, false,
                      true, true, true, true, false, false)), EmptyString))))
                 then Z.leb b a
                 else if eqb op (String ((Ascii (true, false, true, true,
                           true, true, false, false)), (String ((Ascii (true,
                           false, true, true, true, true, false, false)),
                           EmptyString))))
                      then Z.eqb a b
                      else negb (Z.eqb a b)

(** val is_private : string -> coq_Z -> bool **)

let is_private reg i =
  match assoc reg private_ranges with
  | Some p -> let (op, bound) = p in cmp_op op i bound
  | None -> false

(** val enum_const : string -> string -> coq_Z **)

let enum_const reg name =
  match to_i64 (table_of reg) name with
  | Some z -> z
  | None ->
    Zneg (Coq_xI (Coq_xI (Coq_xI (Coq_xI (Coq_xI (Coq_xI (Coq_xO (Coq_xO
      (Coq_xO (Coq_xI (Coq_xO (Coq_xO (Coq_xO (Coq_xO (Coq_xI (Coq_xO (Coq_xI
      (Coq_xI (Coq_xI Coq_xH)))))))))))))))))))

(** val label_const : (string * (string * string)) list -> string -> coq_Z **)

let label_const consts c =
  match assoc c consts with
  | Some p -> let (reg, name) = p in enum_const reg name
  | None ->
    Zneg (Coq_xI (Coq_xI (Coq_xI (Coq_xI (Coq_xI (Coq_xI (Coq_xO (Coq_xO
      (Coq_xO (Coq_xI (Coq_xO (Coq_xO (Coq_xO (Coq_xO (Coq_xI (Coq_xO (Coq_xI
      (Coq_xI (Coq_xI Coq_xH)))))))))))))))))))

(** val coq_H_ALG : coq_Z **)

let coq_H_ALG =
  label_const header_label_consts (String ((Ascii (true, false, false, false,
    false, false, true, false)), (String ((Ascii (false, false, true, true,
    false, false, true, false)), (String ((Ascii (true, true, true, false,
    false, false, true, false)), EmptyString))))))

(** val coq_H_CRIT : coq_Z **)

let coq_H_CRIT =
  label_const header_label_consts (String ((Ascii (true, true, false, false,
    false, false, true, false)), (String ((Ascii (false, true, false, false,
    true, false, true, false)), (String ((Ascii (true, false, false, true,
    false, false, true, false)), (String ((Ascii (false, false, true, false,
    true, false, true, false)), EmptyString))))))))

(** val coq_H_CONTENT_TYPE : coq_Z **)

let coq_H_CONTENT_TYPE =
  label_const header_label_consts (String ((Ascii (true, true, false, false,
    false, false, true, false)), (String ((Ascii (true, true, true, true,
    false, false, true, false)), (String ((Ascii (false, true, true, true,
    false, false, true, false)), (String ((Ascii (false, false, true, false,
    true, false, true, false)), (String ((Ascii (true, false, true, false,
    false, false, true, false)), (String ((Ascii (false, true, true, true,
    false, false, true, false)), (String ((Ascii (false, false, true, false,
    true, false, true, false)), (String ((Ascii (true, true, true, true,
    true, false, true, false)), (String ((Ascii (false, false, true, false,
    true, false, true, false)), (String ((Ascii (true, false, false, true,
    true, false, true, false)), (String ((Ascii (false, false, false, false,
    true, false, true, false)), (String ((Ascii (true, false, true, false,
    false, false, true, false)), EmptyString))))))))))))))))))))))))

(** val coq_H_KID : coq_Z **)

let coq_H_KID =
  label_const header_label_consts (String ((Ascii (true, true, false, true,
    false, false, true, false)), (String ((Ascii (true, false, false, true,
    false, false, true, false)), (String ((Ascii (false, false, true, false,
    false, false, true, false)), EmptyString))))))

(** val coq_H_IV : coq_Z **)

let coq_H_IV =
  label_const header_label_consts (String ((Ascii (true, false, false, true,
    false, false, true, false)), (String ((Ascii (false, true, true, false,
    true, false, true, false)), EmptyString))))

(** val coq_H_PARTIAL_IV : coq_Z **)

let coq_H_PARTIAL_IV =
  label_const header_label_consts (String ((Ascii (false, false, false,
    false, true, false, true, false)), (String ((Ascii (true, false, false,
    false, false, false, true, false)), (String ((Ascii (false, true, false,
    false, true, false, true, false)), (String ((Ascii (false, false, true,
    false, true, false, true, false)), (String ((Ascii (true, false, false,
    true, false, false, true, false)), (String ((Ascii (true, false, false,
    false, false, false, true, false)), (String ((Ascii (false, false, true,
    true, false, false, true, false)), (String ((Ascii (true, true, true,
    true, true, false, true, false)), (String ((Ascii (true, false, false,
    true, false, false, true, false)), (String ((Ascii (false, true, true,
    false, true, false, true, false)), EmptyString))))))))))))))))))))

(** val coq_H_COUNTER_SIG : coq_Z **)

let coq_H_COUNTER_SIG =
  label_const header_label_consts (String ((Ascii (true, true, false, false,
    false, false, true, false)), (String ((Ascii (true, true, true, true,
    false, false, true, false)), (String ((Ascii (true, false, true, false,
    true, false, true, false)), (String ((Ascii (false, true, true, true,
    false, false, true, false)), (String ((Ascii (false, false, true, false,
    true, false, true, false)), (String ((Ascii (true, false, true, false,
    false, false, true, false)), (String ((Ascii (false, true, false, false,
    true, false, true, false)), (String ((Ascii (true, true, true, true,
    true, false, true, false)), (String ((Ascii (true, true, false, false,
    true, false, true, false)), (String ((Ascii (true, false, false, true,
    false, false, true, false)), (String ((Ascii (true, true, true, false,
    false, false, true, false)), EmptyString))))))))))))))))))))))

(** val coq_K_KTY : coq_Z **)

let coq_K_KTY =
  label_const key_label_consts (String ((Ascii (true, true, false, true,
    false, false, true, false)), (String ((Ascii (false, false, true, false,
    true, false, true, false)), (String ((Ascii (true, false, false, true,
    true, false, true, false)), EmptyString))))))

(** val coq_K_KID : coq_Z **)

let coq_K_KID =
  label_const key_label_consts (String ((Ascii (true, true, false, true,
    false, false, true, false)), (String ((Ascii (true, false, false, true,
    false, false, true, false)), (String ((Ascii (false, false, true, false,
    false, false, true, false)), EmptyString))))))

(** val coq_K_ALG : coq_Z **)

let coq_K_ALG =
  label_const key_label_consts (String ((Ascii (true, false, false, false,
    false, false, true, false)), (String ((Ascii (false, false, true, true,
    false, false, true, false)), (String ((Ascii (true, true, true, false,
    false, false, true, false)), EmptyString))))))

(** val coq_K_KEY_OPS : coq_Z **)

let coq_K_KEY_OPS =
  label_const key_label_consts (String ((Ascii (true, true, false, true,
    false, false, true, false)), (String ((Ascii (true, false, true, false,
    false, false, true, false)), (String ((Ascii (true, false, false, true,
    true, false, true, false)), (String ((Ascii (true, true, true, true,
    true, false, true, false)), (String ((Ascii (true, true, true, true,
    false, false, true, false)), (String ((Ascii (false, false, false, false,
    true, false, true, false)), (String ((Ascii (true, true, false, false,
    true, false, true, false)), EmptyString))))))))))))))

(** val coq_K_BASE_IV : coq_Z **)

let coq_K_BASE_IV =
  label_const key_label_consts (String ((Ascii (false, true, false, false,
    false, false, true, false)), (String ((Ascii (true, false, false, false,
    false, false, true, false)), (String ((Ascii (true, true, false, false,
    true, false, true, false)), (String ((Ascii (true, false, true, false,
    false, false, true, false)), (String ((Ascii (true, true, true, true,
    true, false, true, false)), (String ((Ascii (true, false, false, true,
    false, false, true, false)), (String ((Ascii (false, true, true, false,
    true, false, true, false)), EmptyString))))))))))))))

(** val coq_C_ISS : coq_Z **)

let coq_C_ISS =
  label_const claim_consts (String ((Ascii (true, false, false, true, false,
    false, true, false)), (String ((Ascii (true, true, false, false, true,
    false, true, false)), (String ((Ascii (true, true, false, false, true,
    false, true, false)), EmptyString))))))

(** val coq_C_SUB : coq_Z **)

let coq_C_SUB =
  label_const claim_consts (String ((Ascii (true, true, false, false, true,
    false, true, false)), (String ((Ascii (true, false, true, false, true,
    false, true, false)), (String ((Ascii (false, true, false, false, false,
    false, true, false)), EmptyString))))))

(** val coq_C_AUD : coq_Z **)

let coq_C_AUD =
  label_const claim_consts (String ((Ascii (true, false, false, false, false,
    false, true, false)), (String ((Ascii (true, false, true, false, true,
    false, true, false)), (String ((Ascii (false, false, true, false, false,
    false, true, false)), EmptyString))))))

(** val coq_C_EXP : coq_Z **)

let coq_C_EXP =
  label_const claim_consts (String ((Ascii (true, false, true, false, false,
    false, true, false)), (String ((Ascii (false, false, false, true, true,
    false, true, false)), (String ((Ascii (false, false, false, false, true,
    false, true, false)), EmptyString))))))

(** val coq_C_NBF : coq_Z **)

let coq_C_NBF =
  label_const claim_consts (String ((Ascii (false, true, true, true, false,
    false, true, false)), (String ((Ascii (false, true, false, false, false,
    false, true, false)), (String ((Ascii (false, true, true, false, false,
    false, true, false)), EmptyString))))))

(** val coq_C_IAT : coq_Z **)

let coq_C_IAT =
  label_const claim_consts (String ((Ascii (true, false, false, true, false,
    false, true, false)), (String ((Ascii (true, false, false, false, false,
    false, true, false)), (String ((Ascii (false, false, true, false, true,
    false, true, false)), EmptyString))))))

(** val coq_C_CTI : coq_Z **)

let coq_C_CTI =
  label_const claim_consts (String ((Ascii (true, true, false, false, false,
    false, true, false)), (String ((Ascii (false, false, true, false, true,
    false, true, false)), (String ((Ascii (true, false, false, true, false,
    false, true, false)), EmptyString))))))

(** val tag_of : string -> coq_N **)

let tag_of ty =
  match assoc ty tag_of_type with
  | Some p ->
    let (reg, name) = p in
    if eqb reg EmptyString then N0 else Z.to_N (enum_const reg name)
  | None -> N0

(** val ctx_text : (string * string) list -> string -> string **)

let ctx_text tbl variant =
  match assoc variant tbl with
  | Some s -> s
  | None -> EmptyString

(** val arity_ok : string -> nat -> bool **)

let arity_ok ty n =
  match assoc ty arity_of_type with
  | Some p ->
    let (op, ks) = p in
    if eqb op (String ((Ascii (true, false, false, true, false, true, true,
         false)), (String ((Ascii (false, true, true, true, false, true,
         true, false)), EmptyString))))
    then existsb (Z.eqb (Z.of_nat n)) ks
    else if eqb op (String ((Ascii (true, true, true, false, false, true,
              true, false)), (String ((Ascii (true, false, true, false,
              false, true, true, false)), EmptyString))))
         then forallb (fun k -> Z.leb k (Z.of_nat n)) ks
         else false
  | None -> false

(** val nest_limit : nat **)

let nest_limit =
  match protected_nesting_limit with
  | Some p ->
    let (n, op) = p in
    if eqb op (String ((Ascii (false, true, true, true, true, true, false,
         false)), (String ((Ascii (true, false, true, true, true, true,
         false, false)), EmptyString))))
    then n
    else if eqb op (String ((Ascii (false, true, true, true, true, true,
              false, false)), EmptyString))
         then S n
         else n
  | None ->
    S (S (S (S (S (S (S (S (S (S (S (S (S (S (S (S (S (S (S (S (S (S (S (S (S
      (S (S (S (S (S (S (S (S (S (S (S (S (S (S (S (S (S (S (S (S (S (S (S (S
      (S (S (S (S (S (S (S (S (S (S (S (S (S (S (S (S (S (S (S (S (S (S (S (S
      (S (S (S (S (S (S (S (S (S (S (S (S (S (S (S (S (S (S (S (S (S (S (S (S
      (S (S (S (S (S (S (S (S (S (S (S (S (S (S (S (S (S (S (S (S (S (S (S (S
      (S (S (S (S (S (S (S (S (S (S (S (S (S (S (S (S (S (S (S (S (S (S (S (S
      (S (S (S (S (S (S (S (S (S (S (S (S (S (S (S (S (S (S (S (S (S (S (S (S
      (S (S (S (S (S (S (S (S (S (S (S (S (S (S (S (S (S (S (S (S (S (S (S (S
      (S (S (S (S (S (S (S (S (S (S (S (S (S (S (S (S (S (S (S (S (S (S (S (S
      (S (S (S (S (S (S (S (S (S (S (S (S (S (S (S (S (S (S (S (S (S (S (S (S
      (S (S (S (S (S (S (S (S (S (S (S (S (S (S (S (S (S (S (S (S (S (S (S (S
      (S (S (S (S (S (S (S (S (S (S (S (S (S (S (S (S (S (S (S (S (S (S (S (S
      (S (S (S (S (S (S (S (S (S (S (S (S (S (S (S (S (S (S (S (S (S (S (S (S
      (S (S (S (S (S (S (S (S (S (S (S (S (S (S (S (S (S (S (S (S (S (S (S (S
      (S (S (S (S (S (S (S (S (S (S (S (S (S (S (S (S (S (S (S (S (S (S (S (S
      (S (S (S (S (S (S (S (S (S (S (S (S (S (S (S (S (S (S (S (S (S (S (S (S
      (S (S (S (S (S (S (S (S (S (S (S (S (S (S (S (S (S (S (S (S (S (S (S (S
      (S (S (S (S (S (S (S (S (S (S (S (S (S (S (S (S (S (S (S (S (S (S (S (S
      (S (S (S (S (S (S (S (S (S (S (S (S (S (S (S (S (S (S (S (S (S (S (S (S
      (S (S (S (S (S (S (S (S (S (S (S (S (S (S (S (S (S (S (S (S (S (S (S (S
      (S (S (S (S (S (S (S (S (S (S (S (S (S (S (S (S (S (S (S (S (S (S (S (S
      (S (S (S (S (S (S (S (S (S (S (S (S (S (S (S (S (S (S (S (S (S (S (S (S
      (S (S (S (S (S (S (S (S (S (S (S (S (S (S (S (S (S (S (S (S (S (S (S (S
      (S (S (S (S (S (S (S (S (S (S (S (S (S (S (S (S (S (S (S (S (S (S (S (S
      (S (S (S (S (S (S (S (S (S (S (S (S (S (S (S (S (S (S (S (S (S (S (S (S
      (S (S (S (S (S (S (S (S (S (S (S (S (S (S (S (S (S (S (S (S (S (S (S (S
      (S (S (S (S (S (S (S (S (S (S (S (S (S (S (S (S (S (S (S (S (S (S (S (S
      (S (S (S (S (S (S (S (S (S (S (S (S (S (S (S (S (S (S (S (S (S (S (S (S
      (S (S (S (S (S (S (S (S (S (S (S (S (S (S (S (S (S (S (S (S (S (S (S (S
      (S (S (S (S (S (S (S (S (S (S (S (S (S (S (S (S (S (S (S (S (S (S (S (S
      (S (S (S (S (S (S (S (S (S (S (S (S (S (S (S (S (S (S (S (S (S (S (S (S
      (S (S (S (S (S (S (S (S (S (S (S (S (S (S (S (S (S (S (S (S (S (S (S (S
      (S (S (S (S (S (S (S (S (S (S (S (S (S (S (S (S (S (S (S (S (S (S (S (S
      (S (S (S (S (S (S (S (S (S (S (S (S (S (S (S (S (S (S (S (S (S (S (S (S
      (S (S (S (S (S (S (S (S (S (S (S (S (S (S (S (S (S (S (S (S (S (S (S (S
      (S (S (S (S (S (S (S (S (S (S (S (S (S (S (S (S (S (S (S (S (S (S (S (S
      (S (S (S (S (S (S (S (S (S (S (S (S (S (S (S (S (S (S (S (S (S (S (S (S
      (S (S (S (S (S (S (S (S (S (S (S (S (S (S (S (S (S (S (S (S (S (S (S (S
      (S (S (S (S (S (S (S (S (S (S (S (S (S (S (S (S (S (S (S (S (S (S (S (S
      (S (S (S (S (S (S (S (S (S (S (S (S (S (S (S (S (S (S (S (S (S (S (S (S
      (S (S (S (S (S (S (S (S (S (S (S (S (S (S (S (S (S (S (S (S (S (S (S (S
      (S (S (S (S (S (S (S (S (S (S (S (S (S (S (S
      O)))))))))))))))))))))))))))))))))))))))))))))))))))))))))))))))))))))))))))))))))))))))))))))))))))))))))))))))))))))))))))))))))))))))))))))))))))))))))))))))))))))))))))))))))))))))))))))))))))))))))))))))))))))))))))))))))))))))))))))))))))))))))))))))))))))))))))))))))))))))))))))))))))))))))))))))))))))))))))))))))))))))))))))))))))))))))))))))))))))))))))))))))))))))))))))))))))))))))))))))))))))))))))))))))))))))))))))))))))))))))))))))))))))))))))))))))))))))))))))))))))))))))))))))))))))))))))))))))))))))))))))))))))))))))))))))))))))))))))))))))))))))))))))))))))))))))))))))))))))))))))))))))))))))))))))))))))))))))))))))))))))))))))))))))))))))))))))))))))))))))))))))))))))))))))))))))))))))))))))))))))))))))))))))))))))))))))))))))))))))))))))))))))))))))))))))))))))))))))))))))))))))))))))))))))))))))))))))))))))))))))))))))))))))))))))))))))))))))))))))))))))))))))))))))))))))))))))))))))))))))))))))))))))))))))))))))))))))))))))))))))))))))))))))))))))))))))))))))))))))

(** val coq_T_HeaderParameter : (string * coq_Z) list **)

let coq_T_HeaderParameter =
  table_of (String ((Ascii (false, false, false, true, false, false, true,
    false)), (String ((Ascii (true, false, true, false, false, true, true,
    false)), (String ((Ascii (true, false, false, false, false, true, true,
    false)), (String ((Ascii (false, false, true, false, false, true, true,
    false)), (String ((Ascii (true, false, true, false, false, true, true,
    false)), (String ((Ascii (false, true, false, false, true, true, true,
    false)), (String ((Ascii (false, false, false, false, true, false, true,
    false)), (String ((Ascii (true, false, false, false, false, true, true,
    false)), (String ((Ascii (false, true, false, false, true, true, true,
    false)), (String ((Ascii (true, false, false, false, false, true, true,
    false)), (String ((Ascii (true, false, true, true, false, true, true,
    false)), (String ((Ascii (true, false, true, false, false, true, true,
    false)), (String ((Ascii (false, false, true, false, true, true, true,
    false)), (String ((Ascii (true, false, true, false, false, true, true,
    false)), (String ((Ascii (false, true, false, false, true, true, true,
    false)), EmptyString))))))))))))))))))))))))))))))

(** val coq_T_CoapContentFormat : (string * coq_Z) list **)

let coq_T_CoapContentFormat =
  table_of (String ((Ascii (true, true, false, false, false, false, true,
    false)), (String ((Ascii (true, true, true, true, false, true, true,
    false)), (String ((Ascii (true, false, false, false, false, true, true,
    false)), (String ((Ascii (false, false, false, false, true, true, true,
    false)), (String ((Ascii (true, true, false, false, false, false, true,
    false)), (String ((Ascii (true, true, true, true, false, true, true,
    false)), (String ((Ascii (false, true, true, true, false, true, true,
    false)), (String ((Ascii (false, false, true, false, true, true, true,
    false)), (String ((Ascii (true, false, true, false, false, true, true,
    false)), (String ((Ascii (false, true, true, true, false, true, true,
    false)), (String ((Ascii (false, false, true, false, true, true, true,
    false)), (String ((Ascii (false, true, true, false, false, false, true,
    false)), (String ((Ascii (true, true, true, true, false, true, true,
    false)), (String ((Ascii (false, true, false, false, true, true, true,
    false)), (String ((Ascii (true, false, true, true, false, true, true,
    false)), (String ((Ascii (true, false, false, false, false, true, true,
    false)), (String ((Ascii (false, false, true, false, true, true, true,
    false)), EmptyString))))))))))))))))))))))))))))))))))

(** val coq_T_KeyType : (string * coq_Z) list **)

let coq_T_KeyType =
  table_of (String ((Ascii (true, true, false, true, false, false, true,
    false)), (String ((Ascii (true, false, true, false, false, true, true,
    false)), (String ((Ascii (true, false, false, true, true, true, true,
    false)), (String ((Ascii (false, false, true, false, true, false, true,
    false)), (String ((Ascii (true, false, false, true, true, true, true,
    false)), (String ((Ascii (false, false, false, false, true, true, true,
    false)), (String ((Ascii (true, false, true, false, false, true, true,
    false)), EmptyString))))))))))))))

(** val coq_T_KeyOperation : (string * coq_Z) list **)

let coq_T_KeyOperation =
  table_of (String ((Ascii (true, true, false, true, false, false, true,
    false)), (String ((Ascii (true, false, true, false, false, true, true,
    false)), (String ((Ascii (true, false, false, true, true, true, true,
    false)), (String ((Ascii (true, true, true, true, false, false, true,
    false)), (String ((Ascii (false, false, false, false, true, true, true,
    false)), (String ((Ascii (true, false, true, false, false, true, true,
    false)), (String ((Ascii (false, true, false, false, true, true, true,
    false)), (String ((Ascii (true, false, false, false, false, true, true,
    false)), (String ((Ascii (false, false, true, false, true, true, true,
    false)), (String ((Ascii (true, false, false, true, false, true, true,
    false)), (String ((Ascii (true, true, true, true, false, true, true,
    false)), (String ((Ascii (false, true, true, true, false, true, true,
    false)), EmptyString))))))))))))))))))))))))

(** val coq_T_KeyParameter : (string * coq_Z) list **)

let coq_T_KeyParameter =
  table_of (String ((Ascii (true, true, false, true, false, false, true,
    false)), (String ((Ascii (true, false, true, false, false, true, true,
    false)), (String ((Ascii (true, false, false, true, true, true, true,
    false)), (String ((Ascii (false, false, false, false, true, false, true,
    false)), (String ((Ascii (true, false, false, false, false, true, true,
    false)), (String ((Ascii (false, true, false, false, true, true, true,
    false)), (String ((Ascii (true, false, false, false, false, true, true,
    false)), (String ((Ascii (true, false, true, true, false, true, true,
    false)), (String ((Ascii (true, false, true, false, false, true, true,
    false)), (String ((Ascii (false, false, true, false, true, true, true,
    false)), (String ((Ascii (true, false, true, false, false, true, true,
    false)), (String ((Ascii (false, true, false, false, true, true, true,
    false)), EmptyString))))))))))))))))))))))))
