open Ascii
open BinNums
open Datatypes
open String

val coq_HeaderParameter_table : (string * coq_Z) list

val coq_HeaderAlgorithmParameter_table : (string * coq_Z) list

val coq_Algorithm_table : (string * coq_Z) list

val coq_KeyParameter_table : (string * coq_Z) list

val coq_OkpKeyParameter_table : (string * coq_Z) list

val coq_Ec2KeyParameter_table : (string * coq_Z) list

val coq_RsaKeyParameter_table : (string * coq_Z) list

val coq_SymmetricKeyParameter_table : (string * coq_Z) list

val coq_HssLmsKeyParameter_table : (string * coq_Z) list

val coq_WalnutDsaKeyParameter_table : (string * coq_Z) list

val coq_KeyType_table : (string * coq_Z) list

val coq_EllipticCurve_table : (string * coq_Z) list

val coq_KeyOperation_table : (string * coq_Z) list

val coq_CborTag_table : (string * coq_Z) list

val coq_CoapContentFormat_table : (string * coq_Z) list

val coq_CwtClaimName_table : (string * coq_Z) list

val registries : (string * (string * coq_Z) list) list

val private_ranges : (string * (string * coq_Z)) list

val sig_ctx_text : (string * string) list

val mac_ctx_text : (string * string) list

val enc_ctx_text : (string * string) list

val tag_of_type : (string * (string * string)) list

val header_label_consts : (string * (string * string)) list

val key_label_consts : (string * (string * string)) list

val claim_consts : (string * (string * string)) list

val arity_of_type : (string * (string * coq_Z list)) list

val protected_nesting_limit : (nat * string) option
